"""C17 - constraint islands: the union-find core (mj_dsuRoot, mj_dsuMerge, mj_dsuAssign)."""
import z3
from vlib.report import Check
from vlib.symex import Obligation
from contracts import island

F = 'src/engine/engine_island.c'


def counting_lemmas():
    """the two facts about the ghost counting function cnt that mj_dsuAssign's contract uses, by induction on the upper
    index: each is a (base, step) pair of obligations over the recursive definition of cnt."""
    cnt, rep = z3.Array('cnt', z3.IntSort(), z3.IntSort()), z3.Array('rep', z3.IntSort(), z3.IntSort())
    N, b, a, t = z3.Ints('N b a t')
    defn = z3.And(cnt[0] == 0, z3.ForAll([t], z3.Implies(z3.And(0 <= t, t < N), cnt[t + 1] == cnt[t] + z3.If(rep[t] == t, 1, 0))))
    P = lambda bb: z3.ForAll([a], z3.Implies(z3.And(0 <= a, a <= bb), cnt[a] <= cnt[bb]))      # monotone up to bb
    Q = lambda bb: z3.And(0 <= cnt[bb], cnt[bb] <= bb)                                           # bounded by the index
    obs = [
        Obligation('lemma/cnt_monotone/base', [defn, N >= 0], P(z3.IntVal(0)), 'lemma'),
        Obligation('lemma/cnt_monotone/step', [defn, 0 <= b, b < N, P(b)], P(b + 1), 'lemma'),
        Obligation('lemma/cnt_bounded/base', [defn, N >= 0], Q(z3.IntVal(0)), 'lemma'),
        Obligation('lemma/cnt_bounded/step', [defn, 0 <= b, b < N, Q(b)], Q(b + 1), 'lemma'),
    ]
    return obs


NATIVE = r"""
static int vf_sparse = 0;
int mj_isSparse(const mjModel* m) { (void)m; return vf_sparse; }
// all trees the generic scan of one Jacobian row yields, in order (at most cap); returns their number
int vf_scan(int sparse, int nv, int ntree, const int* dof_treeid, const int* tree_dofadr, const int* tree_dofnum,
            const double* Jrow, int rownnz, const int* colind, int* out, int cap) {
  mjModel m; mjData d; memset(&m, 0, sizeof m); memset(&d, 0, sizeof d);
  vf_sparse = sparse;
  m.nv = nv; m.ntree = ntree; m.dof_treeid = (int*)dof_treeid; m.tree_dofadr = (int*)tree_dofadr; m.tree_dofnum = (int*)tree_dofnum;
  int rn[1] = {rownnz}, ra[1] = {0};
  d.efc_J = (mjtNum*)Jrow; d.efc_J_rownnz = rn; d.efc_J_rowadr = ra; d.efc_J_colind = (int*)colind;
  mjTreeIter it; it.trees[0] = -2; it.trees[1] = -2; it.jac_idx = 0; it.tree_prev = -1;
  int k = 0;
  for (;;) { int t = treeNext(&m, &d, 0, &it); if (t == -2 || k >= cap) break; out[k++] = t; }
  return k;
}
int vf_run(int n, int nops, const int* ops, int* parent, int* island, int* nidof) {
  int dofnum[16];
  for (int i=0; i<n; i++) { parent[i] = -1; island[i] = -7; dofnum[i] = i+1; }
  int r = -100;
  VF_TRY({
    for (int k=0; k<nops; k++) mj_dsuMerge(parent, ops[2*k], ops[2*k+1]);
    r = mj_dsuAssign(island, parent, dofnum, n, nidof);
  });
  return vf_error_flag ? -99 : r;
}
"""


def native_contract_run(open_obligations=(), budget=4000):
    """the real compiled union-find on every merge sequence over small forests, judged against connected components
    computed independently.  Bounded (N <= 4: all sequences of length <= 3; N <= 7: seeded random longer ones)."""
    import ctypes
    import itertools
    import os
    import random
    from vlib import native
    lib, d = native.build_so('c17', [F], NATIVE)
    try:
        rnd = random.Random(int(os.environ.get('VERIF_SEED', '0') or 0))

        def cases():
            for n in (1, 2, 3, 4):
                pairs = [(a, b) for a in range(-1, n) for b in range(-1, n) if not (a == -1 and b == -1)]
                for L in range(0, 4):
                    for seq in itertools.product(pairs, repeat=L):
                        yield n, list(seq)
            for _ in range(budget):
                n = rnd.randint(4, 7)
                yield n, [(rnd.randint(-1, n - 1), rnd.randint(0, n - 1)) for _ in range(rnd.randint(3, 10))]
        count = 0
        for n, seq in cases():
            count += 1
            if count > 60000:
                break
            ops = (ctypes.c_int * (2 * max(1, len(seq))))(*[x for p in seq for x in p])
            parent, isl = (ctypes.c_int * 16)(), (ctypes.c_int * 16)()
            nidof = ctypes.c_int(0)
            r = lib.vf_run(n, len(seq), ops, parent, isl, ctypes.byref(nidof))
            # reference: connected components by brute force
            comp = list(range(n))
            active = [False] * n
            for a, b in seq:
                a2, b2 = (b if a == -1 else a), (a if b == -1 else b)
                active[a2] = active[b2] = True
                ca, cb = comp[a2], comp[b2]
                if ca != cb:
                    comp = [min(ca, cb) if c in (ca, cb) else c for c in comp]
            roots = sorted({comp[t] for t in range(n) if active[t]})
            want = [roots.index(comp[t]) if active[t] else -1 for t in range(n)]
            got = [isl[t] for t in range(n)]
            wdof = sum(t + 1 for t in range(n) if active[t])
            if r != len(roots) or got != want or nidof.value != wdof:
                return {'reproduced': True, 'name': 'union_find_vs_connected_components',
                        'input': {'ntree': n, 'merges': seq}, 'observed': {'nisland': r, 'tree_island': got, 'nidof': nidof.value},
                        'expected': {'nisland': len(roots), 'tree_island': want, 'nidof': wdof},
                        'violated_clause': 'islands are the connected components; ids ascend with the smallest tree', 'cases_run': count}
        # generic Jacobian-row scan (treeNext), dense and sparse layout
        for trial in range(2000):
            ntree = rnd.randint(1, 4)
            dofnum = [rnd.randint(1, 3) for _ in range(ntree)]
            dofadr = [sum(dofnum[:t]) for t in range(ntree)]
            nv = sum(dofnum)
            treeid = [t for t in range(ntree) for _ in range(dofnum[t])]
            row = [rnd.choice([0.0, 0.0, 1.5, -2.0]) for _ in range(nv)]
            want = []
            for q in range(nv):
                if row[q] != 0.0 and (not want or want[-1] != treeid[q]):
                    want.append(treeid[q])
            cols = [q for q in range(nv) if row[q] != 0.0]
            for sparse in (0, 1):
                out = (ctypes.c_int * 16)()
                jr = (ctypes.c_double * max(1, nv))(*(row if not sparse else [row[q] for q in cols] + [0.0] * (max(1, nv) - len(cols))))
                k = lib.vf_scan(sparse, nv, ntree, (ctypes.c_int * nv)(*treeid), (ctypes.c_int * ntree)(*dofadr), (ctypes.c_int * ntree)(*dofnum),
                                jr, len(cols), (ctypes.c_int * max(1, len(cols)))(*(cols or [0])), out, 16)
                count += 1
                if list(out[:k]) != want:
                    return {'reproduced': True, 'name': 'treeNext_generic_scan', 'input': {'layout': 'sparse' if sparse else 'dense', 'dof_treeid': treeid, 'jacobian_row': row},
                            'observed': list(out[:k]), 'expected': want, 'violated_clause': 'the scan yields the tree of every non-zero entry, consecutive repeats merged', 'cases_run': count}
        return {'reproduced': False, 'cases_run': count}
    finally:
        native.cleanup(d)


def main():
    chk = Check('C17')
    chk.native_fallback = native_contract_run
    C = island.contracts()
    for fn in ('mj_dsuRoot', 'mj_dsuMerge', 'mj_dsuAssign'):
        chk.unit(F, fn, C, 'math', 'fp')
    for sp in (True, False):
        chk.unit(F, 'treeNext', island.next_contracts(sp), 'math', 'fp', prefix='[%s]' % ('sparse' if sp else 'dense'))
    chk.unit(F, 'treeIterInit', island.iter_contracts(), 'math', 'fp')
    chk.add_obligations(counting_lemmas(), {'function': 'cnt (ghost counting function): induction lemmas', 'file': 'contracts/island.py',
                                            'status': 'lemma', 'obligations': 4})
    import time
    from vlib.report import run_isolated
    t0 = time.time()
    r = run_isolated(lambda n, m, o: native_contract_run([]), '', None, None, timeout=600, crash_is_failure=False)
    chk.bounded.append({'what': 'real compiled mj_dsuMerge* ; mj_dsuAssign vs brute-force connected components',
                        'bound': 'ntree <= 4: every merge sequence of length <= 3 (endpoints -1..ntree-1); ntree <= 7: 4000 seeded random sequences of length <= 10',
                        'result': r, 'wall_s': round(time.time() - t0, 1), 'counted_as_proved': False})
    if r and r.get('reproduced'):
        chk.native_fallback = None
        chk.external('bounded/native_contract_run', False, 'native-exhaustive(bounded)', time.time() - t0, detail=str(r)[:300], model=r)
    chk.assumptions |= {
        'induction principle over the naturals (the base/step obligations of the cnt lemmas are discharged; their conclusion for all indices is the induction schema)',
        'the dof counts of the active trees sum to less than 2^31 (they are dofs of one model)',
    }
    chk.out_of_reach += [
        'unionConstraintTrees / treeIterInit (which rows are scanned and how their trees are merged; needs an evolving ghost witness through the row loop) - not under contract; the generic scan treeNext is',
        'mj_island map construction (dof / efc permutations being mutually inverse) - not under contract',
        'mj_floodFill (legacy DFS, not on the mj_island path)']
    return chk.finish()
