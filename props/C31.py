"""C31 - binary model files: validation of cross-references, bounds of the loader, save/size/load agreement."""
import re
import z3
from vlib.report import Check
from vlib.symex import Obligation
from vlib.state import Ptr
from contracts import io, modeltab

F = 'src/engine/engine_io.c'


def _events(res, want_nonnull_result=False):
    """copy events of the (single) path that returns normally / returns a model."""
    cands = []
    for s in res.ret_states:
        ev = s.ghost.get('$blob', ())
        rv = s.ghost.get('$ret')
        if want_nonnull_result and not (isinstance(rv, Ptr) and rv.obj is not None):
            continue
        cands.append((s, ev))
    if len(cands) != 1:
        return None, None
    return cands[0]


def _field(desc):
    return desc.split('.', 1)[1] if '.' in desc else desc


def mirror(chk, save, load):
    """load(save(m)): lock-step comparison of the two executions' copy events.  Both sides are gap-free from offset 0
    (obligations */advances_by_bytes_copied of the two units), so equal item order and equal item lengths give equal
    offsets by induction; memcpy is a byte copy, so every item read is the item written."""
    obs = []

    def ob(name, goal, asm=()):
        obs.append(Obligation('mirror/' + name, list(asm), goal if not isinstance(goal, bool) else z3.BoolVal(goal), 'post'))
    ss, S = _events(save)
    ls, L = _events(load, want_nonnull_result=True)
    if S is None or L is None:
        chk.undecided.append('mirror: could not isolate the writing path of mj_saveModel / the success path of mj_loadModelBuffer')
        return
    sizes = modeltab.model_sizes()
    ns = len(sizes)
    ob('same_number_of_items', len(S) == len(L) + ns - 1)
    if len(S) != len(L) + ns - 1:
        chk.add_obligations(obs)
        return
    # header
    ob('header/same_length', z3.simplify(S[0]['nbytes'] == L[0]['nbytes']))
    ob('header/at_offset_0', z3.simplify(z3.And(S[0]['buf_off'] == 0, L[0]['buf_off'] == 0)))
    # sizes: written one by one in MJMODEL_SIZES order, read as one block, assigned back by index
    blk = L[1]
    ob('sizes/block_length', z3.simplify(blk['nbytes'] == 8 * ns))
    M = ls.ghost['$ret'].obj
    mt = load.exe.tu.ctype('mjModel')
    subst = []
    for j, nm in enumerate(sizes):
        ev = S[1 + j]
        ob('sizes/%s/written_in_table_order' % nm, _field(ev['field']) == nm and z3.is_true(z3.simplify(ev['nbytes'] == 8)))
        ob('sizes/%s/written_where_read' % nm, z3.And(ev['buf_off'] == 20 + 8 * j, z3.simplify(blk['buf_off'] == 20)), list(ss.pc))
        got = z3.simplify(ls.load(Ptr(M, (0,), (nm,), mt.field(nm))))
        # the loaded model's size field must be exactly element j of the block that was read
        cell = load.exe.local_objs and None
        ok = z3.is_app(got) and (('[%d]' % j) in got.decl().name() or (got.decl().kind() == z3.Z3_OP_SELECT and z3.simplify(got.arg(1) == j)))
        ob('sizes/%s/loaded_from_its_slot' % nm, bool(ok))
        src_sym = save.pre.load(Ptr(save.params['m'].obj, (0,), (nm,), mt.field(nm)))
        subst.append((got, src_sym))
    # structs, flags, arrays
    for k in range(2, len(L)):
        se, le = S[k + ns - 1], L[k]
        nm = _field(le['field'])
        ob('item/%s/same_item' % nm, _field(se['field']) == nm)
        lt = z3.substitute(le['nbytes'], *subst) if subst else le['nbytes']
        ob('item/%s/same_length' % nm, lt == se['nbytes'], [a for a in ss.pc[:len(save.pre.pc)]])
        ob('item/%s/whole_object' % nm, z3.simplify(z3.And(se['typed_off'] == 0, le['typed_off'] == 0)))
    # completeness: every member of mjModel is a size, a serialized struct / flag / array, or the buffer pointer itself
    serialized = set(sizes) | {_field(e['field']) for e in S}
    members = [f for f, _ in mt.fields]
    for f in members:
        if f in ('buffer', 'signature'):
            continue      # the allocation itself; the compile-time signature is documented as not stored in MJB files
        ob('complete/%s_is_serialized' % f, f in serialized)
    chk.add_obligations(obs, {'function': 'mj_saveModel x mj_loadModelBuffer (mirror)', 'file': F, 'status': 'relational obligations over the two symbolic executions',
                              'obligations': len(obs)})


def main():
    chk = Check('C31')
    C = io.contracts()
    hooks = {'mj_makeModel': io.make_model_hook}
    # independent units run in child processes while the save / load executions (whose terms the mirror needs) run here
    chk.unit_in_child(F, 'mj_validateReferences', C, 'math', 'fp')
    chk.unit_in_child(F, 'mj_sizeModel', C, 'math', 'fp')
    save = chk.unit(F, 'mj_saveModel', C, 'math', 'fp', hooks=hooks)
    load = chk.unit(F, 'mj_loadModelBuffer', C, 'math', 'fp', hooks=hooks)
    if save is not None and load is not None:
        mirror(chk, save, load)
    chk.assumptions |= {
        'model invariant: every pointer field of mjModel is an array of the length include/mujoco/mjxmacro.h gives it (re-read every run); sizes are non-negative and below INT_MAX (checked by mj_makeModel)',
        'plugin sensors: mjp_getPluginAtSlot returns a valid plugin and its nsensordata callback has no effect on the model (assumed)',
        'mj_saveModel / mj_sizeModel: the model is one a buffer of int size can hold (mocap bodies are bodies; every array below 2^31 bytes for mj_sizeModel)',
        'round trip: memcpy copies bytes exactly, so an item read from the offset and with the length it was written has the written value (contents are not modelled)',
        'mj_deleteModel, mju_free, mj_version, mju_warning have no effect on the verified state',
    }
    chk.out_of_reach += ['mj_makeModel body (allocation arithmetic inside one raw buffer, mj_setPtrModel): assumed contract',
                         'the file-based mj_saveModel / mj_loadModel wrappers (resource providers, C++ VFS)',
                         'the signature member of mjModel is not stored in MJB files (documented); not part of the mirror']
    return chk.finish()
