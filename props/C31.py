"""C31 - binary model files: validation of cross-references, bounds of the loader, save/size/load agreement."""
import re
import z3
from vlib.report import Check
from vlib.symex import Obligation
from vlib.state import Ptr
from contracts import io, modeltab

F = 'src/engine/engine_io.c'


def _events(res, want_nonnull_result=False):
    """copy events of the (single) path that returns normally / returns a model."""
    cands = []
    for s in res.ret_states:
        ev = s.ghost.get('$blob', ())
        rv = s.ghost.get('$ret')
        if want_nonnull_result and not (isinstance(rv, Ptr) and rv.obj is not None):
            continue
        cands.append((s, ev))
    if len(cands) != 1:
        return None, None
    return cands[0]


def _field(desc):
    return desc.split('.', 1)[1] if '.' in desc else desc


def mirror(chk, save, load):
    """load(save(m)): lock-step comparison of the two executions' copy events.  Both sides are gap-free from offset 0
    (obligations */advances_by_bytes_copied of the two units), so equal item order and equal item lengths give equal
    offsets by induction; memcpy is a byte copy, so every item read is the item written."""
    obs = []

    def ob(name, goal, asm=()):
        obs.append(Obligation('mirror/' + name, list(asm), goal if not isinstance(goal, bool) else z3.BoolVal(goal), 'post'))
    ss, S = _events(save)
    ls, L = _events(load, want_nonnull_result=True)
    if S is None or L is None:
        chk.undecided.append('mirror: could not isolate the writing path of mj_saveModel / the success path of mj_loadModelBuffer')
        return
    sizes = modeltab.model_sizes()
    ns = len(sizes)
    ob('same_number_of_items', len(S) == len(L) + ns - 1)
    if len(S) != len(L) + ns - 1:
        chk.add_obligations(obs)
        return
    # header
    ob('header/same_length', z3.simplify(S[0]['nbytes'] == L[0]['nbytes']))
    ob('header/at_offset_0', z3.simplify(z3.And(S[0]['buf_off'] == 0, L[0]['buf_off'] == 0)))
    # sizes: written one by one in MJMODEL_SIZES order, read as one block, assigned back by index
    blk = L[1]
    ob('sizes/block_length', z3.simplify(blk['nbytes'] == 8 * ns))
    M = ls.ghost['$ret'].obj
    mt = load.exe.tu.ctype('mjModel')
    subst = []
    for j, nm in enumerate(sizes):
        ev = S[1 + j]
        ob('sizes/%s/written_in_table_order' % nm, _field(ev['field']) == nm and z3.is_true(z3.simplify(ev['nbytes'] == 8)))
        ob('sizes/%s/written_where_read' % nm, z3.And(ev['buf_off'] == 20 + 8 * j, z3.simplify(blk['buf_off'] == 20)), list(ss.pc))
        got = z3.simplify(ls.load(Ptr(M, (0,), (nm,), mt.field(nm))))
        # the loaded model's size field must be exactly element j of the block that was read
        cell = load.exe.local_objs and None
        ok = z3.is_app(got) and (('[%d]' % j) in got.decl().name() or (got.decl().kind() == z3.Z3_OP_SELECT and z3.simplify(got.arg(1) == j)))
        ob('sizes/%s/loaded_from_its_slot' % nm, bool(ok))
        src_sym = save.pre.load(Ptr(save.params['m'].obj, (0,), (nm,), mt.field(nm)))
        subst.append((got, src_sym))
    # structs, flags, arrays
    for k in range(2, len(L)):
        se, le = S[k + ns - 1], L[k]
        nm = _field(le['field'])
        ob('item/%s/same_item' % nm, _field(se['field']) == nm)
        lt = z3.substitute(le['nbytes'], *subst) if subst else le['nbytes']
        ob('item/%s/same_length' % nm, lt == se['nbytes'], [a for a in ss.pc[:len(save.pre.pc)]])
        ob('item/%s/whole_object' % nm, z3.simplify(z3.And(se['typed_off'] == 0, le['typed_off'] == 0)))
    # completeness: every member of mjModel is a size, a serialized struct / flag / array, or the buffer pointer itself
    serialized = set(sizes) | {_field(e['field']) for e in S}
    members = [f for f, _ in mt.fields]
    for f in members:
        if f in ('buffer', 'signature'):
            continue      # the allocation itself; the compile-time signature is documented as not stored in MJB files
        ob('complete/%s_is_serialized' % f, f in serialized)
    chk.add_obligations(obs, {'function': 'mj_saveModel x mj_loadModelBuffer (mirror)', 'file': F, 'status': 'relational obligations over the two symbolic executions',
                              'obligations': len(obs)})


NATIVE = r"""
#include "engine/engine_util_errmem.h"
int mj_version(void) { return mjVERSION_HEADER; }
static void vf_on_error(const char* msg) { snprintf(vf_error_msg, sizeof vf_error_msg, "%s", msg); vf_error_flag = 1; if (vf_armed) longjmp(vf_jmp, 1); abort(); }
static void vf_on_warning(const char* msg) { (void)msg; }
#define VF_TRY(stmt) do { vf_error_flag = 0; vf_armed = 1; if (!setjmp(vf_jmp)) { stmt; } vf_armed = 0; } while (0)
static int size_idx(const char* which) { int idx = -1, k = 0;
#define X(name) if (!strcmp(#name, which)) idx = k; k++;
  MJMODEL_SIZES
#undef X
  return idx; }
int vf_nsizes(void) { return getnsize(); }
const char* vf_errmsg(void) { return vf_error_msg; }
int vf_build(unsigned char* out, int cap) {
  mju_user_error = vf_on_error; mju_user_warning = vf_on_warning;
  mjModel* m = NULL; mjtSize s[84] = {0};
  s[size_idx("nbody")] = 1; s[size_idx("ngeom")] = 2; s[size_idx("nsensor")] = 1; s[size_idx("ntex")] = 1; s[size_idx("ntexdata")] = 16;
  s[size_idx("ntuple")] = 1; s[size_idx("ntupledata")] = 1; s[size_idx("nnames")] = 2; s[size_idx("nkey")] = 1; s[size_idx("nuser_geom")] = 2;
  mj_makeModel(&m,
   s[0],s[1],s[2],s[3],s[4],s[5],s[6],s[7],s[8],s[9],s[10],s[11],s[12],s[13],s[14],s[15],s[16],s[17],s[18],s[19],s[20],
   s[21],s[22],s[23],s[24],s[25],s[26],s[27],s[28],s[29],s[30],s[31],s[32],s[33],s[34],s[35],s[36],s[37],s[38],s[39],s[40],
   s[41],s[42],s[43],s[44],s[45],s[46],s[47],s[48],s[49],s[50],s[51],s[52],s[53],s[54],s[55],s[56],s[57],s[58],s[59],s[60],
   s[61],s[62],s[63],s[64],s[65],s[66],s[67],s[68],s[69],s[70],s[71],s[72],s[73],s[74],s[75],s[76],s[77],s[78],s[79],s[80],
   s[81],s[82],s[83]);
  if (!m) return -1;
  m->body_mocapid[0] = -1; m->body_plugin[0] = -1; m->body_jntadr[0] = -1; m->body_dofadr[0] = -1; m->body_geomadr[0] = 0; m->body_geomnum[0] = 2; m->body_bvhadr[0] = -1;
  for (int i=0; i<2; i++) { m->geom_matid[i] = -1; m->geom_dataid[i] = -1; m->geom_condim[i] = 3; m->geom_contype[i] = 1; }
  m->sensor_plugin[0] = -1; m->sensor_type[0] = mjSENS_CLOCK; m->sensor_objtype[0] = mjOBJ_UNKNOWN; m->sensor_reftype[0] = mjOBJ_UNKNOWN;
  m->sensor_objid[0] = -1; m->sensor_refid[0] = -1; m->sensor_dim[0] = 1; m->nsensordata = 1;
  m->tex_pathadr[0] = -1; m->tex_height[0] = 2; m->tex_width[0] = 2; m->tex_nchannel[0] = 4;
  m->tuple_size[0] = 1; m->tuple_objtype[0] = mjOBJ_BODY;
  m->flg_gravcomp = 1; m->flg_adhesion = 1; m->opt.timestep = 0.125;
  for (int i=0; i<m->nnames_map; i++) m->names_map[i] = -1;
  if (mj_validateReferences(m)) return -2;
  mjtSize sz = mj_sizeModel(m);
  if (sz > cap) return -3;
  int ok = 0;
  VF_TRY({ mj_saveModel(m, NULL, out, (int)sz); ok = 1; });
  mj_deleteModel(m);
  return ok ? (int)sz : -4;
}
// mj_makeModel with the j-th size parameter set to vals[j]; returns nnames_map (or -1)
long long vf_names_map(const long long* vals, int n) {
  mju_user_error = vf_on_error; mju_user_warning = vf_on_warning;
  mjModel* m = NULL; mjtSize s[84] = {0};
  for (int j = 0; j < n && j < 84; j++) s[j] = vals[j];
  VF_TRY({ mj_makeModel(&m,
   s[0],s[1],s[2],s[3],s[4],s[5],s[6],s[7],s[8],s[9],s[10],s[11],s[12],s[13],s[14],s[15],s[16],s[17],s[18],s[19],s[20],
   s[21],s[22],s[23],s[24],s[25],s[26],s[27],s[28],s[29],s[30],s[31],s[32],s[33],s[34],s[35],s[36],s[37],s[38],s[39],s[40],
   s[41],s[42],s[43],s[44],s[45],s[46],s[47],s[48],s[49],s[50],s[51],s[52],s[53],s[54],s[55],s[56],s[57],s[58],s[59],s[60],
   s[61],s[62],s[63],s[64],s[65],s[66],s[67],s[68],s[69],s[70],s[71],s[72],s[73],s[74],s[75],s[76],s[77],s[78],s[79],s[80],
   s[81],s[82],s[83]); });
  if (vf_error_flag || !m) return -1;
  long long r = m->nnames_map; mj_deleteModel(m); return r;
}
// 1 loaded (and the loaded model validates), 0 rejected with NULL, -99 reached mju_error, -98 loaded but invalid references
int vf_load(const unsigned char* buf, int n, double* timestep, int* flags) {
  mju_user_error = vf_on_error; mju_user_warning = vf_on_warning;
  mjModel* m = NULL;
  VF_TRY({ m = mj_loadModelBuffer(buf, n); });
  if (vf_error_flag) return -99;
  if (!m) return 0;
  int r = mj_validateReferences(m) ? -98 : 1;
  *timestep = m->opt.timestep; *flags = m->flg_gravcomp + 2*m->flg_surfacevel + 4*m->flg_adhesion;
  mj_deleteModel(m);
  return r;
}
"""


NATIVE_VALIDATE = r"""
static mjModel* vf_m = NULL;
static int size_idx2(const char* which) { int idx = -1, k = 0;
#define X(name) if (!strcmp(#name, which)) idx = k; k++;
  MJMODEL_SIZES
#undef X
  return idx; }
// a model with one object of every kind: mj_makeModel zero-fills it, a handful of fields are set to make it valid
int vf_make(void) {
  mjtSize s[84];
  for (int i=0; i<84; i++) s[i] = 1;
  s[size_idx2("nq")] = 1; s[size_idx2("nv")] = 1;
  vf_m = NULL;
  mj_makeModel(&vf_m,
   s[0],s[1],s[2],s[3],s[4],s[5],s[6],s[7],s[8],s[9],s[10],s[11],s[12],s[13],s[14],s[15],s[16],s[17],s[18],s[19],s[20],
   s[21],s[22],s[23],s[24],s[25],s[26],s[27],s[28],s[29],s[30],s[31],s[32],s[33],s[34],s[35],s[36],s[37],s[38],s[39],s[40],
   s[41],s[42],s[43],s[44],s[45],s[46],s[47],s[48],s[49],s[50],s[51],s[52],s[53],s[54],s[55],s[56],s[57],s[58],s[59],s[60],
   s[61],s[62],s[63],s[64],s[65],s[66],s[67],s[68],s[69],s[70],s[71],s[72],s[73],s[74],s[75],s[76],s[77],s[78],s[79],s[80],
   s[81],s[82],s[83]);
  if (!vf_m) return 0;
  mjModel* m = vf_m;
  mju_user_error = vf_on_error; mju_user_warning = vf_on_warning;
  m->eq_type[0] = mjEQ_CONNECT;
  m->dof_parentid[0] = -1; m->jnt_type[0] = mjJNT_SLIDE; m->eq_objtype[0] = mjOBJ_BODY; m->nsensordata = 1; m->npluginstate = 1;
  m->geom_condim[0] = 3; m->sensor_type[0] = mjSENS_TOUCH; m->tuple_size[0] = 1; m->tuple_objtype[0] = mjOBJ_BODY;
  m->actuator_trntype[0] = mjTRN_SLIDERCRANK; m->wrap_type[0] = mjWRAP_SITE;
  m->hfield_nrow[0] = 1; m->hfield_ncol[0] = 1; m->tex_height[0] = 1; m->tex_width[0] = 1; m->tex_nchannel[0] = 1;
  return 1;
}
int vf_validate(void) { int r = -1; VF_TRY({ r = (mj_validateReferences(vf_m) == NULL); }); return vf_error_flag ? -1 : r; }
const char* vf_why(void) { const char* e = mj_validateReferences(vf_m); return e ? e : ""; }
long long vf_size(const char* which) {
#define X(name) if (!strcmp(#name, which)) return (long long) vf_m->name;
  MJMODEL_SIZES
#undef X
  return -12345; }
void* vf_array(const char* which) {
  const mjModel* m = vf_m;
#define X(type, name, nr, nc) if (!strcmp(#name, which)) return (void*) vf_m->name;
  MJMODEL_POINTERS
#undef X
  return NULL; }
"""


class _Arr:
    """concrete array for evaluating specification clauses: out-of-range reads are 0 (clauses guard their indices)."""

    def __init__(self, vals):
        self.v = list(vals)

    def __getitem__(self, i):
        return self.v[i] if isinstance(i, int) and 0 <= i < len(self.v) else 0


def validator_sweep():
    """the real compiled mj_validateReferences on a model with one object of every kind, each int array entry set to
    boundary values in turn; whenever the validator accepts, every clause of its contract (the same expressions the
    proof uses, evaluated concretely) must hold on that model.  Bounded."""
    import ctypes
    from vlib import native
    from vlib.cexpr import concrete_eval, NS
    from vlib.cast import load_tu
    lib, d = native.build_so('c31v', ['src/engine/engine_io.c', 'src/engine/engine_util_errmem.c', 'src/engine/engine_init.c', 'src/engine/engine_util_blas.c'],
                             NATIVE.split('int vf_nsizes')[0] + NATIVE_VALIDATE, define_err=False)
    try:
        lib.vf_array.restype = ctypes.c_void_p
        lib.vf_size.restype = ctypes.c_longlong
        lib.vf_why.restype = ctypes.c_char_p
        if not lib.vf_make():
            return {'reproduced': False, 'error': 'harness model could not be made'}
        if lib.vf_validate() != 1:
            return {'reproduced': False, 'error': 'harness model is rejected: %s' % lib.vf_why().decode()}
        P = modeltab.model_pointers()
        sizes = {nm: lib.vf_size(nm.encode()) for nm in modeltab.model_sizes()}
        enums = dict(load_tu(F).enum_consts)
        macros = modeltab.int_macros()
        ctype = {'int': ctypes.c_int, 'mjtSize': ctypes.c_longlong, 'mjtByte': ctypes.c_ubyte, 'mjtBool': ctypes.c_ubyte}

        def length(name):
            typ, nr, nc = P[name]
            ns = dict(macros); ns.update(enums); ns.update(sizes)
            return sizes[nr] * int(eval(re.sub(r'MJ_M\((\w+)\)', r'\1', nc), {'__builtins__': {}}, ns))

        def snapshot():
            f = dict(sizes)
            for name, (typ, nr, nc) in P.items():
                if typ in ctype:
                    n = length(name)
                    a = ctypes.cast(lib.vf_array(name.encode()), ctypes.POINTER(ctype[typ]))
                    f[name] = _Arr(a[k] for k in range(n))
            return NS(**f)
        clauses = io.validate_ensures()

        def forall(fn):
            import inspect
            k = len(inspect.signature(fn).parameters)
            import itertools
            return all(fn(*c) for c in itertools.product(range(-1, 4), repeat=k))
        extra = dict(enums)
        extra.update({k: v for k, v in macros.items()})
        extra.update(forall=forall, result=0)
        runs = 0
        for name, (typ, nr, nc) in P.items():
            if typ != 'int':
                continue
            n = length(name)
            a = ctypes.cast(lib.vf_array(name.encode()), ctypes.POINTER(ctypes.c_int))
            for idx in range(min(n, 2)):
                old = a[idx]
                for val in (-2, -1, 1, 2, 7, 2**31 - 1):
                    if val == old:
                        continue
                    a[idx] = val
                    runs += 1
                    if lib.vf_validate() == 1:
                        m = snapshot()
                        for cname, src in clauses.items():
                            try:
                                ok = concrete_eval({}, src, {'cur': {'m': m}}, extra=extra)
                            except Exception:   # noqa
                                continue
                            if not ok:
                                a[idx] = old
                                return {'reproduced': True, 'name': 'validator_accepts_out_of_bounds_reference',
                                        'input': {'model': 'one object of every kind (zero-filled by mj_makeModel)', 'array': name, 'index': idx, 'value': val},
                                        'observed': 'mj_validateReferences returns NULL (accepts)', 'violated_clause': cname, 'runs': runs}
                    a[idx] = old
        # extents that are products of several entries (height-field rows x columns, texture height x width x channels):
        # two entries large at once, so that a product computed in 32 bits wraps
        for na, nb in (('hfield_nrow', 'hfield_ncol'), ('tex_height', 'tex_width'), ('tex_width', 'tex_nchannel'), ('tex_height', 'tex_nchannel')):
            if na not in P or nb not in P or not length(na) or not length(nb):
                continue
            pa = ctypes.cast(lib.vf_array(na.encode()), ctypes.POINTER(ctypes.c_int))
            pb = ctypes.cast(lib.vf_array(nb.encode()), ctypes.POINTER(ctypes.c_int))
            oa, ob = pa[0], pb[0]
            for va, vb in ((65536, 65536), (46341, 46341), (131072, 32768), (2**31 - 1, 2**31 - 1), (2**16, 2**16 + 1), (3, 2**31 - 1)):
                pa[0], pb[0] = va, vb
                runs += 1
                if lib.vf_validate() == 1:
                    m = snapshot()
                    for cname, src in clauses.items():
                        try:
                            ok = concrete_eval({}, src, {'cur': {'m': m}}, extra=extra)
                        except Exception:   # noqa
                            continue
                        if not ok:
                            pa[0], pb[0] = oa, ob
                            return {'reproduced': True, 'name': 'validator_accepts_out_of_bounds_extent',
                                    'input': {'model': 'one object of every kind (zero-filled by mj_makeModel)', na + '[0]': va, nb + '[0]': vb},
                                    'observed': 'mj_validateReferences returns NULL (accepts)', 'violated_clause': cname, 'runs': runs}
                pa[0], pb[0] = oa, ob
        return {'reproduced': False, 'cases_run': runs}
    finally:
        native.cleanup(d)


def native_contract_run(open_obligations=()):
    r = native_save_load()
    if r.get('reproduced'):
        return r
    r2 = validator_sweep()
    if r2.get('reproduced'):
        return r2
    return {'reproduced': False, 'cases_run': r.get('cases_run', 0) + r2.get('cases_run', 0), 'notes': [x.get('error') for x in (r, r2) if x.get('error')]}


def native_save_load():
    """the real compiled save / load on one small model: every truncation length must be rejected with NULL (never the
    fatal error path), the full file must load to a model with valid references and the same option / flags, and size
    fields corrupted to boundary values must be rejected or load to a valid model.  Bounded."""
    import ctypes
    from vlib import native
    lib, d = native.build_so('c31', ['src/engine/engine_io.c', 'src/engine/engine_util_errmem.c', 'src/engine/engine_init.c', 'src/engine/engine_util_blas.c'], NATIVE, define_err=False)
    try:
        cap = 1 << 16
        lib.vf_errmsg.restype = ctypes.c_void_p
        buf = (ctypes.c_ubyte * cap)()
        sz = lib.vf_build(buf, cap)
        if sz <= 0:
            return {'reproduced': False, 'error': 'harness model could not be built (%d)' % sz}
        data = bytes(buf[:sz])
        ts, fl = ctypes.c_double(0), ctypes.c_int(0)

        def load(b):
            arr = (ctypes.c_ubyte * max(1, len(b))).from_buffer_copy(b if b else b'\0')
            return lib.vf_load(arr, len(b), ctypes.byref(ts), ctypes.byref(fl))
        r = load(data)
        if r != 1 or ts.value != 0.125 or fl.value != 5:
            return {'reproduced': True, 'name': 'round_trip', 'input': {'file': 'harness model, %d bytes' % sz},
                    'observed': {'load': r, 'timestep': ts.value, 'flags(gravcomp,surfacevel,adhesion)': fl.value}, 'expected': {'load': 1, 'timestep': 0.125, 'flags': 5},
                    'violated_clause': 'load(save(m)) reproduces the options and flags'}
        # mj_makeModel: nnames_map is twice the number of named objects (each named type raised in turn)
        from contracts import io as cio, modeltab
        params = modeltab.make_model_params()
        lib.vf_names_map.restype = ctypes.c_longlong
        for t in [None] + list(cio.NAMED_TYPES):
            vals = [0] * len(params)
            vals[params.index('nbody')] = 1
            if t is not None:
                vals[params.index(t)] += 3
            got = lib.vf_names_map((ctypes.c_longlong * len(vals))(*vals), len(vals))
            want = 2 * sum(vals[params.index(x)] for x in cio.NAMED_TYPES)
            if got != want:
                return {'reproduced': True, 'name': 'mj_makeModel/names_map_size', 'input': {'sizes': {params[j]: v for j, v in enumerate(vals) if v}},
                        'observed': {'nnames_map': got}, 'expected': {'nnames_map': want}, 'violated_clause': 'nnames_map == 2 * (number of named objects)'}
        for n in range(sz):
            r = load(data[:n])
            if r != 0:
                return {'reproduced': True, 'name': 'truncated_file_rejected', 'input': {'truncate_to_bytes': n, 'of': sz},
                        'observed': {'load': r, 'meaning': {-99: 'fatal mju_error reached', 1: 'loaded', -98: 'loaded with invalid references'}.get(r)},
                        'violated_clause': 'a truncated file is rejected with a warning and NULL'}
        import struct
        ns = lib.vf_nsizes()
        for j in range(ns):
            old = struct.unpack_from('<q', data, 20 + 8 * j)[0]
            for v in (-1, old + 1, old - 1, 2**31 - 1, 2**31, 2**40, -2**63):
                if v == old:
                    continue
                b = bytearray(data)
                struct.pack_into('<q', b, 20 + 8 * j, v)
                r = load(bytes(b))
                if r == -99 and b'ould not allocate' in ctypes.string_at(lib.vf_errmsg()):
                    continue        # out of memory for an enormous but consistent size: the allocation-failure path (property C21), not C31
                if r not in (0, 1):
                    return {'reproduced': True, 'name': 'corrupt_size_field', 'input': {'size_field_index': j, 'value': v},
                            'observed': {'load': r}, 'violated_clause': 'a corrupt size is rejected or yields a valid model'}
        return {'reproduced': False, 'cases_run': sz + 7 * ns + 1}
    finally:
        native.cleanup(d)


def coverage_of_validator(sub, res):
    """structural obligations, one per documented reference array outside the proved table: the validator constrains it."""
    from vlib.flow import _consts_of
    acc = [st for st in res.ret_states if not (isinstance(st.ghost.get('$ret'), Ptr) and st.ghost['$ret'].obj is not None)]
    names = set()
    for st in acc:
        names |= _consts_of(st.pc)
    for arr, cnt, tgt in io.UNCHECKED_REFS:
        ok = ('m.' + arr) in names
        sub.external('mj_validateReferences/covers/' + arr, ok, 'structural (symbol occurrence in the accepting path condition)',
                     detail='' if ok else 'no check of m.%s (entries index an array of %s elements): any value is accepted' % (arr, tgt),
                     model=None if ok else {'m.%s[0]' % arr: 1000000000, 'accepted': True})


def main():
    chk = Check('C31')
    chk.native_fallback = native_contract_run
    C = io.contracts()
    hooks = {'mj_makeModel': io.make_model_hook}
    # independent units run in child processes while the save / load executions (whose terms the mirror needs) run here
    chk.unit_in_child(F, 'mj_validateReferences', C, 'math', 'fp', post=coverage_of_validator)
    chk.unit_in_child(F, 'mj_sizeModel', C, 'math', 'fp')
    chk.unit_in_child(F, 'safeAddToBufferSize', C, 'math', 'fp')
    chk.unit_in_child(F, 'mj_makeModel', C, 'math', 'fp', setup=io.makemodel_setup)
    save = chk.unit(F, 'mj_saveModel', C, 'math', 'fp', hooks=hooks)
    load = chk.unit(F, 'mj_loadModelBuffer', C, 'math', 'fp', hooks=hooks)
    if save is not None and load is not None:
        mirror(chk, save, load)
    import time
    from vlib.report import run_isolated
    t0 = time.time()
    r = run_isolated(lambda n, m, o: native_contract_run([]), '', None, None, timeout=600, crash_is_failure=True)
    chk.bounded.append({'what': 'real compiled mj_saveModel / mj_loadModelBuffer on one small model',
                        'bound': 'every truncation length of one ~4 kB file; every size field set to 7 boundary values; one round trip',
                        'result': r, 'wall_s': round(time.time() - t0, 1), 'counted_as_proved': False})
    if r and r.get('reproduced'):
        chk.native_fallback = None
        chk.external('bounded/native_contract_run', False, 'native-exhaustive(bounded)', time.time() - t0, detail=str(r)[:300], model=r)
    chk.assumptions |= {
        'model invariant: every pointer field of mjModel is an array of the length include/mujoco/mjxmacro.h gives it (re-read every run); sizes are non-negative and below INT_MAX (checked by mj_makeModel)',
        'plugin sensors: mjp_getPluginAtSlot returns a valid plugin and its nsensordata callback has no effect on the model (assumed)',
        'mj_saveModel / mj_sizeModel: the model is one a buffer of int size can hold (mocap bodies are bodies; every array below 2^31 bytes for mj_sizeModel)',
        'round trip: memcpy copies bytes exactly, so an item read from the offset and with the length it was written has the written value (contents are not modelled)',
        'mj_deleteModel, mju_free, mj_version, mju_warning have no effect on the verified state',
    }
    chk.out_of_reach += ['mj_setPtrModel (placement of the arrays inside one raw buffer): the loader treats the arrays of a made model as separate objects of the X-macro lengths (assumed); mj_makeModel itself IS under contract for everything else the loader relies on (size checks, size fields = arguments, nnames_map, nbuffer range), and so is the overflow-checked accumulation safeAddToBufferSize; a contract for mj_setPtrModel is written (contracts/io.py setptr_contract) but its obligations are not discharged within a usable budget',
                         'the file-based mj_saveModel / mj_loadModel wrappers (resource providers, C++ VFS)',
                         'the signature member of mjModel is not stored in MJB files (documented); not part of the mirror']
    return chk.finish()
