"""C31 - binary model files: validation of cross-references, bounds of the loader, save/size/load agreement."""
from vlib.report import Check
from contracts import io


def main():
    chk = Check('C31')
    C = io.contracts()
    chk.unit('src/engine/engine_io.c', 'mj_validateReferences', C, 'math', 'fp')
    chk.assumptions |= {
        'model invariant: every pointer field of mjModel is an array of the length include/mujoco/mjxmacro.h gives it (re-read every run); sizes are non-negative and below INT_MAX (checked by mj_makeModel)',
        'plugin sensors: mjp_getPluginAtSlot returns a valid plugin and its nsensordata callback has no effect on the model (assumed)',
    }
    return chk.finish()
