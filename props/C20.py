"""C20 - exhausted arena memory is handled gracefully."""
import os
import time
import z3
from vlib.report import Check
from vlib.cast import load_tu, REPO, FrontEndError, walk, fn_body
from vlib import nullable
from vlib.balance import callee
from contracts import arena

SOURCES = {'mj_arenaAllocByte'}
REPORTERS = {'mj_warning', 'mju_error'}
FILES = ['src/engine/engine_collision_driver.c', 'src/engine/engine_core_constraint.c', 'src/engine/engine_island.c',
         'src/engine/engine_derivative.c']
UNITS = [('src/engine/engine_memory.c', 'mj_arenaAllocByte'),
         ('src/engine/engine_collision_driver.c', 'pushPairArena'),
         ('src/engine/engine_core_util.c', 'mj_warning'),
         ('src/engine/engine_core_constraint.c', 'mj_clearEfc'),
         ('src/engine/engine_core_constraint.c', 'mj_addContact'),
         ('src/engine/engine_core_constraint.c', 'arenaAllocEfc'),
         ('src/engine/engine_island.c', 'arenaAllocIsland'),
         ('src/engine/engine_derivative.c', 'effAlloc')]


def arena_pointer_fields(tus):
    """mjData pointer fields that receive an mj_arenaAllocByte result anywhere (AST scan)."""
    out = set()
    for tu in tus:
        for fn in tu.functions.values():
            for c in walk(fn_body(fn)):
                if c.get('kind') == 'BinaryOperator' and c.get('opcode') == '=':
                    lhs, rhs = c['inner']
                    r = nullable.strip(rhs)
                    if callee(r) in SOURCES and nullable.strip(lhs).get('kind') == 'MemberExpr':
                        out.add(nullable.strip(lhs)['name'])
    return out


def main():
    chk = Check('C20')
    C = arena.CONTRACTS
    tus = []
    # 1. typestate VC at every call site of mj_arenaAllocByte
    for rel in FILES:
        try:
            tu = load_tu(rel)
        except FrontEndError as e:
            chk.undecided.append('%s: %s' % (rel, e))
            continue
        tus.append(tu)
        chk.sources[rel] = tu.source_sha
        for fn in nullable.functions_with_source(tu, SOURCES):
            t0 = time.time()
            try:
                sites, probs = nullable.check_function(tu, fn, SOURCES, REPORTERS)
            except Exception as e:   # noqa
                chk.undecided.append('nullable %s: %r' % (fn, e))
                continue
            dt = (time.time() - t0) / max(1, len(sites))
            for site in sites:
                chk.external('nullable/%s/%s/%s' % (os.path.basename(rel), fn, site), site not in probs, 'typestate-vc', dt,
                             detail='; '.join(probs.get(site, [])))
            chk.units.append({'file': rel, 'function': fn, 'status': 'nullable typestate VC', 'call_sites': len(sites)})
    # 2. cross-site consistency: every arena-allocated mjData pointer is cleared by mj_clearEfc (so a failure path leaves no dangling pointer)
    fields = sorted(arena_pointer_fields(tus))
    C = dict(C)
    ce = dict(C['mj_clearEfc'])
    ens = dict(ce['ensures'])
    for f in fields:
        ens['cleared_' + f] = 'd.%s == NULL' % f
    ce['ensures'] = ens
    C['mj_clearEfc'] = ce
    chk.extra_cov['arena_pointer_fields'] = fields
    # 3. contracts on the anchored allocation wrappers (symbolic execution of the real bodies, callee by contract)
    from contracts import memory
    for rel, fn in UNITS:
        if fn == 'mj_arenaAllocByte':      # the callee's own contract (shared with C19): "never writes outside the arena" rests on it
            from props.C19 import replayer as c19_replayer
            chk.unit(rel, fn, memory.CONTRACTS, 'math', 'opaque', replayer=c19_replayer)
            continue
        chk.unit(rel, fn, C, 'math', 'opaque', replayer=None, check_arith=(fn != 'mj_warning'))
    chk.assumptions.add('mj_warning: the per-warning counter does not reach INT_MAX (its increment is not checked for overflow)')
    return chk.finish()
