"""C34 - name lookup: region layout, id -> name, name -> id (the engine side)."""
from vlib.report import Check
from vlib.cast import load_tu
from contracts import name

F = 'src/engine/engine_name.c'


def main():
    chk = Check('C34')
    C = name.contracts()
    chk.unit(F, '_getnumadr', C, 'math', 'fp')
    chk.unit(F, 'mj_hashString', C, 'math', 'fp')
    tu = load_tu(F)
    types = sorted((v, k) for k, v in tu.enum_consts.items() if k.startswith('mjOBJ_') or k == 'mjNOBJECT')
    seen = set()
    for v, tname in types:
        if v in seen:
            continue
        seen.add(v)
        base = dict(C)
        base['_getnumadr'] = {'inline': True}
        c1 = dict(base, mj_id2name=name.id2name(tname))
        chk.unit(F, 'mj_id2name', c1, 'math', 'fp', prefix='[type=%s]' % tname, fixed={'type': v})
        c2 = dict(base, mj_name2id=name.name2id(tname))
        chk.unit(F, 'mj_name2id', c2, 'math', 'fp', prefix='[type=%s]' % tname, fixed={'type': v})
        if tname in name.TYPE_ARRAY:
            c3 = dict(base, mj_name2id=name.name2id(tname, found=True), mj_hashString=name.HASH_CALL_NAMED)
            chk.unit(F, 'mj_name2id', c3, 'math', 'fp', prefix='[type=%s,found]' % tname, fixed={'type': v})
    chk.assumptions |= {
        'the per-type regions of names_map follow the order of the namelist(...) calls in mjCModel::CopyNames (extracted from src/user/user_model.cc on every run); nnames_map == 2 * (number of nameable objects)',
        'table invariant for the inverse law (requires of the [found] units): what namelist() in user_model.cc builds by linear probing (C++ template over std::vector, not verified); names unique within a type',
        'mj_hashString is a pure function of the string and the modulus (H names its value in the [found] units)',
        'name addresses lie inside names (0 <= adr < nnames); map entries are -1 or ids of the type',
    }
    chk.out_of_reach += ['namelist / CopyNames in src/user/user_model.cc (C++): the construction of the table invariant',
                         'types outside the mjtObj enumeration passed as int (they take the default branch like the unnamed types; one symbolic run would need a symbolic switch value)']
    return chk.finish()
