"""C34 - name lookup: region layout, id -> name, name -> id (the engine side)."""
import os
from vlib.report import Check
from vlib.cast import load_tu
from contracts import name

F = 'src/engine/engine_name.c'


NATIVE = r"""
#include "engine/engine_io.h"
static mjModel* vf_m = NULL;
static int sidx(const char* which) { int idx = -1, k = 0;
#define X(name) if (!strcmp(#name, which)) idx = k; k++;
  MJMODEL_SIZES
#undef X
  return idx; }
// a model with nb bodies, ng geoms, ns sites and a names buffer of nn chars (names and the hash map are filled by the caller)
int vf_make(int nb, int ng, int ns, int nn) {
  mjtSize s[84] = {0};
  s[sidx("nbody")] = nb; s[sidx("ngeom")] = ng; s[sidx("nsite")] = ns; s[sidx("nnames")] = nn;
  vf_m = NULL;
  mj_makeModel(&vf_m,
   s[0],s[1],s[2],s[3],s[4],s[5],s[6],s[7],s[8],s[9],s[10],s[11],s[12],s[13],s[14],s[15],s[16],s[17],s[18],s[19],s[20],
   s[21],s[22],s[23],s[24],s[25],s[26],s[27],s[28],s[29],s[30],s[31],s[32],s[33],s[34],s[35],s[36],s[37],s[38],s[39],s[40],
   s[41],s[42],s[43],s[44],s[45],s[46],s[47],s[48],s[49],s[50],s[51],s[52],s[53],s[54],s[55],s[56],s[57],s[58],s[59],s[60],
   s[61],s[62],s[63],s[64],s[65],s[66],s[67],s[68],s[69],s[70],s[71],s[72],s[73],s[74],s[75],s[76],s[77],s[78],s[79],s[80],
   s[81],s[82],s[83]);
  return vf_m != NULL;
}
char* vf_names(void) { return vf_m->names; }
int* vf_map(void) { return vf_m->names_map; }
int vf_nmap(void) { return (int) vf_m->nnames_map; }
int* vf_adr(int type) { return type == mjOBJ_BODY ? vf_m->name_bodyadr : (type == mjOBJ_GEOM ? vf_m->name_geomadr : vf_m->name_siteadr); }
unsigned long long vf_hash(const char* s, unsigned long long n) { return mj_hashString(s, n); }
int vf_name2id(int type, const char* name) { return mj_name2id(vf_m, type, name); }
const char* vf_id2name(int type, int id) { return mj_id2name(vf_m, type, id); }
"""


def native_contract_run(open_obligations=()):
    """the real compiled lookup on small models whose name table is built the way mjCModel::CopyNames builds it
    (regions in construction order, linear probing from the real mj_hashString): name2id(id2name(i)) == i, NULL exactly
    for unnamed objects and bad ids, -1 for strings that name nothing (prefixes, extensions, names of other types).  Bounded."""
    import ctypes
    import random
    from vlib import native
    lib, d = native.build_so('c34', ['src/engine/engine_name.c', 'src/engine/engine_io.c', 'src/engine/engine_util_errmem.c', 'src/engine/engine_init.c',
                                     'src/engine/engine_util_blas.c'], 'int mj_version(void) { return mjVERSION_HEADER; }\n' + NATIVE, define_err=False)
    try:
        lib.vf_names.restype = ctypes.POINTER(ctypes.c_char)
        lib.vf_map.restype = ctypes.POINTER(ctypes.c_int)
        lib.vf_adr.restype = ctypes.POINTER(ctypes.c_int)
        lib.vf_hash.restype = ctypes.c_ulonglong
        lib.vf_hash.argtypes = [ctypes.c_char_p, ctypes.c_ulonglong]
        lib.vf_id2name.restype = ctypes.c_char_p
        lib.vf_name2id.argtypes = [ctypes.c_int, ctypes.c_char_p]
        tu = load_tu(F)
        T = {'body': tu.enum_consts['mjOBJ_BODY'], 'geom': tu.enum_consts['mjOBJ_GEOM'], 'site': tu.enum_consts['mjOBJ_SITE']}
        rnd = random.Random(int(os.environ.get('VERIF_SEED', '0') or 0))
        runs = 0
        for trial in range(60):
            counts = {'body': rnd.randint(1, 4), 'geom': rnd.randint(0, 12), 'site': rnd.randint(0, 5)}
            pool = ['a', 'ab', 'abc', 'arm', 'arm_', 'arm_1', 'arm_12', 'link', 'link_0', 'link_01', 'w', 'world', 'x' * 20, 'b', 'ba']
            names = {}
            for t, n in counts.items():
                chosen = rnd.sample(pool, min(n, len(pool)))
                names[t] = [chosen[i] if (i < len(chosen) and rnd.random() < 0.8) else '' for i in range(n)]
            blob = b'model\0'
            adr = {}
            for t in ('body', 'geom', 'site'):
                adr[t] = []
                for nm in names[t]:
                    adr[t].append(len(blob))
                    blob += nm.encode() + b'\0'
            if not lib.vf_make(counts['body'], counts['geom'], counts['site'], len(blob)):
                return {'reproduced': False, 'error': 'harness model could not be made'}
            ctypes.memmove(lib.vf_names(), blob, len(blob))
            mp = lib.vf_map()
            for k in range(lib.vf_nmap()):
                mp[k] = -1
            start = 0
            for t in ('body', 'geom', 'site'):          # construction order of the first three regions (joints: none)
                size = 2 * counts[t]
                a = lib.vf_adr(T[t])
                for i, nm in enumerate(names[t]):
                    a[i] = adr[t][i]
                    if nm:
                        j = lib.vf_hash(nm.encode(), size)
                        while mp[start + j] != -1:
                            j = (j + 1) % size
                        mp[start + j] = i
                start += size
            for t in ('body', 'geom', 'site'):
                for i, nm in enumerate(names[t]):
                    runs += 1
                    got = lib.vf_id2name(T[t], i)
                    if (got is None) != (nm == '') or (got is not None and got.decode() != nm):
                        return {'reproduced': True, 'name': 'id2name', 'input': {'names': names, 'type': t, 'id': i}, 'observed': repr(got), 'expected': nm or None}
                    if nm and lib.vf_name2id(T[t], nm.encode()) != i:
                        return {'reproduced': True, 'name': 'name2id_inverts_id2name', 'input': {'names': names, 'type': t, 'query': nm},
                                'observed': lib.vf_name2id(T[t], nm.encode()), 'expected': i}
                for q in pool + ['', 'ar', 'arm_123', 'lin', 'nosuch']:
                    want = names[t].index(q) if (q and q in names[t]) else -1
                    got = lib.vf_name2id(T[t], q.encode())
                    runs += 1
                    if got != want:
                        return {'reproduced': True, 'name': 'name2id_of_a_string_that_names_no_object', 'input': {'names': names, 'type': t, 'query': q},
                                'observed': got, 'expected': want}
                for bad in (-1, counts[t], counts[t] + 5):
                    if lib.vf_id2name(T[t], bad) is not None:
                        return {'reproduced': True, 'name': 'id2name_out_of_range', 'input': {'type': t, 'id': bad}, 'observed': 'non-NULL'}
        return {'reproduced': False, 'cases_run': runs}
    finally:
        native.cleanup(d)


def main():
    chk = Check('C34')
    chk.native_fallback = native_contract_run
    C = name.contracts()
    chk.unit(F, '_getnumadr', C, 'math', 'fp')
    chk.unit(F, 'mj_hashString', C, 'math', 'fp')
    tu = load_tu(F)
    types = sorted((v, k) for k, v in tu.enum_consts.items() if k.startswith('mjOBJ_') or k == 'mjNOBJECT')
    seen = set()
    for v, tname in types:
        if v in seen:
            continue
        seen.add(v)
        base = dict(C)
        base['_getnumadr'] = {'inline': True}
        c1 = dict(base, mj_id2name=name.id2name(tname))
        chk.unit(F, 'mj_id2name', c1, 'math', 'fp', prefix='[type=%s]' % tname, fixed={'type': v})
        c2 = dict(base, mj_name2id=name.name2id(tname))
        chk.unit(F, 'mj_name2id', c2, 'math', 'fp', prefix='[type=%s]' % tname, fixed={'type': v})
        if tname in name.TYPE_ARRAY:
            c3 = dict(base, mj_name2id=name.name2id(tname, found=True), mj_hashString=name.HASH_CALL_NAMED)
            chk.unit(F, 'mj_name2id', c3, 'math', 'fp', prefix='[type=%s,found]' % tname, fixed={'type': v})
    import time
    from vlib.report import run_isolated
    t0 = time.time()
    r = run_isolated(lambda n, m, o: native_contract_run([]), '', None, None, timeout=600, crash_is_failure=True)
    chk.bounded.append({'what': 'real compiled mj_name2id / mj_id2name on models whose name table is built like mjCModel::CopyNames builds it',
                        'bound': '60 seeded random models (<= 4 bodies, 12 geoms, 5 sites, names with shared prefixes, empty names), every id and ~20 query strings per type',
                        'result': r, 'wall_s': round(time.time() - t0, 1), 'counted_as_proved': False})
    if r and r.get('reproduced'):
        chk.native_fallback = None
        chk.external('bounded/native_contract_run', False, 'native(bounded)', time.time() - t0, detail=str(r)[:300], model=r)
    chk.assumptions |= {
        'the per-type regions of names_map follow the order of the namelist(...) calls in mjCModel::CopyNames (extracted from src/user/user_model.cc on every run); nnames_map == 2 * (number of nameable objects)',
        'table invariant for the inverse law (requires of the [found] units): what namelist() in user_model.cc builds by linear probing (C++ template over std::vector, not verified); names unique within a type',
        'mj_hashString is a pure function of the string and the modulus (H names its value in the [found] units)',
        'name addresses lie inside names (0 <= adr < nnames); map entries are -1 or ids of the type',
    }
    chk.out_of_reach += ['namelist / CopyNames in src/user/user_model.cc (C++): the construction of the table invariant',
                         'types outside the mjtObj enumeration passed as int (they take the default branch like the unnamed types; one symbolic run would need a symbolic switch value)']
    return chk.finish()
