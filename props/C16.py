"""C16 - ray casting returns the nearest intersection (selection logic, quadratic, sphere, eliminate filter)."""
from vlib.report import Check
from contracts import ray

FILE = 'src/engine/engine_ray.c'


def main():
    chk = Check('C16')
    chk.timeout = 60 if chk.tier == 'quick' else 300
    chk.unit(FILE, 'mj_ray', ray.MJ_RAY, 'math', 'fp')
    chk.unit(FILE, 'ray_quad', ray.QUAD, 'math', 'real', check_arith=False)
    chk.unit(FILE, 'ray_sphere', ray.QUAD, 'math', 'real', check_arith=False)
    chk.unit(FILE, 'ray_sphere', ray.SPHERE_FULL, 'math', 'real', prefix='[nearest]', check_arith=False)
    chk.unit(FILE, 'ray_eliminate', ray.ELIMC, 'math', 'fp')
    chk.unit(FILE, 'ray_plane', ray.PLANE, 'math', 'real', check_arith=False)
    # capsule: ray_quad against the stronger contract its callers need (both roots stored, every real root is one of them), then
    # ray_capsule modularly (ray_quad / ray_sphere by contract, ray_map inline), one obligation set per path
    chk.unit(FILE, 'ray_quad', {'ray_quad': ray.QUAD_ROOTS, '__auto_inline__': True, '__no_merge__': True}, 'math', 'real', prefix='[roots]', check_arith=False)
    chk.unit(FILE, 'ray_capsule', ray.CAPSULE, 'math', 'real', check_arith=False)
    chk.unit(FILE, 'ray_map', ray.RAY_MAP_BODY, 'math', 'real', check_arith=False)      # the frame change, against the instantiated contract
    for fn in ('ray_ellipsoid', 'ray_cylinder', 'ray_box'):
        chk.unit(FILE, fn, ray.SHAPES, 'math', 'real', check_arith=False)
    chk.unit(FILE, 'mju_rayGeom', ray.RAYGEOM_FULL, 'math', 'real', check_arith=False)      # the dispatch on the geom type
    chk.assumptions |= {'per-geom ray routines are pure functions of the geom index (ghost function); mj_ray is proved for normal == NULL',
                        'ray_quad / ray_sphere / ray_plane / ray_capsule / ray_ellipsoid / ray_cylinder / ray_box over the reals (sqrt is the exact non-negative root), the shape routines for normal == NULL (and all == NULL for the box); the shape routines use ray_map through its contract with the frame components as uninterpreted functions (they hold for every interpretation); ray_map itself is verified against the instantiated contract'}
    chk.out_of_reach += ['plane: proved for normal == NULL', 'capsule: that the reported hit is the NEAREST surface point and that -1 means no hit (attempted: 73 of 123 path obligations time out in nonlinear real arithmetic); proved: the reported point lies on the surface', 'cylinder: nearest and no-hit; box: no-hit (proved: reported point on the surface; box also nearest among non-parallel faces; sphere and ellipsoid fully: nearest and no-hit); mesh / hfield / SDF ray routines', 'mj_multiRay (spherical-angle pruning), mju_rayTree, flex and skin rays']
    return chk.finish()
