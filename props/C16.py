"""C16 - ray casting returns the nearest intersection (selection logic, quadratic, sphere, eliminate filter)."""
from vlib.report import Check
from contracts import ray

FILE = 'src/engine/engine_ray.c'


def main():
    chk = Check('C16')
    chk.timeout = 30 if chk.tier == 'quick' else 300
    chk.unit(FILE, 'mj_ray', ray.MJ_RAY, 'math', 'fp')
    chk.unit(FILE, 'ray_quad', ray.QUAD, 'math', 'real', check_arith=False)
    chk.unit(FILE, 'ray_sphere', ray.QUAD, 'math', 'real', check_arith=False)
    chk.unit(FILE, 'ray_eliminate', ray.ELIMC, 'math', 'fp')
    chk.unit(FILE, 'ray_plane', ray.PLANE, 'math', 'real', check_arith=False)
    chk.assumptions |= {'per-geom ray routines are pure functions of the geom index (ghost function); mj_ray is proved for normal == NULL',
                        'ray_quad / ray_sphere / ray_plane over the reals'}
    chk.out_of_reach += ['plane: proved for normal == NULL', 'capsule / ellipsoid / cylinder / box / mesh / hfield / SDF ray routines', 'mj_multiRay (spherical-angle pruning), mju_rayTree, flex and skin rays']
    return chk.finish()
