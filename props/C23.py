"""C23 - linear algebra: the data-movement routines only (gather / scatter and their inverse law)."""
import os
from vlib.report import Check
from contracts import gather

F = 'src/engine/engine_util_misc.c'


def main():
    chk = Check('C23')
    C = gather.contracts()
    for fn in ('mju_gather', 'mju_gatherMasked', 'mju_scatter', 'mju_gatherInt', 'mju_scatterInt'):
        chk.unit(F, fn, C, 'math', 'opaque')
    CN = gather.contracts(null_ind=True)
    for fn in ('mju_gather', 'mju_scatter'):
        chk.unit(F, fn, CN, 'math', 'opaque', prefix='[ind=NULL]')
    for fn in ('mju_copySparse', 'mju_zeroSparse'):       # row-wise copy / clear of a CSR matrix (engine_util_sparse.c)
        chk.unit('src/engine/engine_util_sparse.c', fn, gather.sparse_contracts(), 'math', 'opaque')
    shim = os.path.join(os.path.dirname(os.path.dirname(os.path.abspath(__file__))), 'shims', 'c23_client.c')
    for fn in ('c23_roundtrip', 'c23_roundtrip_int'):
        chk.unit('verif:shims/c23_client.c', fn, C, 'math', 'opaque', abspath=shim)
    chk.assumptions |= {'scatter: the index list is injective (given with its inverse as a ghost array) - the engine scatters through awake-index lists and CSR column lists, which are strictly increasing',
                        'the arrays passed are distinct objects (restrict-qualified in the source)'}
    chk.out_of_reach += ['Cholesky / LU / band / sparse factor-solve pairs, rank-one updates, mju_eig3, mju_boxQP, QCQP: inductive matrix identities in nonlinear real arithmetic at general n',
                         'dense <-> sparse conversion round trip, transpose, compress, products and additions of sparse matrices (running addresses / counting-sort arguments; not under contract); proved: copySparse / zeroSparse',
                         'AVX code paths (not compiled in the default build)']
    return chk.finish()
