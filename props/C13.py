"""C13 - contacts report true geometry (sphere-plane, sphere-sphere, contact frame)."""
import os
from vlib.report import Check
from vlib.cast import VERIF
from contracts import prims

SHIM = os.path.join(VERIF, 'shims', 'c13_prims.c')


def main():
    chk = Check('C13')
    chk.timeout = 40 if chk.tier == 'quick' else 300
    for fn in ('mjraw_PlaneSphere', 'mjraw_SphereSphere', 'mjraw_SphereCapsule', 'c13_frame'):
        chk.unit('verif:shims/c13_prims.c', fn, prims.CONTRACTS, 'math', 'real', abspath=SHIM, check_arith=False)
    chk.unit('verif:shims/c13_prims.c', 'mjc_PlaneCapsule', prims.plane_capsule_contracts(), 'math', 'real', abspath=SHIM, check_arith=False)
    for fn in ('mjc_PlaneSphere', 'mjc_SphereSphere'):      # the wrappers hand the raw colliders the arrays of the right geoms
        chk.unit('verif:shims/c13_prims.c', fn, prims.wrapper_contracts(), 'math', 'real', abspath=SHIM, check_arith=False)
    for fn in ('getMargin', 'getGap'):
        chk.unit('src/engine/engine_collision_driver.c', fn, prims.MARGIN_CONTRACTS, 'math', 'real')
    import hashlib
    from vlib.cast import REPO
    for f in ('src/engine/engine_collision_primitive.c', 'src/engine/engine_util_spatial.c', 'src/engine/engine_util_blas.c'):
        chk.sources[f] = hashlib.sha256(open(os.path.join(REPO, f), 'rb').read()).hexdigest()
    chk.out_of_reach += ['capsule-capsule, plane-cylinder / box / ellipsoid colliders (sphere-capsule and plane-capsule are under contract), mj_geomDistance, mj_setContact, convex (GJK/EPA) pairs']
    chk.assumptions |= {'machine doubles treated as mathematical reals', 'mjc_PlaneCapsule uses mjraw_PlaneSphere by its proved contract plus the frame fact that it stores only through the contact pointer it is given', 'plane frame matrix has a unit third column',
                        'mju_makeFrame is proved for frames built from the normal alone (tangent of squared length < 0.25, as every '
                        'primitive collider leaves it); the supplied-tangent path is not claimed'}
    return chk.finish()
