"""C13 - contacts report true geometry (sphere-plane, sphere-sphere, contact frame)."""
import os
from vlib.report import Check
from vlib.cast import VERIF
from contracts import prims

SHIM = os.path.join(VERIF, 'shims', 'c13_prims.c')


NATIVE = r"""
// the real mjc_SphereCylinder on one sphere (geom 0) and one cylinder (geom 1); returns the number of contacts, *dist = reported gap
int vf_sphere_cylinder(const double* xpos, const double* xmat, const double* size, double margin, double* dist) {
  mjModel m; mjData d; memset(&m, 0, sizeof m); memset(&d, 0, sizeof d);
  m.ngeom = 2; m.geom_size = (mjtNum*)size; d.geom_xpos = (mjtNum*)xpos; d.geom_xmat = (mjtNum*)xmat;
  mjPreContact con[4]; memset(con, 0, sizeof con);
  int n = -1;
  VF_TRY({ n = mjc_SphereCylinder(&m, &d, con, 0, 1, margin); });
  if (vf_error_flag) return -99;
  *dist = con[0].dist;
  return n;
}
"""


def native_contract_run(open_obligations=()):
    """the real compiled mjc_SphereCylinder on seeded random poses against the region formulas of its contract (nearest feature of the solid
    cylinder: cap, side, rim, or - centre inside - the nearer of cap and side).  Bounded; it is also the fallback that turns an `unknown`
    nonlinear obligation into a replayed violation."""
    import ctypes, math, random
    from vlib import native
    lib, d = native.build_so('c13', ['src/engine/engine_util_blas.c', 'src/engine/engine_util_spatial.c', 'src/engine/engine_collision_primitive.c'], NATIVE)
    try:
        rnd = random.Random(int(os.environ.get('VERIF_SEED', '0') or 0))
        D = ctypes.c_double
        runs = 0
        for trial in range(4000):
            # random orthonormal frame for the cylinder (Gram-Schmidt), identity for the sphere
            a = [rnd.gauss(0, 1) for _ in range(3)]; na = math.sqrt(sum(x * x for x in a)); a = [x / na for x in a]
            b = [rnd.gauss(0, 1) for _ in range(3)]; dab = sum(x * y for x, y in zip(a, b)); b = [y - dab * x for x, y in zip(a, b)]
            nb = math.sqrt(sum(x * x for x in b)); b = [x / nb for x in b]
            c = [a[1] * b[2] - a[2] * b[1], a[2] * b[0] - a[0] * b[2], a[0] * b[1] - a[1] * b[0]]
            # columns b, c, a  (third column = axis)
            mat2 = [b[0], c[0], a[0], b[1], c[1], a[1], b[2], c[2], a[2]]
            R, H, rs = rnd.choice([0.2, 0.5, 1.0]), rnd.choice([0.1, 0.5, 1.5]), rnd.choice([0.05, 0.1, 0.4])
            # sphere centre: chosen per region in cylinder coordinates (x along the axis, p radial), including the rim ring [R, R + rs)
            x = rnd.choice([-1, 1]) * rnd.choice([rnd.uniform(0, H), rnd.uniform(H, H + 2 * rs), H + rs / 2])
            pr = rnd.choice([rnd.uniform(0.01, R), rnd.uniform(R, R + 2 * rs), R + rs / 2])
            pos2 = [rnd.uniform(-1, 1) for _ in range(3)]
            pos1 = [pos2[k] + x * a[k] + pr * b[k] for k in range(3)]
            margin = rnd.choice([0.0, 0.01, 0.2])
            xpos = (D * 6)(*(pos1 + pos2)); xmat = (D * 18)(*([1, 0, 0, 0, 1, 0, 0, 0, 1] + mat2)); size = (D * 6)(rs, 0, 0, R, H, 0)
            dist = D(0)
            n = lib.vf_sphere_cylinder(xpos, xmat, size, D(margin), ctypes.byref(dist))
            runs += 1
            ax, p = abs(x), pr
            if ax < H and p < R:
                want = (ax - H - rs) if (H - ax) < (R - p) else (p - R - rs)
            elif ax < H:
                want = p - R - rs
            elif p < R:
                want = ax - H - rs
            else:
                want = math.sqrt((ax - H) ** 2 + (p - R) ** 2) - rs
            if abs(want - margin) < 1e-7 or abs(ax - H) < 1e-9 or abs(p - R) < 1e-9:
                continue        # on a decision boundary: rounding decides
            wn = 1 if want <= margin else 0
            if n != wn or (n == 1 and abs(dist.value - want) > 1e-7):
                return {'reproduced': True, 'name': 'mjc_SphereCylinder', 'input': {'sphere_pos': pos1, 'sphere_radius': rs, 'cylinder_pos': pos2, 'cylinder_mat': mat2,
                                                                                   'cylinder_radius': R, 'cylinder_halfheight': H, 'margin': margin,
                                                                                   'axial_coordinate': x, 'radial_distance': pr},
                        'observed': {'ncon': n, 'dist': dist.value}, 'expected': {'ncon': wn, 'dist': want},
                        'violated_clause': 'the contact reports the gap to the nearest feature of the cylinder (cap / side / rim)'}
        return {'reproduced': False, 'cases_run': runs}
    finally:
        native.cleanup(d)


def main():
    chk = Check('C13')
    chk.native_fallback = native_contract_run
    chk.timeout = 120 if chk.tier == 'quick' else 300
    for fn in ('mjraw_PlaneSphere', 'mjraw_SphereSphere', 'mjraw_SphereCapsule', 'c13_frame'):
        chk.unit('verif:shims/c13_prims.c', fn, prims.CONTRACTS, 'math', 'real', abspath=SHIM, check_arith=False)
    chk.unit('verif:shims/c13_prims.c', 'mjc_PlaneCapsule', prims.plane_capsule_contracts(), 'math', 'real', abspath=SHIM, check_arith=False)
    chk.unit('verif:shims/c13_prims.c', 'mjc_SphereCylinder', prims.sphere_cylinder_contracts(), 'math', 'real', abspath=SHIM, check_arith=False)
    for fn in ('mjc_PlaneSphere', 'mjc_SphereSphere', 'mjc_SphereCapsule'):      # the wrappers hand the raw colliders the arrays of the right geoms
        chk.unit('verif:shims/c13_prims.c', fn, prims.wrapper_contracts(), 'math', 'real', abspath=SHIM, check_arith=False)
    for fn in ('getMargin', 'getGap'):
        chk.unit('src/engine/engine_collision_driver.c', fn, prims.MARGIN_CONTRACTS, 'math', 'real')
    import hashlib
    from vlib.cast import REPO
    for f in ('src/engine/engine_collision_primitive.c', 'src/engine/engine_util_spatial.c', 'src/engine/engine_util_blas.c'):
        chk.sources[f] = hashlib.sha256(open(os.path.join(REPO, f), 'rb').read()).hexdigest()
    import time
    from vlib.report import run_isolated
    t0 = time.time()
    r = run_isolated(lambda n, m, o: native_contract_run([]), '', None, None, timeout=600, crash_is_failure=True)
    chk.bounded.append({'what': 'real compiled mjc_SphereCylinder vs the nearest-feature formulas of its contract', 'bound': '4000 seeded random poses (all four regions, incl. the rim ring), tolerance 1e-7',
                        'result': r, 'wall_s': round(time.time() - t0, 1), 'counted_as_proved': False})
    if r and r.get('reproduced'):
        chk.native_fallback = None
        chk.external('bounded/native_contract_run', False, 'native(bounded)', time.time() - t0, detail=str(r)[:300], model=r)
    chk.out_of_reach += ['capsule-capsule, plane-cylinder / box / ellipsoid colliders (sphere-capsule, plane-capsule and sphere-cylinder are under contract; for sphere-cylinder the contact normal and position are not stated), mj_geomDistance, mj_setContact, convex (GJK/EPA) pairs']
    chk.assumptions |= {'machine doubles treated as mathematical reals', 'mjc_PlaneCapsule uses mjraw_PlaneSphere by its proved contract plus the frame fact that it stores only through the contact pointer it is given', 'plane frame matrix has a unit third column',
                        'mju_makeFrame is proved for frames built from the normal alone (tangent of squared length < 0.25, as every '
                        'primitive collider leaves it); the supplied-tangent path is not claimed'}
    return chk.finish()
