"""C27 - actuation: the clamps (control / activation / force limits) and the actuator-group disable mask."""
from vlib.report import Check
from contracts import clamp


def main():
    chk = Check('C27')
    C = clamp.contracts()
    for fn in ('mju_clip', 'mju_min', 'mju_max'):
        chk.unit('src/engine/engine_util_misc.c', fn, C, 'math', 'fp')
    for null in (True, False):
        c = dict(C, clampVec=clamp.clampvec(null))
        chk.unit('src/engine/engine_forward.c', 'clampVec', c, 'math', 'fp', prefix='[index=%s]' % ('NULL' if null else 'given'))
    chk.unit('src/engine/engine_forward.c', 'clampVec', dict(C, clampVec=clamp.CLAMP_ANY), 'math', 'fp', prefix='[any-input]')
    # the call site: mj_fwdActuation up to the exit of its control-check loop (prefix contract shared with C30): limited controls end inside
    # ctrlrange unless clamping is disabled (or every control was zeroed because one was bad)
    from contracts import actuation
    chk.unit('src/engine/engine_forward.c', 'mj_fwdActuation', actuation.contracts(), 'math', 'fp', prefix='[prefix]')
    chk.unit('src/engine/engine_support.c', 'mj_actuatorDisabled', dict(C, mj_actuatorDisabled=clamp.DISABLED), 'math', 'fp')
    chk.unit('src/engine/engine_util_misc.c', 'mju_muscleDynamics', clamp.muscle_contracts(), 'math', 'real')
    chk.assumptions |= {'clampVec with an index array: the indices are distinct and in range (they are the awake-actuator / awake-dof lists)',
                        'limited ranges are ordered and free of NaN (checked by the model compiler)'}
    chk.assumptions.add('mj_fwdActuation is verified as a PREFIX (entry .. exit of the control-check loop): stack allocator by its C19 contract, delayed controls (mj_readCtrl) arbitrary, timer callback effect-free')
    chk.out_of_reach += ['mj_fwdActuation after the control check (activation dynamics, gain / bias formulas, force clamping, transmission product)',
                         'slider-crank, site and SO3 transmissions (engine_core_smooth.c mj_transmission)',
                         'muscle length-gain / force-velocity curves (mju_muscleGainLength, mju_muscleGain, mju_muscleBias)']
    return chk.finish()
