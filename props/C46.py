"""C46 - bounded least squares: residual evaluated only inside the bounds, returned point inside, objective never increases."""
import ast
import hashlib
import os
import z3
from vlib.report import Check
from vlib.symex import Obligation
from vlib import pyfp
from vlib.cast import REPO

REL = 'python/mujoco/minimize.py'
fp = pyfp.fpv


def finite(*xs):
    return z3.And(*[z3.Not(z3.Or(z3.fpIsNaN(x), z3.fpIsInf(x))) for x in xs])


def inside(v, lo, hi):
    return z3.And(z3.fpLEQ(lo, v), z3.fpLEQ(v, hi))


def find_loop(fn):
    """the main `for i in range(max_iter)` loop of least_squares and the Armijo `while armijo < 0` loop inside it"""
    main = [n for n in fn.body if isinstance(n, ast.For)]
    if len(main) != 1:
        raise pyfp.Unsupported('expected one top-level for loop in least_squares')
    arm = [n for n in ast.walk(main[0]) if isinstance(n, ast.While) and isinstance(n.test, ast.Compare) and
           isinstance(n.test.left, ast.Name) and n.test.left.id == 'armijo']
    if len(arm) != 1:
        raise pyfp.Unsupported('expected one `while armijo < 0` loop')
    return main[0], arm[0]


def stmts_defining(block, name, upto_call):
    """the straight-line statements of `block` (with `if bounds is not None` resolved) up to the statement that contains
    the call `upto_call(...)`, restricted to those that assign `name` (or use out=name)"""
    flat = pyfp.flatten_with_bounds(block)
    out = []
    for s in flat:
        calls = [c for c in ast.walk(s) if isinstance(c, ast.Call) and isinstance(c.func, ast.Name) and c.func.id == upto_call]
        if calls:
            return out, calls[0]
        tgt = None
        if isinstance(s, ast.Assign) and isinstance(s.targets[0], ast.Name):
            tgt = s.targets[0].id
        if isinstance(s, ast.AugAssign) and isinstance(s.target, ast.Name):
            tgt = s.target.id
        if isinstance(s, ast.Expr) and isinstance(s.value, ast.Call):
            o = [kw for kw in s.value.keywords if kw.arg == 'out' and isinstance(kw.value, ast.Name)]
            tgt = o[0].value.id if o else None
        if tgt == name:
            out.append(s)
    raise pyfp.Unsupported('no call to %s found' % upto_call)


def main():
    chk = Check('C46')
    chk.timeout = 600 if chk.tier == 'thorough' else 300
    path = os.path.join(REPO, REL)
    chk.sources[REL] = hashlib.sha256(open(path, 'rb').read()).hexdigest()
    obs = []
    x, lo, hi, D, dx, eps = [z3.FP(n, pyfp.F64) for n in ('x', 'lo', 'hi', 'D', 'dx', 'eps')]
    box = [finite(x, lo, hi), z3.fpLT(lo, hi), inside(x, lo, hi)]
    try:
        ls = pyfp.function_ast(path, 'least_squares')
        main_loop, armijo = find_loop(ls)
        # ---- O3: the candidate passed to residual() inside the Armijo loop -------------------------------------------
        defs, call = stmts_defining(armijo.body, 'xnew', 'residual')
        if not (len(call.args) == 1 and isinstance(call.args[0], ast.Name) and call.args[0].id == 'xnew'):
            raise pyfp.Unsupported('the Armijo loop no longer calls residual(xnew)')
        # dlower / dupper as the code defines them (statements of the main loop body)
        bdefs = [s for s in pyfp.flatten_with_bounds(main_loop.body) if isinstance(s, ast.Assign) and isinstance(s.targets[0], ast.Name)
                 and s.targets[0].id in ('dlower', 'dupper')]
        env = {'x': x, 'bounds[0]': lo, 'bounds[1]': hi, 'D': D, 'dx': dx}
        it = pyfp.Interp(env)
        # `None if bounds is None else e`  ->  e
        for s in bdefs:
            v = s.value
            if isinstance(v, ast.IfExp) and pyfp.is_none_test(v.test, 'bounds'):
                v = v.orelse
            it.env[s.targets[0].id] = it.ev(v)
        if 'dlower' not in it.env or 'dupper' not in it.env:
            raise pyfp.Unsupported('dlower / dupper definitions not found')
        boxqp = [inside(dx, it.env['dlower'], it.env['dupper'])]       # ASSUMED contract of mujoco.mju_boxQP
        it.run(defs)
        xnew = it.env['xnew']
        pre = box + [finite(D), z3.fpGT(D, fp(0.0)), z3.fpLEQ(D, fp(1e6)), z3.fpGEQ(D, fp(1e-6))] + boxqp
        obs.append(Obligation('least_squares/candidate_passed_to_residual_is_inside_bounds', pre, inside(xnew, lo, hi), 'post'))
        # ---- O1: the start point after the initial clip --------------------------------------------------------------
        pre_loop = pyfp.flatten_with_bounds([s for s in ls.body if s is not main_loop])
        clips = [s for s in pre_loop if isinstance(s, ast.Expr) and isinstance(s.value, ast.Call) and
                 [kw for kw in s.value.keywords if kw.arg == 'out' and isinstance(kw.value, ast.Name) and kw.value.id == 'x']]
        x0 = z3.FP('x0', pyfp.F64)
        it0 = pyfp.Interp({'x': x0, 'bounds[0]': lo, 'bounds[1]': hi})
        it0.run(clips)
        obs.append(Obligation('least_squares/start_point_is_clipped_into_bounds', [finite(x0, lo, hi), z3.fpLT(lo, hi)], inside(it0.env['x'], lo, hi), 'post'))
        # ---- structure: x changes only by accepting a candidate after the Armijo loop --------------------------------
        assigns = [s for s in ast.walk(main_loop) if isinstance(s, ast.Assign) and any(isinstance(t, ast.Name) and t.id == 'x' for t in s.targets)]
        ok_assign = bool(assigns) and all(isinstance(s.value, ast.Name) and s.value.id == 'xnew' for s in assigns)
        chk.external('least_squares/structure/x_is_only_ever_replaced_by_an_evaluated_candidate', ok_assign, 'ast scan',
                     detail='' if ok_assign else 'assignment to x inside the main loop that is not `x = xnew`')
        in_arm = any(s in list(ast.walk(armijo)) for s in assigns)
        body = main_loop.body
        idx_arm = next(i for i, s in enumerate(body) if armijo in list(ast.walk(s)))
        guard = [i for i, s in enumerate(body) if i > idx_arm and isinstance(s, ast.If) and 'status' in ast.dump(s.test) and any(isinstance(b, ast.Break) for b in s.body)]
        first_assign = min(i for i, s in enumerate(body) if any(a in list(ast.walk(s)) for a in assigns))
        ok_order = (not in_arm) and bool(guard) and guard[0] < first_assign
        chk.external('least_squares/structure/acceptance_only_after_the_armijo_test_succeeded', ok_order, 'ast scan',
                     detail='' if ok_order else 'x is updated inside the Armijo loop or before the status check that follows it')
        # ---- O4: an accepted step does not increase the objective ----------------------------------------------------
        y, ynew, gdx = [z3.FP(n, pyfp.F64) for n in ('y', 'ynew', 'gdx')]
        adefs = [s for s in armijo.body if isinstance(s, ast.Assign) and isinstance(s.targets[0], ast.Name) and s.targets[0].id in ('reduction', 'armijo')]
        c1 = [s for s in ls.body if isinstance(s, ast.Assign) and isinstance(s.targets[0], ast.Name) and s.targets[0].id == 'armijo_c1']
        ita = pyfp.Interp({'y': y, 'ynew': ynew})
        ita.run(c1)
        # (grad.T @ dx).item() is a scalar: the model gradient along the step, named gdx
        for s in adefs:
            src = ast.unparse(s.value).replace('(grad.T @ dx).item()', 'gdx')
            ita.env['gdx'] = gdx
            ita.env[s.targets[0].id] = ita.ev(ast.parse(src, mode='eval').body)
        if 'armijo' not in ita.env:
            raise pyfp.Unsupported('armijo definition not found')
        obs.append(Obligation('least_squares/accepted_step_does_not_increase_the_objective',
                              [finite(y, ynew, gdx), z3.fpLEQ(gdx, fp(0.0)), z3.Not(z3.fpLT(ita.env['armijo'], fp(0.0)))],
                              z3.fpLEQ(ynew, y), 'post'))
        # ---- O2: jacobian_fd perturbs inside the bounds --------------------------------------------------------------
        def jfd_query(sort, eps_value):
            """(assumptions, goal) of 'x + step stays inside the bounds' for the statements of jacobian_fd, read in `sort`"""
            saved = (pyfp.F64, pyfp.fpv)
            pyfp.F64 = sort
            pyfp.fpv = lambda v: z3.FPVal(float(v), sort)
            try:
                f = pyfp.fpv
                xs, los, his, epss = [z3.FP(n + '_' + str(sort.ebits()), sort) for n in ('x', 'lo', 'hi', 'eps')]
                jf = pyfp.function_ast(path, 'jacobian_fd')
                allj = pyfp.flatten_with_bounds(jf.body)
                has_res = lambda s: any(isinstance(c, ast.Call) and isinstance(c.func, ast.Name) and c.func.id == 'residual' for c in ast.walk(s))
                idx = [i for i, s in enumerate(allj) if has_res(s)]
                if not idx or not any(isinstance(c, ast.Call) and isinstance(c.func, ast.Name) and c.func.id == 'residual' and len(c.args) == 1 and
                                      isinstance(c.args[0], ast.Name) and c.args[0].id == 'xh' for c in ast.walk(allj[idx[0]])):
                    raise pyfp.Unsupported('jacobian_fd no longer calls residual(xh)')
                upto = [s for s in allj[:idx[0]] if not (isinstance(s, ast.Assign) and isinstance(s.targets[0], ast.Name) and s.targets[0].id == 'n')]
                itj = pyfp.Interp({'x': xs, 'bounds[0]': los, 'bounds[1]': his, 'eps': epss})
                itj.run(upto)
                xh = itj.env['xh']
                width = z3.fpSub(pyfp.RNE, his, los)
                scale = z3.fpMax(f(1.0), z3.fpMax(z3.fpAbs(los), z3.fpAbs(his)))
                wide = z3.fpGEQ(width, z3.fpMul(pyfp.RNE, f(4.0), z3.fpMul(pyfp.RNE, epss, scale)))      # "bounds wider than the step"
                pre = [finite(xs, los, his, epss), z3.fpLT(los, his), inside(xs, los, his), wide,
                       z3.fpLEQ(z3.fpAbs(los), f(1e9)), z3.fpLEQ(z3.fpAbs(his), f(1e9)), epss == f(eps_value)]
                return pre, inside(xh, los, his)
            finally:
                pyfp.F64, pyfp.fpv = saved
        import time
        if chk.tier == 'thorough':
            # the exact Float64 reading with the default step eps = 2^-26 (sqrt of the machine epsilon): attempted with a long
            # budget; counted as a discharged obligation only if the solver answers unsat within it
            pre64, goal64 = jfd_query(z3.Float64(), 2.0 ** -26)
            t0 = time.time()
            sol = z3.Solver()
            sol.set('timeout', 2400000)
            sol.add(*pre64)
            sol.add(z3.Not(goal64))
            r = str(sol.check())
            if r == 'unsat':
                chk.external('jacobian_fd/perturbed_point_is_inside_bounds(Float64)', True, 'z3 QF_FP', time.time() - t0)
            elif r == 'sat':
                chk.external('jacobian_fd/perturbed_point_is_inside_bounds(Float64)', False, 'z3 QF_FP', time.time() - t0, detail=str(sol.model())[:300], model={'model': str(sol.model())[:300]})
            else:
                chk.bounded.append({'what': 'jacobian_fd Float64 query', 'bound': '2400 s solver budget', 'result': 'not decided (unknown): not counted, not a violation',
                                    'wall_s': round(time.time() - t0, 1), 'counted_as_proved': False})
        if True:
            # quick tier: the same statements read in Float32 - NOT the arithmetic numpy uses, so a bounded stand-in only
            pre32, goal32 = jfd_query(z3.Float32(), 2.0 ** -12)
            t0 = time.time()
            sol = z3.Solver()
            sol.set('timeout', 240000)
            sol.add(*pre32)
            sol.add(z3.Not(goal32))
            r = str(sol.check())
            chk.bounded.append({'what': 'jacobian_fd: x + finite-difference step stays inside the bounds',
                                'bound': 'the statements of jacobian_fd read in IEEE Float32 with eps = 2^-12 (numpy uses Float64: the Float64 query is the thorough tier)',
                                'result': r, 'wall_s': round(time.time() - t0, 1), 'counted_as_proved': False})
            if r == 'sat':
                chk.external('bounded/jacobian_fd_float32', False, 'z3 QF_FP (Float32 stand-in)', time.time() - t0, detail=str(sol.model())[:300], model={'model': str(sol.model())[:300]})
    except pyfp.Unsupported as e:
        chk.undecided.append('the code no longer has the shape the scalar reading understands: %s' % e)
    for o in obs:
        o.meta['replayer'] = numeric_replay
    chk.add_obligations(obs, {'function': 'least_squares, jacobian_fd (statements sliced from the ast, read per component in Float64)', 'file': REL,
                              'status': 'under-contract', 'obligations': len(obs) + 2})
    chk.assumptions |= {
        'mujoco.mju_boxQP returns a step with dlower <= dx <= dupper (contract of the C routine, external here)',
        'the model gradient along the returned step is not positive (grad.T dx <= 0: dx = 0 is feasible for the box QP and the Hessian is positive semi-definite)',
        'np.clip / np.where / np.maximum / np.abs act elementwise on (n,1) columns; + - * / are IEEE round-to-nearest-even Float64 operations',
        'x_scale in [1e-6, 1e6]; bounds of magnitude <= 1e9; eps in [2^-40, 2^-10]; bounds at least 4*eps*max(1,|lo|,|hi|) apart ("wider than the finite-difference step")',
    }
    chk.out_of_reach += ['reaching the bounded global minimum for linear residuals (needs the optimality of mju_boxQP and convergence of the iteration)',
                         'user-supplied jacobian / norm callbacks (check_jacobian, check_norm)']
    return chk.finish()


def numeric_replay(name, model, ob):
    """run the real least_squares under /venv/bin/python (installed mujoco binding) on bound-clamped problems"""
    import subprocess
    from vlib.cast import VERIF
    demo = os.path.join(VERIF, 'findings', 'F4_least_squares_bound_overshoot', 'demo.py')
    p = subprocess.run(['/venv/bin/python', demo, REPO], capture_output=True, text=True, timeout=600)
    tail = (p.stdout.strip().split('\n') or [''])[-1]
    return {'reproduced': p.returncode == 1, 'ran': '/venv/bin/python findings/F4_least_squares_bound_overshoot/demo.py <repo>', 'output': tail[:600]}
