"""C05 - time integration: the decidable pieces (Runge-Kutta tableau constants, activation update with clamping)."""
from fractions import Fraction
import z3
from vlib.report import Check
from vlib.cast import load_tu, walk
from contracts import integrate

F = 'src/engine/engine_forward.c'


def const_value(n):
    """exact rational value of a constant initialiser expression (double literals are exact binary fractions; the
    quotients 1.0/6.0 are evaluated as rationals - the tableau is specified over the rationals)."""
    k = n['kind']
    if k in ('ImplicitCastExpr', 'ParenExpr', 'CStyleCastExpr', 'ConstantExpr'):
        return const_value(n['inner'][0])
    if k == 'FloatingLiteral':
        return Fraction(n['value'])
    if k == 'IntegerLiteral':
        return Fraction(int(n['value']))
    if k == 'BinaryOperator':
        a, b = const_value(n['inner'][0]), const_value(n['inner'][1])
        return {'+': a + b, '-': a - b, '*': a * b, '/': a / b}[n['opcode']]
    if k == 'UnaryOperator' and n['opcode'] == '-':
        return -const_value(n['inner'][0])
    raise ValueError('constant expression kind ' + k)


def tableau(chk):
    tu = load_tu(F)
    chk.sources[F] = tu.source_sha
    arrs = {}
    for d in tu.global_by_id.values():
        if d.get('name') in ('RK4_A', 'RK4_B'):
            init = [c for c in d.get('inner', []) if c['kind'] == 'InitListExpr']
            if init:
                arrs[d['name']] = [const_value(x) for x in init[0]['inner']]
    if set(arrs) != {'RK4_A', 'RK4_B'}:
        chk.undecided.append('RK4_A / RK4_B initialisers not found in ' + F)
        return
    A = [[Fraction(0)] * 4] + [[arrs['RK4_A'][3 * i + j] for j in range(3)] + [Fraction(0)] for i in range(3)]   # 4x4 strictly lower
    b = arrs['RK4_B']
    c = [sum(A[i]) for i in range(4)]                 # C = row sums, as mj_RungeKutta's first loop computes them
    def S(f):
        return sum(f(i) for i in range(4))
    conds = {
        'explicit (A strictly lower triangular)': all(A[i][j] == 0 for i in range(4) for j in range(i, 4)),
        'order1: sum b = 1': S(lambda i: b[i]) == 1,
        'order2: sum b c = 1/2': S(lambda i: b[i] * c[i]) == Fraction(1, 2),
        'order3: sum b c^2 = 1/3': S(lambda i: b[i] * c[i] ** 2) == Fraction(1, 3),
        'order3: sum b A c = 1/6': S(lambda i: b[i] * sum(A[i][j] * c[j] for j in range(4))) == Fraction(1, 6),
        'order4: sum b c^3 = 1/4': S(lambda i: b[i] * c[i] ** 3) == Fraction(1, 4),
        'order4: sum b c A c = 1/8': S(lambda i: b[i] * c[i] * sum(A[i][j] * c[j] for j in range(4))) == Fraction(1, 8),
        'order4: sum b A c^2 = 1/12': S(lambda i: b[i] * sum(A[i][j] * c[j] ** 2 for j in range(4))) == Fraction(1, 12),
        'order4: sum b A A c = 1/24': S(lambda i: b[i] * sum(A[i][j] * sum(A[j][k] * c[k] for k in range(4)) for j in range(4))) == Fraction(1, 24),
        'classical tableau: c = (0, 1/2, 1/2, 1)': c == [0, Fraction(1, 2), Fraction(1, 2), 1],
        'classical tableau: b = (1/6, 1/3, 1/3, 1/6)': b == [Fraction(1, 6), Fraction(1, 3), Fraction(1, 3), Fraction(1, 6)],
    }
    for name, ok in conds.items():
        chk.external('RK4_tableau/' + name, bool(ok), 'exact rational evaluation of the initialisers read from the clang AST',
                     detail='' if ok else 'A=%s b=%s' % (arrs['RK4_A'], b), model=None if ok else {'RK4_A': [str(x) for x in arrs['RK4_A']], 'RK4_B': [str(x) for x in b]})
    chk.units.append({'function': 'RK4_A, RK4_B (constant initialisers)', 'file': F, 'status': 'order conditions over the rationals', 'obligations': len(conds)})


def main():
    chk = Check('C05')
    tableau(chk)
    for dyn in ('euler', 'filterexact'):
        chk.unit('src/engine/engine_support.c', 'mj_nextActivation', integrate.contracts(dyn), 'math', 'real', prefix='[%s]' % dyn)
    # position integration of ball / free joints: the incremental rotation is composed on the right (body frame)
    import os
    from vlib.cast import VERIF
    from contracts import spatial
    shim = os.path.join(VERIF, 'shims', 'c24_laws.c')
    chk.unit('verif:shims/c24_laws.c', 'c24_integrate', spatial.CONTRACTS, 'math', 'real', abspath=shim, check_arith=False)
    chk.assumptions |= {'the Runge-Kutta conditions are checked over the rationals for the tableau constants as written in the source (1.0/6.0 read as 1/6); rounding of the constants and of the stage arithmetic is not part of the claim'}
    chk.out_of_reach += ['mj_Euler / mj_implicit / mj_RungeKutta update rules as a whole (each calls ~20 pipeline functions; a postcondition on qvel or time needs a frame contract for every one of them)',
                         'position integration on the configuration manifold as a whole (mj_integratePos); proved: mju_quatIntegrate of a unit quaternion equals q * axisAngle(vel/|vel|, scale*|vel|) and is unit',
                         'DC-motor activation slots of mj_nextActivation (LuGre bristle state: exp and abs of products)',
                         'fourth-order convergence (a numerical-analysis statement about trajectories)']
    return chk.finish()
