"""C18 - sleeping islands: the cycle structure of tree_asleep under the wake / sleep primitives, and the derived arrays."""
import os
from vlib.report import Check
from contracts import sleep

F = 'src/engine/engine_sleep.c'
FLAGS = ['-DMJ_DISABLE_DEBUG_TRACING']      # the repository's own switch: drops the debug-log blocks (formatting only)

NATIVE = r"""
int vf_wake(int* a, int ntree, int i, int w) { int r = -100; VF_TRY({ r = mj_wakeIsland(a, ntree, i, w, NULL, 0); }); return vf_error_flag ? -99 : r; }
int vf_cycle(const int* a, int ntree, int i) { return mj_sleepCycle(a, ntree, i); }
int vf_sleep(int* a, int ntree, const int* tree, int n, double* qvel, double* qacc, int* dofadr, int* dofnum) {
  mjModel m; mjData d; memset(&m, 0, sizeof m); memset(&d, 0, sizeof d);
  m.ntree = ntree; m.tree_dofadr = dofadr; m.tree_dofnum = dofnum; d.tree_asleep = a; d.qvel = qvel; d.qacc = qacc;
  VF_TRY({ mj_sleepTrees(&m, &d, tree, n); });
  return vf_error_flag ? -99 : 0;
}
// out: tree_awake[ntree], body_awake[nbody], body_awake_ind[nbody], parent_awake_ind[nbody], dof_awake_ind[nv], counts[4]
int vf_update(int ntree, int nbody, int nv, int* treeid, int* parentid, int* rootid, int* mocapid, int* dofbody, int* asleep, int flg,
              int* tree_awake, int* body_awake, int* bai, int* pai, int* dai, int* counts) {
  mjModel m; mjData d; memset(&m, 0, sizeof m); memset(&d, 0, sizeof d);
  m.ntree = ntree; m.nbody = nbody; m.nv = nv; m.body_treeid = treeid; m.body_parentid = parentid; m.body_rootid = rootid; m.body_mocapid = mocapid; m.dof_bodyid = dofbody;
  d.tree_asleep = asleep; d.tree_awake = tree_awake; d.body_awake = body_awake; d.body_awake_ind = bai; d.parent_awake_ind = pai; d.dof_awake_ind = dai;
  VF_TRY({ mj_updateSleepInit(&m, &d, flg); });
  counts[0] = d.ntree_awake; counts[1] = d.nbody_awake; counts[2] = d.nparent_awake; counts[3] = d.nv_awake;
  return vf_error_flag ? -99 : 0;
}
"""


def native_contract_run(open_obligations=()):
    """the real compiled mj_wakeIsland / mj_sleepCycle / mj_sleepTrees on random cycle structures over small forests,
    against a direct Python model of the property (whole cycle woken, nothing else; new cycle in list order).  Bounded."""
    import ctypes
    import random
    from vlib import native
    lib, d = native.build_so('c18', [F, 'src/engine/engine_util_blas.c'], NATIVE, extra_cflags=FLAGS)
    try:
        rnd = random.Random(int(os.environ.get('VERIF_SEED', '0') or 0))
        runs = 0
        for trial in range(3000):
            n = rnd.randint(1, 9)
            a = [rnd.choice([-1, -5, -11]) for _ in range(n)]
            free = list(range(n))
            rnd.shuffle(free)
            cycles = []
            while free and rnd.random() < 0.7:
                k = rnd.randint(1, min(4, len(free)))
                cyc = [free.pop() for _ in range(k)]
                cycles.append(cyc)
                for j, x in enumerate(cyc):
                    a[x] = cyc[(j + 1) % k]
            i = rnd.randrange(n)
            w = rnd.choice([-1, -3, -11])
            arr = (ctypes.c_int * n)(*a)
            runs += 1
            c = lib.vf_cycle(arr, n, i)
            mine = [cy for cy in cycles if i in cy]
            want_c = min(mine[0]) if mine else -1
            if c != want_c:
                return {'reproduced': True, 'name': 'mj_sleepCycle', 'input': {'tree_asleep': a, 'i': i}, 'observed': c, 'expected': want_c}
            r = lib.vf_wake(arr, n, i, w)
            exp = list(a)
            if mine:
                for x in mine[0]:
                    exp[x] = w
                want_r = len(mine[0])
            else:
                exp[i] = min(w, a[i])
                want_r = 0
            if r != want_r or list(arr) != exp:
                return {'reproduced': True, 'name': 'mj_wakeIsland', 'input': {'tree_asleep': a, 'i': i, 'wakeval': w},
                        'observed': {'result': r, 'tree_asleep': list(arr)}, 'expected': {'result': want_r, 'tree_asleep': exp},
                        'violated_clause': 'a sleeping tree wakes exactly its whole cycle'}
            # sleep a random list of ready (-1) trees
            ready = [x for x in range(n) if a[x] == -1]
            if ready:
                k = rnd.randint(1, len(ready))
                lst = rnd.sample(ready, k)
                arr2 = (ctypes.c_int * n)(*a)
                dofnum = [rnd.randint(0, 2) for _ in range(n)]
                dofadr, tot = [], 0
                for x in range(n):
                    dofadr.append(tot)
                    tot += dofnum[x]
                qv, qa = (ctypes.c_double * max(1, tot))(*([1.5] * max(1, tot))), (ctypes.c_double * max(1, tot))(*([2.5] * max(1, tot)))
                rr = lib.vf_sleep(arr2, n, (ctypes.c_int * k)(*lst), k, qv, qa, (ctypes.c_int * n)(*dofadr), (ctypes.c_int * n)(*dofnum))
                exp2 = list(a)
                for j, x in enumerate(lst):
                    exp2[x] = lst[(j + 1) % k]
                zero = {dofadr[x] + t for x in lst for t in range(dofnum[x])}
                okv = all((qv[j] == 0.0 and qa[j] == 0.0) if j in zero else (qv[j] == 1.5 and qa[j] == 2.5) for j in range(tot))
                if rr != 0 or list(arr2) != exp2 or not okv:
                    return {'reproduced': True, 'name': 'mj_sleepTrees', 'input': {'tree_asleep': a, 'list': lst},
                            'observed': {'rc': rr, 'tree_asleep': list(arr2)}, 'expected': exp2,
                            'violated_clause': 'the listed trees form one new cycle in list order, their dofs are zeroed, nothing else changes'}
        # mj_updateSleepInit on random small forests: the derived arrays against the documented predicates (also the
        # completeness of the index lists, which the proof leaves out)
        for trial in range(1500):
            ntree, nbody = rnd.randint(0, 4), rnd.randint(1, 7)
            treeid, parentid, rootid, mocapid = [-1], [0], [0], [-1]
            for b in range(1, nbody):
                par = rnd.randrange(b)
                parentid.append(par)
                if treeid[par] >= 0:
                    treeid.append(treeid[par]); rootid.append(rootid[par]); mocapid.append(-1)
                else:
                    t = rnd.randrange(ntree) if ntree and rnd.random() < 0.6 else -1
                    treeid.append(t)
                    rootid.append(b if par == 0 else rootid[par])
                    mocapid.append(rnd.choice([-1, 0]) if (par == 0 and t < 0) else -1)
            dofbody = [b for b in range(nbody) if treeid[b] >= 0 for _ in range(rnd.randint(0, 2))]
            nv = len(dofbody)
            asleep = [rnd.choice([-1, -4, 0]) for _ in range(ntree)]
            flg = rnd.randint(0, 1)
            I = lambda xs, n=None: (ctypes.c_int * max(1, n if n is not None else len(xs)))(*xs)
            ta, ba, bai, pai, dai, cnt = I([], ntree), I([], nbody), I([], nbody), I([], nbody), I([], nv), I([], 4)
            rc = lib.vf_update(ntree, nbody, nv, I(treeid), I(parentid), I(rootid), I(mocapid), I(dofbody), I(asleep), flg, ta, ba, bai, pai, dai, cnt)
            runs += 1
            w_ta = [1 if asleep[t] < 0 else 0 for t in range(ntree)]
            w_ba = [(1 if (mocapid[rootid[b]] >= 0 or flg) else -1) if treeid[b] < 0 else (1 if w_ta[treeid[b]] else 0) for b in range(nbody)]
            w_bai = [b for b in range(nbody) if w_ba[b] != 0]
            w_pai = [b for b in range(1, nbody) if w_ba[parentid[b]] != 0]
            w_dai = [j for j in range(nv) if treeid[dofbody[j]] >= 0 and w_ba[dofbody[j]] == 1]
            got = {'tree_awake': list(ta)[:ntree], 'body_awake': list(ba)[:nbody], 'body_awake_ind': list(bai)[:cnt[1]] if 0 <= cnt[1] <= nbody else None,
                   'parent_awake_ind': list(pai)[:cnt[2]] if 0 <= cnt[2] <= nbody else None, 'dof_awake_ind': list(dai)[:cnt[3]] if 0 <= cnt[3] <= nv else None, 'ntree_awake': cnt[0]}
            want = {'tree_awake': w_ta, 'body_awake': w_ba, 'body_awake_ind': w_bai, 'parent_awake_ind': w_pai, 'dof_awake_ind': w_dai, 'ntree_awake': sum(w_ta)}
            if rc != 0 or got != want:
                return {'reproduced': True, 'name': 'mj_updateSleepInit', 'input': {'body_treeid': treeid, 'body_parentid': parentid, 'body_rootid': rootid, 'body_mocapid': mocapid,
                                                                                   'dof_bodyid': dofbody, 'tree_asleep': asleep, 'flg_staticawake': flg},
                        'observed': got, 'expected': want, 'violated_clause': 'derived sleep arrays are what the documented predicates select (mocap-rooted dof-less bodies awake)'}
        return {'reproduced': False, 'cases_run': runs}
    finally:
        native.cleanup(d)


def main():
    chk = Check('C18')
    chk.native_fallback = native_contract_run
    C = sleep.contracts()
    chk.unit(F, 'mj_sleepCycle', C, 'math', 'fp', extra_flags=FLAGS)
    chk.unit(F, 'mj_wakeIsland', C, 'math', 'fp', extra_flags=FLAGS)
    chk.unit(F, 'treeCanSleep', C, 'math', 'fp', extra_flags=FLAGS)
    chk.unit(F, 'mj_sleepTrees', C, 'math', 'opaque', extra_flags=FLAGS)
    chk.unit(F, 'mj_updateSleepInit', C, 'math', 'opaque', extra_flags=FLAGS)
    chk.unit('src/engine/engine_util_blas.c', 'mju_zero', C, 'math', 'opaque')
    # the wake sweeps, against the weak VIEW of the two primitives (proved against the same bodies, prefix [view])
    W = sleep.wake_contracts()
    chk.unit(F, 'mj_wakeIsland', W, 'math', 'fp', prefix='[view]', extra_flags=FLAGS)
    chk.unit(F, 'mj_sleepCycle', W, 'math', 'fp', prefix='[view]', extra_flags=FLAGS)
    chk.unit('src/engine/engine_core_util.c', 'tendonLimit', {'tendonLimit': sleep.TENDON_LIMIT_BODY}, 'math', 'fp')
    chk.unit('src/engine/engine_util_misc.c', 'mju_fillInt', {'mju_fillInt': sleep.FILL_INT}, 'math', 'opaque')
    for fn in ('mj_wake', 'mj_wakeCollision', 'mj_wakeTendon', 'mj_wakeEquality'):
        chk.unit(F, fn, W, 'math', 'fp', extra_flags=FLAGS)
    # mj_sleep, prefix: the countdown sweep over awake trees (which islands are then put to sleep is not under contract)
    chk.unit(F, 'mj_sleep', sleep.sleep_prefix_contracts(), 'math', 'fp', prefix='[prefix]', extra_flags=FLAGS)
    # the sleep filter of the collision driver (explicit pairs between two bodies that are not awake are dropped): contract shared with C14
    from contracts import filters
    chk.unit('src/engine/engine_collision_driver.c', 'filterCollisionPair', filters.pair_contracts(), 'math', 'real', prefix='[collision]', check_arith=False)
    import time
    from vlib.report import run_isolated
    t0 = time.time()
    r = run_isolated(lambda n, m, o: native_contract_run([]), '', None, None, timeout=600, crash_is_failure=True)
    chk.bounded.append({'what': 'real compiled mj_sleepCycle / mj_wakeIsland / mj_sleepTrees vs a direct model of the cycle structure; mj_updateSleepInit vs the documented predicates (incl. completeness of the index lists)',
                        'bound': '3000 seeded random forests of <= 9 trees with random disjoint cycles of length <= 4; mj_updateSleepInit: 1500 seeded random models of <= 7 bodies, <= 4 trees', 'result': r,
                        'wall_s': round(time.time() - t0, 1), 'counted_as_proved': False})
    if r and r.get('reproduced'):
        chk.native_fallback = None
        chk.external('bounded/native_contract_run', False, 'native(bounded)', time.time() - t0, detail=str(r)[:300], model=r)
    chk.assumptions |= {
        'the cycle a sleeping tree belongs to is described by ghost labels (cid, ord, L): the trees labelled C form one closed cycle of length L <= ntree under tree_asleep, positions counted from tree i (every finite injective closed map decomposes this way; stated mathematical fact)',
        'compiled with the repository switch MJ_DISABLE_DEBUG_TRACING: the debug-log blocks (string formatting into local buffers) are not part of the verified text',
        'model ids in range (body_treeid, body_rootid, body_parentid, dof_bodyid, geom_bodyid, site_bodyid, jnt_bodyid, tendon_treeid, equality object ids, flex vertex/node ranges, tree body/dof ranges): model invariants',
        'wake sweeps: the derived flags tree_awake / body_awake are current at entry (tree_awake[t] == (tree_asleep[t] < 0), dof-less bodies static or awake) - exactly the proved postcondition of mj_updateSleepInit; the engine calls it before the sweeps (call order not under contract)',
        'wake sweeps: domain restriction calls * ntree < 2**31 so that the int counter of woken trees cannot overflow (the true bound - each tree is woken once - needs a counting argument over cycles that the weak view does not carry)',
        'wake sweeps are verified for normal returns: the mjERROR exits ("SHOULD NOT OCCUR" branches: corrupted cycle, contact between two sleeping trees, tendon equality) do not return',
        'mj_wakeCollision: contract domain is geom-geom contacts (con.geom[0..1] >= 0); the flex side lookup mj_flexBody is not under contract',
        'tendonLimit is named by a ghost array in mj_wakeTendon (a pure function of its arguments: its own body is verified separately, assigns nothing)',
        'a file-local static scalar that the translation unit only reads (kAwake) keeps its initialiser: established by a syntactic scan of every function of the unit (vlib/cast.py)',
    }
    chk.out_of_reach += ['"sleeping trees keep bit-identical qpos across steps" and "enabling sleep changes no result while no tree is asleep": whole-pipeline relational claims',
                         'mj_sleep after its countdown sweep (which islands are put to sleep: needs the island maps as permutations) and the body-pair sleep filter of the broad phase (filterBodyPair is under contract in C14; its call sites are not): not under contract',
                         'wake sweeps: that two sleeping trees joined by a newly active equality wake when in different cycles, and that the sweeps wake nothing else than listed, are not stated (weak view of mj_wakeIsland: no cycle description)',
                         'completeness of the index lists of mj_updateSleepInit (every selected body / dof appears): needs an existential witness per element; soundness, order and bounds are proved',
                         'mj_sleepCycle returning the MINIMUM of the cycle (proved: a member of the cycle not above i; the bounded stand-in checks the minimum)']
    return chk.finish()
