"""C18 - sleeping islands: the cycle structure of tree_asleep under the wake / sleep primitives, and the derived arrays."""
import os
from vlib.report import Check
from contracts import sleep

F = 'src/engine/engine_sleep.c'
FLAGS = ['-DMJ_DISABLE_DEBUG_TRACING']      # the repository's own switch: drops the debug-log blocks (formatting only)

NATIVE = r"""
int vf_wake(int* a, int ntree, int i, int w) { int r = -100; VF_TRY({ r = mj_wakeIsland(a, ntree, i, w, NULL, 0); }); return vf_error_flag ? -99 : r; }
int vf_cycle(const int* a, int ntree, int i) { return mj_sleepCycle(a, ntree, i); }
int vf_sleep(int* a, int ntree, const int* tree, int n, double* qvel, double* qacc, int* dofadr, int* dofnum) {
  mjModel m; mjData d; memset(&m, 0, sizeof m); memset(&d, 0, sizeof d);
  m.ntree = ntree; m.tree_dofadr = dofadr; m.tree_dofnum = dofnum; d.tree_asleep = a; d.qvel = qvel; d.qacc = qacc;
  VF_TRY({ mj_sleepTrees(&m, &d, tree, n); });
  return vf_error_flag ? -99 : 0;
}
"""


def native_contract_run(open_obligations=()):
    """the real compiled mj_wakeIsland / mj_sleepCycle / mj_sleepTrees on random cycle structures over small forests,
    against a direct Python model of the property (whole cycle woken, nothing else; new cycle in list order).  Bounded."""
    import ctypes
    import random
    from vlib import native
    lib, d = native.build_so('c18', [F, 'src/engine/engine_util_blas.c'], NATIVE, extra_cflags=FLAGS)
    try:
        rnd = random.Random(int(os.environ.get('VERIF_SEED', '0') or 0))
        runs = 0
        for trial in range(3000):
            n = rnd.randint(1, 9)
            a = [rnd.choice([-1, -5, -11]) for _ in range(n)]
            free = list(range(n))
            rnd.shuffle(free)
            cycles = []
            while free and rnd.random() < 0.7:
                k = rnd.randint(1, min(4, len(free)))
                cyc = [free.pop() for _ in range(k)]
                cycles.append(cyc)
                for j, x in enumerate(cyc):
                    a[x] = cyc[(j + 1) % k]
            i = rnd.randrange(n)
            w = rnd.choice([-1, -3, -11])
            arr = (ctypes.c_int * n)(*a)
            runs += 1
            c = lib.vf_cycle(arr, n, i)
            mine = [cy for cy in cycles if i in cy]
            want_c = min(mine[0]) if mine else -1
            if c != want_c:
                return {'reproduced': True, 'name': 'mj_sleepCycle', 'input': {'tree_asleep': a, 'i': i}, 'observed': c, 'expected': want_c}
            r = lib.vf_wake(arr, n, i, w)
            exp = list(a)
            if mine:
                for x in mine[0]:
                    exp[x] = w
                want_r = len(mine[0])
            else:
                exp[i] = min(w, a[i])
                want_r = 0
            if r != want_r or list(arr) != exp:
                return {'reproduced': True, 'name': 'mj_wakeIsland', 'input': {'tree_asleep': a, 'i': i, 'wakeval': w},
                        'observed': {'result': r, 'tree_asleep': list(arr)}, 'expected': {'result': want_r, 'tree_asleep': exp},
                        'violated_clause': 'a sleeping tree wakes exactly its whole cycle'}
            # sleep a random list of ready (-1) trees
            ready = [x for x in range(n) if a[x] == -1]
            if ready:
                k = rnd.randint(1, len(ready))
                lst = rnd.sample(ready, k)
                arr2 = (ctypes.c_int * n)(*a)
                dofnum = [rnd.randint(0, 2) for _ in range(n)]
                dofadr, tot = [], 0
                for x in range(n):
                    dofadr.append(tot)
                    tot += dofnum[x]
                qv, qa = (ctypes.c_double * max(1, tot))(*([1.5] * max(1, tot))), (ctypes.c_double * max(1, tot))(*([2.5] * max(1, tot)))
                rr = lib.vf_sleep(arr2, n, (ctypes.c_int * k)(*lst), k, qv, qa, (ctypes.c_int * n)(*dofadr), (ctypes.c_int * n)(*dofnum))
                exp2 = list(a)
                for j, x in enumerate(lst):
                    exp2[x] = lst[(j + 1) % k]
                zero = {dofadr[x] + t for x in lst for t in range(dofnum[x])}
                okv = all((qv[j] == 0.0 and qa[j] == 0.0) if j in zero else (qv[j] == 1.5 and qa[j] == 2.5) for j in range(tot))
                if rr != 0 or list(arr2) != exp2 or not okv:
                    return {'reproduced': True, 'name': 'mj_sleepTrees', 'input': {'tree_asleep': a, 'list': lst},
                            'observed': {'rc': rr, 'tree_asleep': list(arr2)}, 'expected': exp2,
                            'violated_clause': 'the listed trees form one new cycle in list order, their dofs are zeroed, nothing else changes'}
        return {'reproduced': False, 'cases_run': runs}
    finally:
        native.cleanup(d)


def main():
    chk = Check('C18')
    chk.native_fallback = native_contract_run
    C = sleep.contracts()
    chk.unit(F, 'mj_sleepCycle', C, 'math', 'fp', extra_flags=FLAGS)
    chk.unit(F, 'mj_wakeIsland', C, 'math', 'fp', extra_flags=FLAGS)
    chk.unit(F, 'treeCanSleep', C, 'math', 'fp', extra_flags=FLAGS)
    chk.unit(F, 'mj_sleepTrees', C, 'math', 'opaque', extra_flags=FLAGS)
    chk.unit(F, 'mj_updateSleepInit', C, 'math', 'opaque', extra_flags=FLAGS)
    chk.unit('src/engine/engine_util_blas.c', 'mju_zero', C, 'math', 'opaque')
    # the wake sweeps, against the weak VIEW of the two primitives (proved against the same bodies, prefix [view])
    W = sleep.wake_contracts()
    chk.unit(F, 'mj_wakeIsland', W, 'math', 'fp', prefix='[view]', extra_flags=FLAGS)
    chk.unit(F, 'mj_sleepCycle', W, 'math', 'fp', prefix='[view]', extra_flags=FLAGS)
    chk.unit('src/engine/engine_core_util.c', 'tendonLimit', {'tendonLimit': sleep.TENDON_LIMIT_BODY}, 'math', 'fp')
    chk.unit('src/engine/engine_util_misc.c', 'mju_fillInt', {'mju_fillInt': sleep.FILL_INT}, 'math', 'opaque')
    for fn in ('mj_wake', 'mj_wakeCollision', 'mj_wakeTendon', 'mj_wakeEquality'):
        chk.unit(F, fn, W, 'math', 'fp', extra_flags=FLAGS)
    import time
    from vlib.report import run_isolated
    t0 = time.time()
    r = run_isolated(lambda n, m, o: native_contract_run([]), '', None, None, timeout=600, crash_is_failure=True)
    chk.bounded.append({'what': 'real compiled mj_sleepCycle / mj_wakeIsland / mj_sleepTrees vs a direct model of the cycle structure',
                        'bound': '3000 seeded random forests of <= 9 trees with random disjoint cycles of length <= 4', 'result': r,
                        'wall_s': round(time.time() - t0, 1), 'counted_as_proved': False})
    if r and r.get('reproduced'):
        chk.native_fallback = None
        chk.external('bounded/native_contract_run', False, 'native(bounded)', time.time() - t0, detail=str(r)[:300], model=r)
    chk.assumptions |= {
        'the cycle a sleeping tree belongs to is described by ghost labels (cid, ord, L): the trees labelled C form one closed cycle of length L <= ntree under tree_asleep, positions counted from tree i (every finite injective closed map decomposes this way; stated mathematical fact)',
        'compiled with the repository switch MJ_DISABLE_DEBUG_TRACING: the debug-log blocks (string formatting into local buffers) are not part of the verified text',
        'model ids in range (body_treeid, body_rootid, body_parentid, dof_bodyid, geom_bodyid, site_bodyid, jnt_bodyid, tendon_treeid, equality object ids, flex vertex/node ranges, tree body/dof ranges): model invariants',
        'wake sweeps: the derived flags tree_awake / body_awake are current at entry (tree_awake[t] == (tree_asleep[t] < 0), dof-less bodies static or awake) - exactly the proved postcondition of mj_updateSleepInit; the engine calls it before the sweeps (call order not under contract)',
        'wake sweeps: domain restriction calls * ntree < 2**31 so that the int counter of woken trees cannot overflow (the true bound - each tree is woken once - needs a counting argument over cycles that the weak view does not carry)',
        'wake sweeps are verified for normal returns: the mjERROR exits ("SHOULD NOT OCCUR" branches: corrupted cycle, contact between two sleeping trees, tendon equality) do not return',
        'mj_wakeCollision: contract domain is geom-geom contacts (con.geom[0..1] >= 0); the flex side lookup mj_flexBody is not under contract',
        'tendonLimit is named by a ghost array in mj_wakeTendon (a pure function of its arguments: its own body is verified separately, assigns nothing)',
        'a file-local static scalar that the translation unit only reads (kAwake) keeps its initialiser: established by a syntactic scan of every function of the unit (vlib/cast.py)',
    }
    chk.out_of_reach += ['"sleeping trees keep bit-identical qpos across steps" and "enabling sleep changes no result while no tree is asleep": whole-pipeline relational claims',
                         'mj_sleep (which islands are put to sleep) and the sleep filter of the collision driver: not under contract',
                         'wake sweeps: that two sleeping trees joined by a newly active equality wake when in different cycles, and that the sweeps wake nothing else than listed, are not stated (weak view of mj_wakeIsland: no cycle description)',
                         'completeness of the index lists of mj_updateSleepInit (every selected body / dof appears): needs an existential witness per element; soundness, order and bounds are proved',
                         'mj_sleepCycle returning the MINIMUM of the cycle (proved: a member of the cycle not above i; the bounded stand-in checks the minimum)']
    return chk.finish()
