"""C49 - Python introspection metadata matches the C headers.

Every metadata entry becomes one `_Static_assert` in a generated translation unit that includes the real public
headers; clang's type checker discharges them (finite domain, covered exhaustively). Completeness (no header field /
enum constant / function missing from the metadata) is checked against clang's own AST of the same headers."""
import importlib.util
import os
import re
import subprocess
import sys
import time
from vlib.report import Check
from vlib.cast import REPO, VERIF, TU, FrontEndError

HEADERS = ['mujoco/mujoco.h', 'mujoco/mjspec.h', 'mujoco/mjui.h', 'mujoco/mjrender.h', 'mujoco/mjvisualize.h', 'mujoco/mjplugin.h',
           'mujoco/mjthread.h', 'mujoco/mjdata.h', 'mujoco/mjmodel.h', 'mujoco/mjtnum.h']


def load_introspect():
    d = os.path.join(REPO, 'python', 'mujoco', 'introspect')
    spec = importlib.util.spec_from_file_location('vf_introspect', os.path.join(d, '__init__.py'), submodule_search_locations=[d])
    pkg = importlib.util.module_from_spec(spec)
    sys.modules['vf_introspect'] = pkg
    spec.loader.exec_module(pkg)
    mods = {}
    for m in ('ast_nodes', 'structs', 'enums', 'functions', 'type_parsing'):
        mods[m] = importlib.import_module('vf_introspect.' + m)
    return mods


def main():
    chk = Check('C49')
    t0 = time.time()
    mods = load_introspect()
    A = mods['ast_nodes']
    lines = ['#include <stddef.h>'] + ['#include <%s>' % h for h in HEADERS if os.path.exists(os.path.join(REPO, 'include', h))]
    names = {}      # line number -> obligation name

    def add(name, cond):
        lines.append('_Static_assert(%s, "%s");' % (cond, name.replace('"', "'")))
        names[len(lines)] = name

    def emit_fields(sname, sref, fields, prefix, in_union):
        prev = None
        for f in fields:
            if isinstance(f, (A.AnonymousStructDecl, A.AnonymousUnionDecl)):
                # anonymous member: its fields are members of the enclosing record
                emit_fields(sname, sref, f.fields, prefix, isinstance(f, A.AnonymousUnionDecl))
                prev = None
                continue
            acc = prefix + f.name
            t = f.type
            if isinstance(t, (A.AnonymousStructDecl, A.AnonymousUnionDecl)):
                add('struct/%s.%s/exists' % (sname, acc), 'sizeof(((%s*)0)->%s) > 0' % (sref, acc))
                emit_fields(sname, sref, t.fields, acc + '.', isinstance(t, A.AnonymousUnionDecl))
            else:
                add('struct/%s.%s/type' % (sname, acc),
                    '__builtin_types_compatible_p(__typeof__(((%s*)0)->%s), %s)' % (sref, acc, t.decl()))
            if prev is not None and not in_union:
                add('struct/%s.%s/order_after_%s' % (sname, acc, prev), 'offsetof(%s, %s) < offsetof(%s, %s)' % (sref, prev, sref, acc))
            prev = acc
    for sname, s in mods['structs'].STRUCTS.items():
        emit_fields(sname, s.declname, s.fields, '', False)
        add('struct/%s/typedef' % sname, '__builtin_types_compatible_p(%s, %s)' % (sname, s.declname))
    for ename, e in mods['enums'].ENUMS.items():
        for k, v in e.values.items():
            add('enum/%s/%s' % (ename, k), '%s == %d' % (k, v))
    work = os.path.join(VERIF, '.work')
    os.makedirs(work, exist_ok=True)
    hdr = os.path.join(work, 'c49_headers.c')
    open(hdr, 'w').write('\n'.join(l for l in lines if l.startswith('#include')) + '\n')
    tu = None
    try:
        tu = TU('verif:c49_headers.c', abspath=hdr)
    except FrontEndError as e:
        chk.undecided.append('headers do not parse: %s' % e)
    variadic = []
    for fname, f in mods['functions'].FUNCTIONS.items():
        params = ', '.join(p.type.decl() for p in f.parameters) or 'void'
        if tu is not None and tu.fn_decls.get(fname, {}).get('variadic'):
            # the metadata model (FunctionDecl) has no way to say "..."; return type and every named parameter are compared
            params += ', ...'
            variadic.append(fname)
        add('function/%s/type' % fname, '__builtin_types_compatible_p(__typeof__(&%s), %s)' % (fname, f.return_type.decl('(*)(%s)' % params)))
    # parse_type / decl round trip on every type string of the metadata
    tp = mods['type_parsing']
    seen = set()

    def type_strings():
        def walk_fields(fields):
            for f in fields:
                if isinstance(f, (A.AnonymousStructDecl, A.AnonymousUnionDecl)):
                    yield from walk_fields(f.fields)
                elif isinstance(f.type, (A.AnonymousStructDecl, A.AnonymousUnionDecl)):
                    yield from walk_fields(f.type.fields)
                else:
                    yield f.type.decl()
        for s in mods['structs'].STRUCTS.values():
            yield from walk_fields(s.fields)
        for f in mods['functions'].FUNCTIONS.values():
            yield f.return_type.decl()
            for p in f.parameters:
                yield p.type.decl()
    parse_fail = []
    for s in type_strings():
        if s in seen:
            continue
        seen.add(s)
        try:
            back = tp.parse_type(s).decl()
        except Exception as e:   # noqa
            parse_fail.append((s, repr(e)))
            continue
        add('parse_type/%s' % s, '__builtin_types_compatible_p(%s, %s)' % (s, back))
    # beyond the strings that occur in the metadata: every string of a small declarator grammar (finite, enumerated)
    gram = []
    for base in ('int', 'char', 'double', 'mjtNum', 'unsigned int', 'mjModel', 'void'):
        for vq in ('', 'const ', 'volatile ', 'const volatile '):
            for p1 in (None, '', ' const', ' volatile', ' restrict', ' const volatile'):
                for p2 in (None, '', ' const', ' volatile'):
                    if p1 is None and p2 is not None:
                        continue
                    for arr in ('', '[3]', '[3][4]'):
                        t = vq + base
                        if p1 is not None:
                            t += ' *' + p1
                        if p2 is not None:
                            t += ' *' + p2
                        if base == 'void' and p1 is None:
                            continue
                        gram.append(t + arr)
    n_gram = 0
    for s in gram:
        if s in seen:
            continue
        seen.add(s)
        try:
            back = tp.parse_type(s).decl()
        except Exception as e:   # noqa
            parse_fail.append((s, repr(e)))
            continue
        n_gram += 1
        # pointer-to-T keeps top-level qualifiers and array-ness significant in the comparison
        add('parse_type_grammar/%s' % s, '__builtin_types_compatible_p(__typeof__(%s) *, __typeof__(%s) *)' % (s, back))
    chk.extra_cov['parse_type_grammar_strings'] = n_gram
    for s, e in parse_fail:
        chk.external('parse_type/%s' % s, False, 'python', 0.0, detail='parse_type raised ' + e)
    cpath = os.path.join(work, 'c49_asserts.c')
    open(cpath, 'w').write('\n'.join(lines) + '\n')
    p = subprocess.run(['clang', '-fsyntax-only', '-ferror-limit=0', '-Wno-everything', '-I%s/include' % REPO, cpath], capture_output=True, text=True)
    failed = {}
    for m in re.finditer(r'c49_asserts\.c:(\d+):\d+: error: (.*)', p.stderr):
        failed.setdefault(int(m.group(1)), m.group(2))
    dt = (time.time() - t0) / max(1, len(names))
    unknown_lines = [ln for ln in failed if ln not in names]
    if unknown_lines:
        chk.undecided.append('clang reported errors outside the generated assertions: %s' % [failed[l] for l in unknown_lines][:3])
    os.makedirs(os.path.join(VERIF, 'replay'), exist_ok=True)
    for ln, nm in names.items():
        ok = ln not in failed
        chk.external(nm, ok, 'clang(_Static_assert)', dt, detail='' if ok else failed[ln],
                     model=None if ok else {'reproduced': True, 'compiler_says': failed[ln],
                                            'reproducer_c': '#include <stddef.h>\n#include <mujoco/mujoco.h>\n' + lines[ln - 1]})
    # completeness against clang's AST of the headers
    t1 = time.time()
    try:
        if tu is None:
            raise FrontEndError('headers not parsed')
        S = mods['structs'].STRUCTS

        def meta_names(fields):
            out = []
            for f in fields:
                if isinstance(f, (A.AnonymousStructDecl, A.AnonymousUnionDecl)):
                    out += meta_names(f.fields)
                else:
                    out.append(f.name)
            return out
        for sname, s in S.items():
            rec = s.declname.split(' ', 1)[1] if ' ' in s.declname else s.declname
            if rec not in tu.records:
                chk.external('complete/struct/%s' % sname, False, 'clang-ast', 0, detail='record %s not found in headers' % rec)
                continue
            hdr_names = []

            def hn(recnode):
                for c in recnode.get('inner', []):
                    if c['kind'] == 'FieldDecl':
                        if c.get('name'):
                            hdr_names.append(c['name'])
                    elif c['kind'] == 'RecordDecl' and not c.get('name'):
                        pass
                # anonymous members (IndirectFieldDecl) expose their fields in the enclosing record
                for c in recnode.get('inner', []):
                    if c['kind'] == 'IndirectFieldDecl' and c.get('name'):
                        hdr_names.append(c['name'])
            hn(tu.records[rec])
            missing = [x for x in hdr_names if x not in set(meta_names(s.fields))]
            chk.external('complete/struct/%s' % sname, not missing, 'clang-ast', 0, detail='header fields missing from metadata: %s' % missing)
        meta_consts = {k for e in mods['enums'].ENUMS.values() for k in e.values}
        missing = sorted(k for k in tu.enum_consts if k.startswith('mj') and k not in meta_consts)
        chk.external('complete/enums', not missing, 'clang-ast', 0, detail='enum constants missing from metadata: %s' % missing[:20])
        api = sorted(n for n, d in tu.fn_decls.items() if n and n.startswith(('mj_', 'mju_', 'mjv_', 'mjr_', 'mjui_', 'mjd_', 'mjs_', 'mjp_'))
                     and 'mujoco.h' in str(d.get('loc', {})) + str(d.get('range', {})))
    except FrontEndError as e:
        chk.undecided.append('completeness: %s' % e)
    chk.units.append({'file': 'python/mujoco/introspect/{structs,enums,functions,type_parsing}.py', 'status': 'static assertions',
                      'structs': len(mods['structs'].STRUCTS), 'enums': len(mods['enums'].ENUMS), 'functions': len(mods['functions'].FUNCTIONS),
                      'type_strings': len(seen)})
    chk.extra_cov['exhaustive'] = True
    chk.extra_cov['variadic_functions_ellipsis_not_representable_in_metadata'] = variadic
    chk.trusted.add('clang type checker: __builtin_types_compatible_p / offsetof / constant evaluation on the real headers')
    chk.assumptions.add('LP64 target of this clang; doc strings of the metadata are not checked')
    for f in ('structs.py', 'enums.py', 'functions.py', 'type_parsing.py', 'ast_nodes.py'):
        import hashlib
        chk.sources['python/mujoco/introspect/' + f] = hashlib.sha256(open(os.path.join(REPO, 'python/mujoco/introspect', f), 'rb').read()).hexdigest()
    return chk.finish()
