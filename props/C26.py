"""C26 - the state vector API is a faithful serialization."""
import ctypes
import time
from vlib.report import Check
from vlib import native
from contracts import state

FILE = 'src/engine/engine_support.c'

HARNESS = r'''
static mjModel M; static mjData D, D2;
static mjtNum* arr(int n, int seed) { mjtNum* p = calloc(n > 0 ? n : 1, sizeof(mjtNum)); for (int i = 0; i < n; i++) p[i] = seed * 1000 + i + 0.5; return p; }
static void mk(mjData* d, int s) {
  memset(d, 0, sizeof *d); d->time = s + 0.25;
  d->qpos = arr(M.nq, s+1); d->qvel = arr(M.nv, s+2); d->act = arr(M.na, s+3); d->history = arr(M.nhistory, s+4);
  d->qacc_warmstart = arr(M.nv, s+5); d->ctrl = arr(M.nu, s+6); d->qfrc_applied = arr(M.nv, s+7);
  d->xfrc_applied = arr(6*M.nbody, s+8); d->mocap_pos = arr(3*M.nmocap, s+10); d->mocap_quat = arr(4*M.nmocap, s+11);
  d->userdata = arr(M.nuserdata, s+12); d->plugin_state = arr(M.npluginstate, s+13);
  d->qacc = arr(M.nv, s+14); d->act_dot = arr(M.na, s+15); d->tree_asleep = calloc(4, sizeof(int));
  d->eq_active = calloc(M.neq + 1, 1); for (int i = 0; i < M.neq; i++) d->eq_active[i] = (s + i) & 1;
}
// bounded stand-in: for EVERY pair dstsig subset-of srcsig (3^14 pairs) on one model with all sizes > 0 and distinct:
// extractState(getState(d, srcsig), srcsig, dstsig) == getState(d, dstsig), and nothing past stateSize(dstsig) is written.
long vf_extract_all(long* npairs) {
  memset(&M, 0, sizeof M);
  M.nq = 3; M.nv = 2; M.na = 1; M.nhistory = 4; M.nu = 2; M.nbody = 2; M.neq = 3; M.nmocap = 1; M.nuserdata = 2; M.npluginstate = 3;
  mk(&D, 1);
  int full = (1 << mjNSTATE) - 1, nmax = mj_stateSize(&M, full);
  mjtNum* a = calloc(nmax + 4, sizeof(mjtNum)); mjtNum* b = calloc(nmax + 4, sizeof(mjtNum)); mjtNum* c = calloc(nmax + 4, sizeof(mjtNum));
  long bad = 0, n = 0;
  for (int src = 0; src <= full; src++) {
    mj_getState(&M, &D, a, src);
    for (int dst = src;; dst = (dst - 1) & src) {
      int sz = mj_stateSize(&M, dst);
      for (int i = 0; i < nmax + 4; i++) { b[i] = -7; c[i] = -7; }
      mj_extractState(&M, a, src, b, dst);
      mj_getState(&M, &D, c, dst);
      for (int i = 0; i < nmax + 4; i++) if (b[i] != c[i]) { bad++; break; }
      n++;
      if (dst == 0) break;
    }
  }
  *npairs = n; return bad;
}
'''


def bounded_extract(chk):
    t0 = time.time()
    try:
        lib, d = native.build_so('c26', [FILE, 'src/engine/engine_util_blas.c'], HARNESS, extra_cflags=['-O1'])
    except Exception as e:   # noqa
        chk.undecided.append('bounded stand-in for mj_extractState could not be built: %r' % e)
        return
    try:
        lib.vf_extract_all.restype = ctypes.c_long
        n = ctypes.c_long(0)
        bad = lib.vf_extract_all(ctypes.byref(n))
    finally:
        native.cleanup(d)
    chk.bounded.append({'what': 'mj_extractState content clause (extract == getState with the sub-signature)',
                        'bound': 'one model (nq=3,nv=2,na=1,nhistory=4,nu=2,nbody=2,neq=3,nmocap=1,nuserdata=2,npluginstate=3), '
                                 'ALL %d pairs dstsig subset-of srcsig, real compiled code' % n.value,
                        'failures': int(bad), 'wall_s': round(time.time() - t0, 1), 'counted_as_proved': False})
    if bad:
        chk.external('bounded/mj_extractState/content', False, 'native-exhaustive(bounded)', time.time() - t0,
                     detail='%d of %d signature pairs differ from mj_getState with the sub-signature' % (bad, n.value))


def gen_reference_c():
    """reference (de)serialiser generated from the documented component TABLE (independent of engine_support.c)."""
    T = state.TABLE
    lines = ['static int ref_size(int sig) { int n = 0;']
    for b, f, ln, kind in T:
        lines.append('  if (sig & (1 << %d)) n += %s;' % (b, ln.replace('m.', 'M.')))
    lines.append('  return n; }')
    lines.append('static void ref_get(const mjData* d, mjtNum* s, int sig) { int a = 0;')
    for b, f, ln, kind in T:
        L = ln.replace('m.', 'M.')
        if kind == 'scalar':
            lines.append('  if (sig & (1 << %d)) s[a++] = d->time;' % b)
        else:
            lines.append('  if (sig & (1 << %d)) { for (int k = 0; k < %s; k++) s[a + k] = d->%s[k]; a += %s; }' % (b, L, f, L))
    lines.append('}')
    lines.append('static int same_comp(const mjData* x, const mjData* y, int b) {')
    for b, f, ln, kind in T:
        L = ln.replace('m.', 'M.')
        if kind == 'scalar':
            lines.append('  if (b == %d) return x->time == y->time;' % b)
        else:
            lines.append('  if (b == %d) { for (int k = 0; k < %s; k++) if (x->%s[k] != y->%s[k]) return 0; return 1; }' % (b, L, f, f))
    lines.append('  return 1; }')
    return '\n'.join(lines)


NATIVE_RUN = r'''
// harness-only definition (sleep bookkeeping is irrelevant to what is checked here)
void mj_updateSleep(const mjModel* m, mjData* d) { (void)m; (void)d; }

// native contract run: ALL 2^14 signatures on one small model, spec = reference serialiser generated from the documented table
int vf_sig = -1; char vf_what[128];
static int fail(const char* w, int sig) { vf_sig = sig; snprintf(vf_what, sizeof vf_what, "%s", w); return 1; }
int vf_contract_run(void) {
  memset(&M, 0, sizeof M);
  M.nq = 3; M.nv = 2; M.na = 1; M.nhistory = 4; M.nu = 2; M.nbody = 2; M.neq = 3; M.nmocap = 1; M.nuserdata = 2; M.npluginstate = 3;
  int full = (1 << mjNSTATE) - 1, nmax = ref_size(full);
  mjtNum* a = calloc(nmax + 4, sizeof(mjtNum)); mjtNum* r = calloc(nmax + 4, sizeof(mjtNum));
  static mjData A, B, B0, C;
  for (int sig = 0; sig <= full; sig++) {
    mk(&A, 1); mk(&B, 50); mk(&B0, 50); mk(&C, 50);
    if (mj_stateSize(&M, sig) != ref_size(sig)) return fail("mj_stateSize != sum of selected component sizes", sig);
    for (int i = 0; i < nmax + 4; i++) { a[i] = -7; r[i] = -7; }
    mj_getState(&M, &A, a, sig); ref_get(&A, r, sig);
    for (int i = 0; i < nmax + 4; i++) if (a[i] != r[i]) return fail("mj_getState differs from the documented layout (or writes outside [0,stateSize))", sig);
    mj_setState(&M, &B, a, sig);
    mj_copyState(&M, &A, &C, sig);
    for (int b = 0; b < mjNSTATE; b++) {
      if (sig & (1 << b)) { if (!same_comp(&B, &A, b)) return fail("mj_setState(mj_getState(d)) does not restore a selected component", sig);
                            if (!same_comp(&C, &A, b)) return fail("mj_copyState does not copy a selected component", sig); }
      else { if (!same_comp(&B, &B0, b)) return fail("mj_setState modifies a component that is not selected", sig);
             if (!same_comp(&C, &B0, b)) return fail("mj_copyState modifies a component that is not selected", sig); }
    }
  }
  // keyframes: store d into key k, load it back into a different mjData
  M.nkey = 3;
  M.key_time = arr(M.nkey, 20); M.key_qpos = arr(M.nkey*M.nq, 21); M.key_qvel = arr(M.nkey*M.nv, 22); M.key_act = arr(M.nkey*M.na, 23);
  M.key_mpos = arr(M.nkey*3*M.nmocap, 24); M.key_mquat = arr(M.nkey*4*M.nmocap, 25); M.key_ctrl = arr(M.nkey*M.nu, 26);
  for (int k = 0; k < M.nkey; k++) {
    mk(&A, 7 + k);
    mj_setKeyframe(&M, &A, k);
    if (M.key_time[k] != A.time) return fail("mj_setKeyframe: time", k);
    for (int j = 0; j < M.nq; j++) if (M.key_qpos[k*M.nq + j] != A.qpos[j]) return fail("mj_setKeyframe: qpos", k);
    for (int j = 0; j < 4*M.nmocap; j++) if (M.key_mquat[k*4*M.nmocap + j] != A.mocap_quat[j]) return fail("mj_setKeyframe: mocap_quat", k);
    for (int j = 0; j < 3*M.nmocap; j++) if (M.key_mpos[k*3*M.nmocap + j] != A.mocap_pos[j]) return fail("mj_setKeyframe: mocap_pos", k);
  }
  // load key k into a dirty mjData: time/qpos/qvel/act/mocap/ctrl must equal row k of the key arrays
  M.opt.timestep = 0.01; M.eq_active0 = calloc(M.neq + 1, 1);
  M.dof_bodyid = calloc(M.nv + 1, sizeof(int)); M.D_rownnz = calloc(M.nv + 1, sizeof(int)); M.B_rownnz = calloc(M.nbody + 1, sizeof(int));
  M.D_rowadr = calloc(M.nv + 1, sizeof(int)); M.B_rowadr = calloc(M.nbody + 1, sizeof(int));
  for (int k = 0; k < M.nkey; k++) {
    mk(&B, 90 + k);
    mj_resetDataKeyframe(&M, &B, k);
    if (B.time != M.key_time[k]) return fail("mj_resetDataKeyframe: time", k);
    for (int j = 0; j < M.nq; j++) if (B.qpos[j] != M.key_qpos[k*M.nq + j]) return fail("mj_resetDataKeyframe: qpos", k);
    for (int j = 0; j < M.nv; j++) if (B.qvel[j] != M.key_qvel[k*M.nv + j]) return fail("mj_resetDataKeyframe: qvel", k);
    for (int j = 0; j < M.na; j++) if (B.act[j] != M.key_act[k*M.na + j]) return fail("mj_resetDataKeyframe: act", k);
    for (int j = 0; j < 3*M.nmocap; j++) if (B.mocap_pos[j] != M.key_mpos[k*3*M.nmocap + j]) return fail("mj_resetDataKeyframe: mocap_pos", k);
    for (int j = 0; j < 4*M.nmocap; j++) if (B.mocap_quat[j] != M.key_mquat[k*4*M.nmocap + j]) return fail("mj_resetDataKeyframe: mocap_quat", k);
    for (int j = 0; j < M.nu; j++) if (B.ctrl[j] != M.key_ctrl[k*M.nu + j]) return fail("mj_resetDataKeyframe: ctrl", k);
  }
  return 0;
}
'''


def native_contract_run(open_obligations):
    lib, d = native.build_so('c26run', [FILE, 'src/engine/engine_util_blas.c', 'src/engine/engine_io.c', 'src/engine/engine_util_misc.c'],
                            HARNESS + gen_reference_c() + NATIVE_RUN, extra_cflags=['-O1'])
    try:
        bad = lib.vf_contract_run()
        if not bad:
            return {'reproduced': False, 'explored': 'all 16384 signatures on one small model: no failure'}
        sig = ctypes.c_int.in_dll(lib, 'vf_sig').value
        what = ctypes.create_string_buffer(128)
        ctypes.memmove(what, ctypes.addressof(ctypes.c_char.in_dll(lib, 'vf_what')), 128)
        return {'reproduced': True, 'name': 'state_api', 'input': {'sig_or_key': sig, 'model_sizes': 'nq=3 nv=2 na=1 nhistory=4 nu=2 nbody=2 neq=3 nmocap=1 nuserdata=2 npluginstate=3'},
                'observed': what.value.decode(), 'open_obligations': open_obligations[:20]}
    finally:
        native.cleanup(d)


def main():
    chk = Check('C26')
    chk.native_fallback = native_contract_run
    C = state.CONTRACTS
    chk.unit('src/engine/engine_util_blas.c', 'mju_copy', C, 'math', 'opaque')
    for fn in ('mj_stateSize', 'mj_getState', 'mj_setState', 'mj_copyState', 'mj_extractState'):
        chk.unit(FILE, fn, C, 'math', 'opaque')
    chk.unit(FILE, 'mj_setKeyframe', C, 'math', 'opaque')
    chk.unit('src/engine/engine_io.c', 'mj_resetDataKeyframe', C, 'math', 'opaque')
    import os
    shim = os.path.join(os.path.dirname(os.path.dirname(os.path.abspath(__file__))), 'shims', 'c26_client.c')
    chk.unit('verif:shims/c26_client.c', 'c26_roundtrip', C, 'math', 'opaque', abspath=shim)
    chk.assumptions.add('IEEE fact used by the round-trip lemma only: (mjtNum)0 == 0.0 and (mjtNum)1 != 0.0')
    bounded_extract(chk)
    # the native contract run doubles as a bounded stand-in on every run (never counted as proved)
    t0 = time.time()
    from vlib.report import run_isolated
    r = run_isolated(lambda n, m, o: native_contract_run([]), '', None, None, timeout=600, crash_is_failure=False)
    chk.bounded.append({'what': 'state API vs reference serialiser generated from the documented table; keyframe store/load',
                        'bound': 'one small model, all 16384 signatures, 3 keyframes; real compiled code', 'result': r,
                        'wall_s': round(time.time() - t0, 1), 'counted_as_proved': False})
    if r and r.get('reproduced'):
        chk.native_fallback = None
        chk.external('bounded/native_contract_run', False, 'native-exhaustive(bounded)', time.time() - t0, detail=str(r), model=r)
    chk.assumptions.add('model invariant: all size fields >= 0 and <= 2^24 (so no int sum of state sizes overflows); '
                        'the 13 component arrays of mjData are distinct objects with the lengths of the documented table')
    return chk.finish()
