"""C26 - the state vector API is a faithful serialization."""
import ctypes
import time
from vlib.report import Check
from vlib import native
from contracts import state

FILE = 'src/engine/engine_support.c'

HARNESS = r'''
static mjModel M; static mjData D, D2;
static mjtNum* arr(int n, int seed) { mjtNum* p = calloc(n > 0 ? n : 1, sizeof(mjtNum)); for (int i = 0; i < n; i++) p[i] = seed * 1000 + i + 0.5; return p; }
static void mk(mjData* d, int s) {
  memset(d, 0, sizeof *d); d->time = s + 0.25;
  d->qpos = arr(M.nq, s+1); d->qvel = arr(M.nv, s+2); d->act = arr(M.na, s+3); d->history = arr(M.nhistory, s+4);
  d->qacc_warmstart = arr(M.nv, s+5); d->ctrl = arr(M.nu, s+6); d->qfrc_applied = arr(M.nv, s+7);
  d->xfrc_applied = arr(6*M.nbody, s+8); d->mocap_pos = arr(3*M.nmocap, s+10); d->mocap_quat = arr(4*M.nmocap, s+11);
  d->userdata = arr(M.nuserdata, s+12); d->plugin_state = arr(M.npluginstate, s+13);
  d->eq_active = calloc(M.neq + 1, 1); for (int i = 0; i < M.neq; i++) d->eq_active[i] = (s + i) & 1;
}
// bounded stand-in: for EVERY pair dstsig subset-of srcsig (3^14 pairs) on one model with all sizes > 0 and distinct:
// extractState(getState(d, srcsig), srcsig, dstsig) == getState(d, dstsig), and nothing past stateSize(dstsig) is written.
long vf_extract_all(long* npairs) {
  memset(&M, 0, sizeof M);
  M.nq = 3; M.nv = 2; M.na = 1; M.nhistory = 4; M.nu = 2; M.nbody = 2; M.neq = 3; M.nmocap = 1; M.nuserdata = 2; M.npluginstate = 3;
  mk(&D, 1);
  int full = (1 << mjNSTATE) - 1, nmax = mj_stateSize(&M, full);
  mjtNum* a = calloc(nmax + 4, sizeof(mjtNum)); mjtNum* b = calloc(nmax + 4, sizeof(mjtNum)); mjtNum* c = calloc(nmax + 4, sizeof(mjtNum));
  long bad = 0, n = 0;
  for (int src = 0; src <= full; src++) {
    mj_getState(&M, &D, a, src);
    for (int dst = src;; dst = (dst - 1) & src) {
      int sz = mj_stateSize(&M, dst);
      for (int i = 0; i < nmax + 4; i++) { b[i] = -7; c[i] = -7; }
      mj_extractState(&M, a, src, b, dst);
      mj_getState(&M, &D, c, dst);
      for (int i = 0; i < nmax + 4; i++) if (b[i] != c[i]) { bad++; break; }
      n++;
      if (dst == 0) break;
    }
  }
  *npairs = n; return bad;
}
'''


def bounded_extract(chk):
    t0 = time.time()
    try:
        lib, d = native.build_so('c26', [FILE, 'src/engine/engine_util_blas.c'], HARNESS, extra_cflags=['-O1'])
    except Exception as e:   # noqa
        chk.undecided.append('bounded stand-in for mj_extractState could not be built: %r' % e)
        return
    try:
        lib.vf_extract_all.restype = ctypes.c_long
        n = ctypes.c_long(0)
        bad = lib.vf_extract_all(ctypes.byref(n))
    finally:
        native.cleanup(d)
    chk.bounded.append({'what': 'mj_extractState content clause (extract == getState with the sub-signature)',
                        'bound': 'one model (nq=3,nv=2,na=1,nhistory=4,nu=2,nbody=2,neq=3,nmocap=1,nuserdata=2,npluginstate=3), '
                                 'ALL %d pairs dstsig subset-of srcsig, real compiled code' % n.value,
                        'failures': int(bad), 'wall_s': round(time.time() - t0, 1), 'counted_as_proved': False})
    if bad:
        chk.external('bounded/mj_extractState/content', False, 'native-exhaustive(bounded)', time.time() - t0,
                     detail='%d of %d signature pairs differ from mj_getState with the sub-signature' % (bad, n.value))


def main():
    chk = Check('C26')
    C = state.CONTRACTS
    chk.unit('src/engine/engine_util_blas.c', 'mju_copy', C, 'math', 'opaque')
    for fn in ('mj_stateSize', 'mj_getState', 'mj_setState', 'mj_copyState', 'mj_extractState'):
        chk.unit(FILE, fn, C, 'math', 'opaque')
    chk.unit(FILE, 'mj_setKeyframe', C, 'math', 'opaque')
    chk.unit('src/engine/engine_io.c', 'mj_resetDataKeyframe', C, 'math', 'opaque')
    import os
    shim = os.path.join(os.path.dirname(os.path.dirname(os.path.abspath(__file__))), 'shims', 'c26_client.c')
    chk.unit('verif:shims/c26_client.c', 'c26_roundtrip', C, 'math', 'opaque', abspath=shim)
    chk.assumptions.add('IEEE fact used by the round-trip lemma only: (mjtNum)0 == 0.0 and (mjtNum)1 != 0.0')
    bounded_extract(chk)
    chk.assumptions.add('model invariant: all size fields >= 0 and <= 2^24 (so no int sum of state sizes overflows); '
                        'the 13 component arrays of mjData are distinct objects with the lengths of the documented table')
    return chk.finish()
