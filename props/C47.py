"""C47 - system-identification inertia parameters are always physical (log-Cholesky parameterisation)."""
import hashlib
import os
import numpy as np
import z3
from vlib.report import Check
from vlib.symex import Obligation
from vlib import pytrace as pt
from vlib.cast import REPO

REL = 'python/mujoco/sysid/_src/model_modifier.py'
NAMES = ['alpha', 'd1', 'd2', 'd3', 's12', 's23', 's13', 't1', 't2', 't3']


def numeric_replay(name, model, ob):
    """run the real functions on concrete doubles (the solver's theta first, then seeded random vectors) and test the
    property's clauses numerically"""
    import random
    path = os.path.join(REPO, REL)
    mm = pt.load_with_stubs(path, 'vf_model_modifier_num', ['mujoco', 'mujoco.sysid', 'mujoco.sysid._src', 'mujoco.sysid._src.parameter'])
    rnd = random.Random(int(os.environ.get('VERIF_SEED', '0') or 0))

    def val(v):
        try:
            return float(eval(str(v).replace('?', ''))) if not isinstance(v, (int, float)) else float(v)
        except Exception:   # noqa
            return 0.0
    cands = [[max(-3.0, min(3.0, val((model or {}).get(n, 0)))) for n in NAMES]] + [[rnd.uniform(-2, 2) for _ in NAMES] for _ in range(200)]
    for th in cands:
        th = np.array(th)
        try:
            pi = mm.pi_from_theta(th)
            J = mm.pseudoinertia_from_pi(pi)
            I = np.array(pi[4:], dtype=float).reshape(3, 3)
            bad = []
            if not pi[0] > 0:
                bad.append('mass not positive')
            if np.min(np.linalg.eigvalsh((J + J.T) / 2)) <= 0:
                bad.append('pseudo-inertia not positive definite')
            if not (I[0, 0] + I[1, 1] > I[2, 2] and I[1, 1] + I[2, 2] > I[0, 0] and I[2, 2] + I[0, 0] > I[1, 1]):
                bad.append('triangle inequality violated')
            if not bad:
                th2 = mm.theta_from_pseudoinertia(J)
                if not np.allclose(th2, th, rtol=1e-6, atol=1e-6):
                    bad.append('round trip returns %s' % list(np.round(th2, 6)))
        except Exception as e:      # noqa
            bad = ['exception %r' % e]
        if bad:
            return {'reproduced': True, 'input': {'theta': [float(x) for x in th]}, 'observed': bad, 'ran': 'real pi_from_theta / pseudoinertia_from_pi / theta_from_pseudoinertia on doubles'}
    return {'reproduced': False, 'tried': len(cands)}


def main():
    chk = Check('C47')
    path = os.path.join(REPO, REL)
    chk.sources[REL] = hashlib.sha256(open(path, 'rb').read()).hexdigest()
    try:
        mm = pt.load_with_stubs(path, 'vf_model_modifier', ['mujoco', 'mujoco.sysid', 'mujoco.sysid._src', 'mujoco.sysid._src.parameter'])
        fns = [mm.pi_from_theta, mm.pseudoinertia_from_pi, mm.theta_from_pseudoinertia]
    except Exception as e:      # noqa
        chk.undecided.append('cannot import %s with stubbed third-party packages: %r' % (REL, e))
        return chk.finish()
    for f in fns:
        bad = pt.value_independent(f)
        if bad:
            chk.undecided.append('%s is not value-independent straight-line code any more (%s): out of reach of tracing' % (f.__name__, ', '.join(bad)))
            return chk.finish()
    tr = pt.Tracer()
    theta = np.array([tr.sym(n) for n in NAMES], dtype=object)
    obs = []

    def ob(name, goal, extra=()):
        obs.append(Obligation(name, list(tr.facts) + list(extra), goal, 'post', {'replayer': numeric_replay}))
    try:
        with pt.patched_numpy():
            pi = mm.pi_from_theta(theta)                    # REAL function, executed on symbolic scalars
            J = mm.pseudoinertia_from_pi(pi)                # REAL function
    except Exception as e:      # noqa
        chk.undecided.append('tracing failed: %r' % e)
        return chk.finish()
    T = lambda x: x.t if isinstance(x, pt.Sym) else tr.lift(x)
    ea, e1, e2, e3 = [tr.exp(z3.Real(n)) for n in ('alpha', 'd1', 'd2', 'd3')]
    s12, s23, s13, t1, t2, t3 = [z3.Real(n) for n in NAMES[4:]]
    # the upper-triangular factor the documentation of pi_from_theta describes (specification side)
    U = [[e1 * ea, s12 * ea, s13 * ea, t1 * ea], [0, e2 * ea, s23 * ea, t2 * ea], [0, 0, e3 * ea, t3 * ea], [0, 0, 0, ea]]
    UUt = [[sum(U[i][k] * U[j][k] for k in range(4)) for j in range(4)] for i in range(4)]
    ob('pi_from_theta/layout(13 entries: m, h, I flattened)', z3.BoolVal(len(pi) == 13))
    m = T(pi[0])
    ob('pi_from_theta/mass_positive', m > 0)
    ob('pi_from_theta/mass_is_exp(2 alpha)', m == ea * ea)
    for i in range(4):
        for j in range(4):
            ob('pseudoinertia_from_pi(pi_from_theta(theta))/equals_U_Ut[%d,%d]' % (i, j), T(J[i][j]) == UUt[i][j])
    # positive definiteness of J = U U^T: U^T v = 0 forces v = 0 (so v^T J v = |U^T v|^2 > 0 for v != 0)
    v = [z3.Real('v%d' % i) for i in range(4)]
    Utv = [sum(U[i][k] * v[i] for i in range(4)) for k in range(4)]
    ob('pseudoinertia/positive_definite(kernel of U^T is trivial)', z3.And(*[x == 0 for x in v]), [x == 0 for x in Utv])
    quad = sum(T(J[i][j]) * v[i] * v[j] for i in range(4) for j in range(4))
    ob('pseudoinertia/quadratic_form_is_a_sum_of_squares', quad == sum(x * x for x in Utv))
    # triangle inequalities of the rotational inertia I = tr(S) 1 - S
    I = [[T(pi[4 + 3 * i + j]) for j in range(3)] for i in range(3)]
    ob('inertia/triangle_xx_yy_zz', I[0][0] + I[1][1] > I[2][2])
    ob('inertia/triangle_yy_zz_xx', I[1][1] + I[2][2] > I[0][0])
    ob('inertia/triangle_zz_xx_yy', I[2][2] + I[0][0] > I[1][1])
    ob('inertia/diagonal_positive', z3.And(I[0][0] > 0, I[1][1] > 0, I[2][2] > 0))
    ob('inertia/symmetric', z3.And(I[0][1] == I[1][0], I[0][2] == I[2][0], I[1][2] == I[2][1]))
    # round trip.  np.linalg.cholesky is external (LAPACK): assumed to return a lower-triangular factor with positive
    # diagonal of the (index-reversed) matrix.  (a) such a factor is unique, so cholesky_decompose_upper(J) is U;
    Vs = {(i, j): z3.Real('V%d%d' % (i, j)) for i in range(4) for j in range(i, 4)}
    V = [[Vs.get((i, j), z3.RealVal(0)) for j in range(4)] for i in range(4)]
    VVt = [[sum(V[i][k] * V[j][k] for k in range(4)) for j in range(4)] for i in range(4)]
    hyp = [V[i][i] > 0 for i in range(4)] + [VVt[i][j] == UUt[i][j] for i in range(4) for j in range(i, 4)]
    for i in range(3, -1, -1):
        for j in range(3, i - 1, -1):
            ob('round_trip/upper_cholesky_factor_unique[%d,%d]' % (i, j), V[i][j] == U[i][j], hyp)
    # (a') the REAL cholesky_decompose_upper, traced with np.linalg.cholesky replaced by its assumed contract (a symbolic
    #      triangular factor F of its argument, positive diagonal: F F^T == A, or F^T F == A when called with upper=True),
    #      must return an upper-triangular W with positive diagonal and W W^T == J
    chol_facts = []

    def fake_cholesky(A, upper=False):
        n = A.shape[0]
        Fm = np.zeros((n, n), dtype=object)
        for i in range(n):
            for j in range(n):
                if (j <= i and not upper) or (j >= i and upper):
                    Fm[i, j] = pt.Sym(z3.Real('chol_%d%d' % (i, j)), tr)
        Ft = lambda i, j: T(Fm[i, j]) if isinstance(Fm[i, j], pt.Sym) else z3.RealVal(0)
        for i in range(n):
            chol_facts.append(Ft(i, i) > 0)
            for j in range(n):
                prod = sum(Ft(k, i) * Ft(k, j) for k in range(n)) if upper else sum(Ft(i, k) * Ft(j, k) for k in range(n))
                chol_facts.append(prod == T(A[i, j]))
        return Fm
    saved_chol = np.linalg.cholesky
    try:
        np.linalg.cholesky = fake_cholesky
        with pt.patched_numpy():
            W = mm.cholesky_decompose_upper(J)
        Wt = lambda i, j: T(W[i, j]) if isinstance(W[i, j], pt.Sym) else tr.lift(W[i, j])
        for i in range(4):
            ob('cholesky_decompose_upper/positive_diagonal[%d]' % i, Wt(i, i) > 0, chol_facts)
            for j in range(4):
                if j < i:
                    ob('cholesky_decompose_upper/upper_triangular[%d,%d]' % (i, j), Wt(i, j) == 0, chol_facts)
                ob('cholesky_decompose_upper/W_Wt_equals_J[%d,%d]' % (i, j), sum(Wt(i, k) * Wt(j, k) for k in range(4)) == T(J[i][j]), chol_facts)
    except Exception as e:      # noqa
        chk.undecided.append('tracing cholesky_decompose_upper failed: %r' % e)
    finally:
        np.linalg.cholesky = saved_chol
    # (b) with that factor, the REAL theta_from_pseudoinertia returns theta (np.log assumed inverse of np.exp)
    Uarr = np.array([[pt.Sym(z3.simplify(tr.lift(0) + U[i][j]) if not isinstance(U[i][j], int) else z3.RealVal(0), tr) for j in range(4)] for i in range(4)], dtype=object)
    saved = mm.cholesky_decompose_upper
    mm.cholesky_decompose_upper = lambda Jm: Uarr
    saved_log = np.log
    try:
        np.log = lambda x: x.log() if isinstance(x, pt.Sym) else saved_log(x)
        with pt.patched_numpy():
            th2 = mm.theta_from_pseudoinertia(J)
        for n, x in zip(NAMES, th2):
            ob('round_trip/theta_from_pseudoinertia/%s_recovered' % n, T(x) == z3.Real(n))
        for nm, f in tr.log_obligations:
            ob('round_trip/' + nm, f)
    except Exception as e:      # noqa
        chk.undecided.append('tracing theta_from_pseudoinertia failed: %r' % e)
    finally:
        mm.cholesky_decompose_upper = saved
        np.log = saved_log
    chk.add_obligations(obs, {'function': 'pi_from_theta, pseudoinertia_from_pi, theta_from_pseudoinertia (traced)', 'file': REL,
                              'status': 'real function objects executed on symbolic scalars', 'obligations': len(obs)})
    chk.trusted |= {'numpy object-array semantics (matmul, trace, slicing, concatenate on object dtype) during tracing'}
    chk.assumptions |= {
        'machine doubles treated as mathematical reals (overflow of exp for |theta| large and rounding are not part of the claim)',
        'np.exp(x) is a positive real determined by x; np.log is its inverse',
        'np.linalg.cholesky returns a lower-triangular factor with positive diagonal (LAPACK, external); the index reversal in cholesky_decompose_upper turns it into an upper factor',
        'third-party packages imported by the module are stubbed for the trace; only the three numpy-only functions are executed',
    }
    chk.out_of_reach += ['apply_body_theta_inertia / "a spec that compiles with the same mass properties": needs the C++ model compiler (MjSpec)',
                         'eigen-decomposition inside apply_body_theta_inertia (np.linalg.eigh)']
    return chk.finish()
