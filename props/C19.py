"""C19 - internal stack and arena allocation is memory-safe."""
import ctypes
import re
import z3
from vlib.report import Check
from vlib.cexpr import concrete_eval, NS, ConcreteUnsupported
from vlib import native
from contracts import memory

FILE = memory.FILE
UNITS = ['mj_arenaAllocByte', 'stackalloc', 'mj_stackAllocByte', 'mj_stackAllocInfo', 'mj_stackAllocNum',
         'mj_stackAllocInt', 'mj_markStack', 'mj_freeStack']

ARENA = 1 << 20
HARNESS = r'''
typedef struct { uint64_t parena, pstack, pbase, narena, arena, threadlock, maxuse_stack, maxuse_arena; } vf_snap;
static mjData vf_d;
uint64_t vf_arena(uint64_t n) { void* p = aligned_alloc(64, n); memset(p, 0, n); vf_d.arena = p; vf_d.narena = n; return (uint64_t)p; }
void vf_set(const vf_snap* s) { vf_d.parena = s->parena; vf_d.pstack = s->pstack; vf_d.pbase = s->pbase; vf_d.narena = s->narena;
  vf_d.threadlock = s->threadlock; vf_d.maxuse_stack = s->maxuse_stack; vf_d.maxuse_arena = s->maxuse_arena; }
void vf_get(vf_snap* s) { s->parena = vf_d.parena; s->pstack = vf_d.pstack; s->pbase = vf_d.pbase; s->narena = vf_d.narena;
  s->arena = (uint64_t)vf_d.arena; s->threadlock = vf_d.threadlock; s->maxuse_stack = vf_d.maxuse_stack; s->maxuse_arena = vf_d.maxuse_arena; }
void vf_poke(uint64_t a, uint64_t v) { *(uint64_t*)a = v; }
uint64_t vf_peek(uint64_t a) { return *(uint64_t*)a; }
uint64_t vf_call(int which, uint64_t a, uint64_t b) {
  void* r = 0;
  VF_TRY(
    switch (which) {
      case 0: r = mj_arenaAllocByte(&vf_d, a, b); break;
      case 1: r = stackalloc(&vf_d, a, b, NULL, 0); break;
      case 2: r = mj_stackAllocByte(&vf_d, a, b); break;
      case 3: r = mj_stackAllocInfo(&vf_d, a, b, "replay", 1); break;
      case 4: r = mj_stackAllocNum(&vf_d, a); break;
      case 5: r = mj_stackAllocInt(&vf_d, a); break;
      case 6: mj_markStack(&vf_d); break;
      case 7: mj_freeStack(&vf_d); break;
    });
  return (uint64_t)r;
}
'''


class Snap(ctypes.Structure):
    _fields_ = [(n, ctypes.c_uint64) for n in ('parena', 'pstack', 'pbase', 'narena', 'arena', 'threadlock', 'maxuse_stack', 'maxuse_arena')]


def replayer(name, model, ob):
    """pin the environment-determined quantities to the harness (arena base/size), re-solve, run the real function."""
    m = re.match(r'^(?:\[(\w+)=(\d+)\])?(\w+)/(?:ensures/)?([\w()]+)', name)
    fixed_name, fixed_val, fn, clause = m.group(1), m.group(2), m.group(3), m.group(4)
    lib, d = native.build_so('c19', [FILE], HARNESS)
    try:
        for f in ('vf_arena', 'vf_call', 'vf_peek'):
            getattr(lib, f).restype = ctypes.c_uint64
        lib.vf_arena.argtypes = [ctypes.c_uint64]
        lib.vf_call.argtypes = [ctypes.c_int, ctypes.c_uint64, ctypes.c_uint64]
        lib.vf_poke.argtypes = [ctypes.c_uint64, ctypes.c_uint64]
        lib.vf_peek.argtypes = [ctypes.c_uint64]
        base = lib.vf_arena(ARENA)
        s = z3.Solver()
        s.set('timeout', 20000)
        s.add(ob.formula())
        s.add(z3.Int('addr(d.arena)') == base, z3.Int('d.narena') == ARENA)
        if s.check() != z3.sat:
            return {'reproduced': False, 'why': 'no counterexample with the harness arena (base %#x, %d bytes)' % (base, ARENA)}
        mod = s.model()

        def val(nm, default=0):
            for dcl in mod.decls():
                if dcl.name() == nm:
                    return mod[dcl].as_long()
            return default
        pre = Snap(parena=val('d.parena'), pstack=val('d.pstack'), pbase=val('d.pbase'), narena=ARENA, arena=base,
                   threadlock=val('d.threadlock'), maxuse_stack=val('d.maxuse_stack') % (1 << 64), maxuse_arena=val('d.maxuse_arena') % (1 << 64))
        lib.vf_set(ctypes.byref(pre))
        a = val('size', val('bytes'))
        b = int(fixed_val) if fixed_name == 'alignment' else val('alignment', 8)
        # frame words for mj_freeStack
        if fn == 'mj_freeStack' and base <= pre.pbase <= base + ARENA - 16:
            raw = [dcl for dcl in mod.decls() if dcl.name() == 'RAWMEM']
            if raw:
                arr = mod[raw[0]]
                lib.vf_poke(pre.pbase, mod.eval(z3.Select(z3.Array('RAWMEM', z3.IntSort(), z3.IntSort()), pre.pbase), True).as_long() % (1 << 64))
                lib.vf_poke(pre.pbase + 8, mod.eval(z3.Select(z3.Array('RAWMEM', z3.IntSort(), z3.IntSort()), pre.pbase + 8), True).as_long() % (1 << 64))
        raw_pre = {}
        which = UNITS.index(fn)
        result = lib.vf_call(which, a, b)
        err = ctypes.c_int.in_dll(lib, 'vf_error_flag').value
        post = Snap()
        lib.vf_get(ctypes.byref(post))

        def ns(sn):
            return NS(**{f: getattr(sn, f) for f, _ in Snap._fields_})
        con = memory.CONTRACTS[fn]
        args = {'size': a, 'bytes': a, 'alignment': b}
        states = {'cur': dict(args, d=ns(post)), 'old': dict(args, d=ns(pre))}
        extra = {'result': result, 'raw64': lambda addr: lib.vf_peek(addr) if base <= addr <= base + ARENA - 8 else 0}
        info = {'function': fn, 'inputs': {'d.parena': pre.parena, 'd.pstack': pre.pstack, 'd.pbase': pre.pbase, 'd.narena': ARENA,
                                           'd.arena': base, 'd.threadlock': pre.threadlock, 'arg0': a, 'arg1': b},
                'observed': {'result': result, 'raised_error': bool(err), 'd.parena': post.parena, 'd.pstack': post.pstack, 'd.pbase': post.pbase}}
        failed = []
        if err:
            src = con.get('error_only_if')
            if src is not None:
                try:
                    if not concrete_eval(memory.DEFS, src, {'cur': states['old'], 'old': states['old']}, extra):
                        failed.append('error_only_if')
                except ConcreteUnsupported:
                    pass
            elif con.get('no_error'):
                failed.append('no_error')
        else:
            for cname, src in con.get('ensures', {}).items():
                try:
                    if not concrete_eval(memory.DEFS, src, states, extra):
                        failed.append(cname)
                except ConcreteUnsupported:
                    continue
        info['violated_clauses'] = failed
        info['reproduced'] = bool(failed)
        return info
    finally:
        native.cleanup(d)


def main():
    chk = Check('C19')
    C = memory.CONTRACTS
    for fn in UNITS:
        chk.unit(FILE, fn, C, 'math', 'real', replayer=replayer)
    import os
    shim = os.path.join(os.path.dirname(os.path.dirname(os.path.abspath(__file__))), 'shims', 'c19_client.c')
    for fn in ('c19_client', 'c19_nested'):
        chk.unit('verif:shims/c19_client.c', fn, C, 'math', 'real', abspath=shim)
    lemmas(chk)
    balance_units(chk)
    return chk.finish()


def lemmas(chk):
    """consequences of the contracts alone (no code): concurrent reservations under the thread lock are disjoint."""
    from vlib.symex import Obligation
    B, o1, s1, a1, r1, o2, s2, a2, r2 = z3.Ints('bottom o1 s1 a1 r1 o2 s2 a2 r2')

    def region(o, s, a, r):      # clause 'threadlock_region' of stackalloc's contract
        return z3.And(B - o - (s + a - 1) <= r, r + s <= B - o)
    hyp = [x >= 0 for x in (B, o1, s1, a1, r1, o2, s2, a2, r2)] + [s1 > 0, s2 > 0, a1 >= 1, a2 >= 1,
                                                                   region(o1, s1, a1, r1), region(o2, s2, a2, r2)]
    # atomic fetch-add: whichever reservation comes second observes at least the first one's new value
    chk.add_obligations([
        Obligation('lemma/threadlock_reservations_disjoint(1 before 2)', hyp + [o2 >= o1 + s1 + a1 - 1], r2 + s2 <= r1, 'post'),
        Obligation('lemma/threadlock_reservations_disjoint(2 before 1)', hyp + [o1 >= o2 + s2 + a2 - 1], r1 + s1 <= r2, 'post'),
    ], {'function': 'lemma: threadlock reservations disjoint', 'file': 'contracts/memory.py', 'status': 'lemma over contracts'})
    chk.assumptions.add('__atomic_fetch_add returns the previous value and adds atomically (linearizable): a later reservation '
                        'observes at least the earlier one\'s updated pstack')


def balance_units(chk):
    """ghost depth counter: every engine function using mj_markStack/mj_freeStack returns at depth 0."""
    import glob
    import os
    import time
    from vlib import balance
    from vlib.cast import load_tu, REPO, FrontEndError
    anchored = ['engine_collision_driver.c', 'engine_core_constraint.c', 'engine_island.c', 'engine_forward.c', 'engine_support.c']
    files = sorted(glob.glob(os.path.join(REPO, 'src/engine/*.c')))
    for f in files:
        rel = os.path.relpath(f, REPO)
        if chk.tier == 'quick' and os.path.basename(f) not in anchored:
            continue
        if 'mj_markStack' not in open(f).read() or rel == FILE:
            continue
        t0 = time.time()
        try:
            tu = load_tu(rel)
        except FrontEndError as e:
            chk.out_of_reach.append('%s: not parsed (%s)' % (rel, str(e).split(chr(10))[0][:120]))
            continue
        chk.sources[rel] = tu.source_sha
        res = balance.check_file(tu)
        dt = (time.time() - t0) / max(1, len(res))
        for fn, problems, note in res:
            nm = 'balance/%s/%s' % (os.path.basename(rel), fn)
            if problems is None:
                chk.out_of_reach.append('%s: %s' % (nm, note))
                continue
            chk.external(nm, not problems, 'ghost-counter-vc', dt, detail='; '.join(problems))
        chk.units.append({'file': rel, 'status': 'mark/free balance', 'functions': [r[0] for r in res]})
