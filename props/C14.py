"""C14 - collision pair selection respects the filters (the filter predicates)."""
import os
from vlib.report import Check
from vlib.cast import VERIF
from contracts import filters

FILE = 'src/engine/engine_collision_driver.c'
SHIM = os.path.join(VERIF, 'shims', 'c14_client.c')


def main():
    chk = Check('C14')
    chk.unit(FILE, 'filterBitmask', filters.BV, 'bv', 'real')
    chk.unit('verif:shims/c14_client.c', 'c14_bitmask_sym', dict(filters.INT, filterBitmask={'inline': True}), 'bv', 'real', abspath=SHIM)
    chk.unit(FILE, 'filterBodyPair', filters.INT, 'math', 'real')
    chk.unit('verif:shims/c14_client.c', 'c14_bodypair_sym', filters.INT, 'math', 'real', abspath=SHIM)
    chk.unit(FILE, 'canCollide2', dict(filters.INT, filterBitmask={'inline': True}), 'bv', 'real')
    for fn in ('filterBox', 'filterSphereBox', 'filterSphere'):
        chk.unit(FILE, fn, filters.REAL, 'math', 'real', check_arith=False)
    for fn in ('c14_box_sym', 'c14_sphere_sym'):
        chk.unit('verif:shims/c14_client.c', fn, dict(filters.REAL, filterBox={'inline': True}, filterSphere={'inline': True}), 'math', 'real', abspath=SHIM, check_arith=False)
    # the per-pair filter of the narrow phase and its bounding-sphere test (math ints, reals), their callees under contract
    P = filters.pair_contracts()
    chk.unit('src/engine/engine_util_blas.c', 'mju_sub3', filters.BLAS3, 'math', 'real', check_arith=False)
    chk.unit('src/engine/engine_util_blas.c', 'mju_dot3', filters.BLAS3, 'math', 'real', check_arith=False)
    chk.unit(FILE, 'mj_filterSphere', filters.sphere_contracts(), 'math', 'real', check_arith=False)
    chk.unit(FILE, 'filterCollisionPair', P, 'math', 'real', check_arith=False)
    from contracts import prims
    for fn in ('getMargin', 'getGap'):
        chk.unit(FILE, fn, prims.MARGIN_CONTRACTS, 'math', 'real', check_arith=False)
    # the order of the contact list: the macro text of engine_sort.h (merge, insertion, sift-down), instantiated by the shim of C22
    from contracts import sort
    SORT_SHIM = os.path.join(VERIF, 'shims', 'c22_sort.c')
    for fn in ('vf_insertion', 'vf_merge', 'vf_sift'):
        chk.unit('verif:shims/c22_sort.c', fn, sort.CONTRACTS, 'math', 'opaque', abspath=SORT_SHIM)
    # the comparator that fixes the contact order, and the two order laws the sort relies on as lemmas over its contract
    chk.unit(FILE, 'contactcompare', {'__defs__': {}, 'contactcompare': filters.CONTACT_COMPARE}, 'math', 'real', check_arith=False)
    import z3
    from vlib.symex import Obligation
    a1, b1, a2, b2, a3, b3 = z3.Ints('a1 b1 a2 b2 a3 b3')
    lex = lambda p, q, r, t: z3.If(p < r, -1, z3.If(p > r, 1, z3.If(q < t, -1, z3.If(q > t, 1, 0))))
    chk.add_obligations([
        Obligation('lemma/contact_order_is_antisymmetric', [], lex(a1, b1, a2, b2) == -lex(a2, b2, a1, b1), 'lemma'),
        Obligation('lemma/contact_order_is_transitive', [lex(a1, b1, a2, b2) <= 0, lex(a2, b2, a3, b3) <= 0], lex(a1, b1, a3, b3) <= 0, 'lemma'),
    ], {'function': 'lemma: lexicographic contact order is a total preorder', 'file': 'contracts/filters.py', 'status': 'lemma over contracts'})
    from props import C22
    C22.bounded(chk)        # bounded stand-in for the pass / block composition of mjSORT (same macro text; never counted as proved)
    chk.out_of_reach += ['sweep-and-prune broad phase, BVH mid phase (mj_collideTree), the pass/block composition of mjSORT (bounded stand-in in C22)',
                         'completeness of the whole pair enumeration (every unfiltered pair within margin is reported)']
    chk.assumptions |= {'mjcb_contactfilter (user callback, global function pointer): no effect on verified state, arbitrary answer; the mask clauses are stated for the default (no callback installed)',
                        'contactcompare among geom-geom contacts (or among flex contacts): the key of a contact does not depend on the other one; for a geom-geom contact compared with a flex contact the un-swapping is skipped for both (as the code does), so transitivity across the two kinds is not claimed', 'mj_assignMargin is a pure function of its argument (named AM); geom ids, pair ids and geom types in range (model invariants)',
                        'symbolic & of two ints in mathematical-integer mode is the function band32, constrained by facts proved once in bit-vector arithmetic'}
    chk.assumptions.add('geometric filters proved over the reals (rounding of the sums is not modelled)')
    return chk.finish()
