"""C14 - collision pair selection respects the filters (the filter predicates)."""
import os
from vlib.report import Check
from vlib.cast import VERIF
from contracts import filters

FILE = 'src/engine/engine_collision_driver.c'
SHIM = os.path.join(VERIF, 'shims', 'c14_client.c')


def main():
    chk = Check('C14')
    chk.unit(FILE, 'filterBitmask', filters.BV, 'bv', 'real')
    chk.unit('verif:shims/c14_client.c', 'c14_bitmask_sym', dict(filters.INT, filterBitmask={'inline': True}), 'bv', 'real', abspath=SHIM)
    chk.unit(FILE, 'filterBodyPair', filters.INT, 'math', 'real')
    chk.unit('verif:shims/c14_client.c', 'c14_bodypair_sym', filters.INT, 'math', 'real', abspath=SHIM)
    chk.unit(FILE, 'canCollide2', dict(filters.INT, filterBitmask={'inline': True}), 'bv', 'real')
    for fn in ('filterBox', 'filterSphereBox', 'filterSphere'):
        chk.unit(FILE, fn, filters.REAL, 'math', 'real', check_arith=False)
    for fn in ('c14_box_sym', 'c14_sphere_sym'):
        chk.unit('verif:shims/c14_client.c', fn, dict(filters.REAL, filterBox={'inline': True}, filterSphere={'inline': True}), 'math', 'real', abspath=SHIM, check_arith=False)
    chk.out_of_reach += ['sweep-and-prune broad phase, BVH mid phase (mj_collideTree), ordering of contacts (sorting is C22)',
                         'completeness of the whole pair enumeration (every unfiltered pair within margin is reported)']
    chk.assumptions.add('geometric filters proved over the reals (rounding of the sums is not modelled)')
    return chk.finish()
