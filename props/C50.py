"""C50 - visualization scene construction is bounded (capacity / overflow part)."""
import os
import time
from vlib.report import Check
from vlib.cast import load_tu, walk, fn_body, FrontEndError
from vlib import nullable
from vlib.balance import callee
from contracts import scene

FILE = 'src/engine/engine_vis_visualize.c'
WRITERS_OK = {'releaseGeom', 'mjv_updateScene'}


def main():
    chk = Check('C50')
    chk.timeout = max(chk.timeout, 120)
    C = scene.CONTRACTS
    chk.unit(FILE, 'acquireGeom', C, 'math', 'opaque')
    chk.unit(FILE, 'releaseGeom', C, 'math', 'opaque')
    chk.unit(FILE, 'mjv_initGeom', {'mjv_initGeom': scene.INIT_GEOM, 'mju_n2f': C['mju_n2f'], 'f2f': {'inline': True}}, 'math', 'opaque')
    # addGeomGeoms: which model geoms enter the scene (category mask, clamped group), in index order, never beyond the capacity
    chk.unit(FILE, 'bodycategory', {'__defs__': {}, 'bodycategory': scene.BODYCAT}, 'math', 'opaque')
    chk.unit(FILE, 'addGeomGeoms', scene.add_contracts(), 'math', 'opaque', check_arith=False)
    try:
        tu = load_tu(FILE)
    except FrontEndError as e:
        chk.undecided.append(str(e))
        return chk.finish()
    # typestate VC: the result of acquireGeom is NULL-checked before any use, at every call site
    for fn in nullable.functions_with_source(tu, {'acquireGeom'}):
        t0 = time.time()
        try:
            sites, probs = nullable.check_function(tu, fn, {'acquireGeom'}, set(), require_report=False)
        except Exception as e:   # noqa
            chk.undecided.append('nullable %s: %r' % (fn, e))
            continue
        for s in sites:
            chk.external('nullable/%s/%s' % (fn, s), s not in probs, 'typestate-vc', (time.time() - t0) / max(1, len(sites)), detail='; '.join(probs.get(s, [])))
        chk.units.append({'file': FILE, 'function': fn, 'status': 'nullable typestate VC', 'call_sites': len(sites)})
    # frame: the geom counter is written only by releaseGeom (+1) and the reset in mjv_updateScene
    bad = []
    n_assign = 0
    for name, fn in tu.functions.items():
        for c in walk(fn_body(fn)):
            k = c.get('kind')
            tgt = None
            if k == 'BinaryOperator' and c.get('opcode') == '=':
                tgt = c['inner'][0]
            elif k == 'CompoundAssignOperator' or (k == 'UnaryOperator' and c.get('opcode') in ('++', '--')):
                tgt = c['inner'][0]
            if tgt is None:
                continue
            n_assign += 1
            t = nullable.strip(tgt)
            if t.get('kind') == 'MemberExpr' and t.get('name') in ('ngeom', 'maxgeom', 'geoms'):
                bt = t['inner'][0].get('type', {}).get('qualType', '')
                if 'mjvScene' in bt and name not in WRITERS_OK:
                    bad.append('%s writes scn->%s' % (name, t.get('name')))
    chk.external('frame/only_releaseGeom_and_reset_write_the_geom_counter', not bad, 'ast-frame-scan', 0.0, detail='; '.join(bad))
    chk.extra_cov['assignments_scanned'] = n_assign
    chk.assumptions |= {'mjv_initGeom writes only the geom it is given (assumed at call sites; its own body is verified to write only through geom-> and to leave objid / objtype / category / segid alone)',
                        'addGeomGeoms: setMaterial, islandColor, markselected, makeLabel and the small vector helpers are used by frame only (they write the fields of the geom they are handed); '
                        'mj_sleepCycle returns a tree of the cycle for a sleeping tree (C18); mesh / SDF geoms reference a mesh (geom_dataid >= 0); model ids in range; float values are opaque',
                        'plugin visualize callbacks and user code respect the same acquire/release discipline',
                        'scene invariant 0 <= ngeom <= maxgeom holds when mjv_updateScene resets ngeom to 0 (maxgeom >= 0)'}
    chk.out_of_reach += ['completeness of addGeomGeoms (every shown geom IS added: proved only that nothing else is, in index order); pose and size of the added geoms at scene level (proved at mjv_initGeom level: it stores the pose / size it is given; '
                         'the scene-level clauses were proved too but needed 30-60 s per path obligation and were taken out rather than risk an unknown under load); '
                         'the other add*Geoms functions of mjv_addGeoms',
                         'determinism of the scene', 'pairing of acquire/release along every path (only the NULL discipline and the counter frame are proved)']
    return chk.finish()
