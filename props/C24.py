"""C24 - rotation and pose utilities implement the group operations."""
import os
from vlib.report import Check
from vlib.cast import VERIF
from contracts import spatial

SHIM = os.path.join(VERIF, 'shims', 'c24_laws.c')


def lemmas(chk):
    """specification-level identities (no code) + the equational chain that lifts them to the code."""
    import z3
    from vlib.symex import Obligation
    a = [z3.Real('a%d' % k) for k in range(4)]
    b = [z3.Real('b%d' % k) for k in range(4)]

    def HP(a, b):
        return [a[0]*b[0] - a[1]*b[1] - a[2]*b[2] - a[3]*b[3], a[0]*b[1] + a[1]*b[0] + a[2]*b[3] - a[3]*b[2],
                a[0]*b[2] - a[1]*b[3] + a[2]*b[0] + a[3]*b[1], a[0]*b[3] + a[1]*b[2] - a[2]*b[1] + a[3]*b[0]]

    def QM(q):
        return [q[0]*q[0] + q[1]*q[1] - q[2]*q[2] - q[3]*q[3], 2*(q[1]*q[2] - q[0]*q[3]), 2*(q[1]*q[3] + q[0]*q[2]),
                2*(q[1]*q[2] + q[0]*q[3]), q[0]*q[0] - q[1]*q[1] + q[2]*q[2] - q[3]*q[3], 2*(q[2]*q[3] - q[0]*q[1]),
                2*(q[1]*q[3] - q[0]*q[2]), 2*(q[2]*q[3] + q[0]*q[1]), q[0]*q[0] - q[1]*q[1] - q[2]*q[2] + q[3]*q[3]]
    mab, ma, mb = QM(HP(a, b)), QM(a), QM(b)
    obs = []
    for r in range(3):
        for c in range(3):
            obs.append(Obligation('lemma/QM(HP(a,b)) == QM(a)QM(b)/%d%d' % (r, c), [],
                                  mab[3*r + c] == sum(ma[3*r + k] * mb[3*k + c] for k in range(3)), 'post'))
    # chain (EUF): from code == spec (c24_mat: m == QM(q); c24_mul: ab == HP(a,b)) and the identity above
    V = z3.DeclareSort('Vec')
    fQM = z3.Function('QM', V, V)
    fHP = z3.Function('HP', V, V, V)
    fMM = z3.Function('matmul', V, V, V)
    va, vb, vab, vma, vmb, vmab = z3.Consts('a b ab ma mb mab', V)
    x, y = z3.Consts('x y', V)
    hyp = [vab == fHP(va, vb), vma == fQM(va), vmb == fQM(vb), vmab == fQM(vab),
           z3.ForAll([x, y], fQM(fHP(x, y)) == fMM(fQM(x), fQM(y)))]
    obs.append(Obligation('lemma/homomorphism_chain(code == spec + spec identity => M(ab) == M(a)M(b) on every input)', hyp, vmab == fMM(vma, vmb), 'post'))
    chk.add_obligations(obs, {'function': 'lemma: rotation matrix of a product', 'file': 'props/C24.py', 'status': 'lemma over contracts'})


NATIVE = r'''
#include "%s/src/engine/engine_util_blas.c"
#include "%s/src/engine/engine_util_spatial.c"
static unsigned long long rng = 88172645463325252ULL;
static double rnd(void) { rng ^= rng << 13; rng ^= rng >> 7; rng ^= rng << 17; return (double)(rng >> 11) / 9007199254740992.0 * 2 - 1; }
double vf_worst = 0; double vf_q[4];
// bounded stand-in: quat2Mat(mat2Quat(quat2Mat(q))) == quat2Mat(q) on unit quaternions hitting all four branches
int vf_mat2quat(unsigned seed, int n) {
  rng ^= seed * 2654435761u;
  for (int it = 0; it < n; it++) {
    double q[4] = {rnd(), rnd(), rnd(), rnd()}, m[9], q2[4], m2[9];
    int mode = it %% 8;            // force large rotations about each axis so that every branch is exercised
    if (mode >= 1 && mode <= 3) { q[0] *= 0.2; q[mode] = 1 + 0.3 * rnd(); }
    if (mode >= 4 && mode <= 6) { q[0] = 0.01 * rnd(); q[mode - 3] = 1; }
    double nn = sqrt(q[0]*q[0] + q[1]*q[1] + q[2]*q[2] + q[3]*q[3]); if (nn < 1e-3) continue;
    for (int k = 0; k < 4; k++) q[k] /= nn;
    mju_quat2Mat(m, q); mju_mat2Quat(q2, m); mju_quat2Mat(m2, q2);
    for (int k = 0; k < 9; k++) { double e = fabs(m[k] - m2[k]); if (e > vf_worst) { vf_worst = e; memcpy(vf_q, q, sizeof q); } }
  }
  return vf_worst > 1e-9;
}
'''


def bounded_mat2quat(chk):
    import ctypes
    import time
    from vlib import native
    from vlib.report import run_isolated
    from vlib.cast import REPO
    t0 = time.time()
    n = 200000 if chk.tier == 'quick' else 5000000

    def run(a, b, c):
        lib, d = native.build_so('c24', [], NATIVE % (REPO, REPO), extra_cflags=['-O1'], define_err=False)
        try:
            bad = lib.vf_mat2quat(ctypes.c_uint(chk.seed), n)
            worst = ctypes.c_double.in_dll(lib, 'vf_worst').value
            q = list((ctypes.c_double * 4).in_dll(lib, 'vf_q'))
            return {'reproduced': bool(bad), 'name': 'mat2Quat_roundtrip', 'worst_abs_error': worst, 'input': {'quat': q},
                    'observed': 'quat2Mat(mat2Quat(M)) differs from M by %.3g' % worst}
        finally:
            native.cleanup(d)
    r = run_isolated(run, '', None, None, timeout=600, crash_is_failure=False)
    chk.bounded.append({'what': 'mju_mat2Quat inverts mju_quat2Mat (deductive contract written, out of reach)',
                        'bound': '%d random unit quaternions incl. near-180-degree rotations about each axis, tolerance 1e-9' % n,
                        'result': r, 'wall_s': round(time.time() - t0, 1), 'counted_as_proved': False})
    if r and r.get('reproduced'):
        chk.external('bounded/mat2Quat_roundtrip', False, 'native-random(bounded)', time.time() - t0, detail=str(r), model=r)


def main():
    chk = Check('C24')
    chk.timeout = 30 if chk.tier == 'quick' else 300
    C = spatial.CONTRACTS
    for fn in [k for k in C if k.startswith('c24_')]:
        chk.unit('verif:shims/c24_laws.c', fn, C, 'math', 'real', abspath=SHIM, check_arith=False)
    seqs = spatial.EULER_SEQS
    for sq in seqs:
        C2 = dict(C)
        C2['c24_euler'] = spatial.euler_contract(sq)
        chk.unit('verif:shims/c24_laws.c', 'c24_euler', C2, 'math', 'real', abspath=SHIM, check_arith=False, prefix='[seq=%s]' % sq)
    chk.extra_cov['euler_sequences'] = {'checked': len(seqs), 'of': len(spatial.EULER_SEQS), 'all_in_thorough_tier': True}
    lemmas(chk)
    bounded_mat2quat(chk)
    chk.out_of_reach += ['mju_mat2Quat round trip (conditional polynomial identities with sqrt/division: solver timeouts) - bounded stand-in only',
                         'mju_subQuat / mju_quatIntegrate / mju_quat2Vel inverse laws and mjd_* finite-difference claims (atan2, sin(x)/x limits)',
                         'mju_makeFrame: checked under C13',
                         'all statements up to rounding: this check proves the algebra over the reals']
    for f in ('src/engine/engine_util_spatial.c', 'src/engine/engine_util_blas.c', 'src/engine/engine_inline.h'):
        import hashlib
        from vlib.cast import REPO
        chk.sources[f] = hashlib.sha256(open(os.path.join(REPO, f), 'rb').read()).hexdigest()
    return chk.finish()
