"""C22 - sorting and selection utilities are correct and stable."""
import ctypes
import os
import time
from vlib.report import Check, run_isolated
from vlib import native
from vlib.cast import VERIF
from contracts import sort

SHIM = os.path.join(VERIF, 'shims', 'c22_sort.c')

NATIVE = r'''
#include "%s"
int vf_cmp(const vf_elem* a, const vf_elem* b, void* context) { (void)context; return (a->key > b->key) - (a->key < b->key); }
static unsigned long long rng = 88172645463325252ULL;
static unsigned rnd(void) { rng ^= rng << 13; rng ^= rng >> 7; rng ^= rng << 17; return (unsigned)(rng >> 11); }
static int check_sorted_stable(const vf_elem* a, const vf_elem* orig, int n) {
  for (int p = 0; p < n; p++) { if (a[p].id < 0 || a[p].id >= n || a[p].key != orig[a[p].id].key) return 0;
    if (p && !(a[p-1].key < a[p].key || (a[p-1].key == a[p].key && a[p-1].id < a[p].id))) return 0; }
  return 1;
}
long vf_n_sort = 0, vf_n_select = 0; int vf_bad_n = -1, vf_bad_k = -1; char vf_what[96];
// bounded stand-in for the composition of mjSORT / mjPARTIAL_SORT (real macro text, compiled)
int vf_bounded(unsigned seed, int nmax) {
  rng ^= seed * 2654435761u;
  vf_elem* a = malloc(sizeof(vf_elem) * (nmax + 1)), *b = malloc(sizeof(vf_elem) * (nmax + 1)), *o = malloc(sizeof(vf_elem) * (nmax + 1));
  // (1) every length 0..nmax, several key domains (many ties, few ties, reverse, sorted)
  for (int n = 0; n <= nmax; n++) for (int dom = 0; dom < 6; dom++) {
    for (int p = 0; p < n; p++) { int k = dom == 0 ? 0 : dom == 1 ? (int)(rnd() %% 2) : dom == 2 ? (int)(rnd() %% 5) : dom == 3 ? n - p : dom == 4 ? p / 3 : (int)(rnd() %% 1000);
      o[p].key = k; o[p].id = p; a[p] = o[p]; }
    vf_sort(a, b, n, 0); vf_n_sort++;
    if (!check_sorted_stable(a, o, n)) { vf_bad_n = n; snprintf(vf_what, sizeof vf_what, "mjSORT: result is not the stable sorted permutation (key domain %%d)", dom); return 1; }
  }
  // (2) exhaustive: all arrays of length <= 7 over keys {0,1,2}, all k, partial sort
  for (int n = 1; n <= 7; n++) { int total = 1; for (int p = 0; p < n; p++) total *= 3;
    for (int code = 0; code < total; code++) for (int k = 0; k <= n + 1; k++) {
      int c = code; for (int p = 0; p < n; p++) { o[p].key = c %% 3; c /= 3; o[p].id = p; a[p] = o[p]; }
      vf_select(a, b, n, k, 0); vf_n_select++;
      if (k <= 0 || n < k) { for (int p = 0; p < n; p++) if (a[p].key != o[p].key || a[p].id != o[p].id) { vf_bad_n = n; vf_bad_k = k; snprintf(vf_what, sizeof vf_what, "mjPARTIAL_SORT: array modified for k out of range"); return 1; } continue; }
      // first k sorted, all original elements, distinct, and no other original element is smaller than a[k-1]
      int seen[8] = {0};
      for (int p = 0; p < k; p++) { if (a[p].id < 0 || a[p].id >= n || seen[a[p].id] || a[p].key != o[a[p].id].key) { vf_bad_n = n; vf_bad_k = k; snprintf(vf_what, sizeof vf_what, "mjPARTIAL_SORT: output is not a set of distinct input elements"); return 1; }
        seen[a[p].id] = 1; if (p && a[p-1].key > a[p].key) { vf_bad_n = n; vf_bad_k = k; snprintf(vf_what, sizeof vf_what, "mjPARTIAL_SORT: prefix not sorted"); return 1; } }
      for (int q = 0; q < n; q++) if (!seen[q] && o[q].key < a[k-1].key) { vf_bad_n = n; vf_bad_k = k; snprintf(vf_what, sizeof vf_what, "mjPARTIAL_SORT: a smaller element was left out"); return 1; }
    } }
  return 0;
}
'''


def bounded(chk):
    t0 = time.time()
    nmax = 300 if chk.tier == 'quick' else 3000

    def run(n, m, o):
        lib, d = native.build_so('c22', [], NATIVE % SHIM, extra_cflags=['-O1'], define_err=False)
        try:
            bad = lib.vf_bounded(ctypes.c_uint(chk.seed), nmax)
            out = {'sort_runs': ctypes.c_long.in_dll(lib, 'vf_n_sort').value, 'select_runs': ctypes.c_long.in_dll(lib, 'vf_n_select').value}
            if bad:
                w = ctypes.create_string_buffer(96)
                ctypes.memmove(w, ctypes.addressof(ctypes.c_char.in_dll(lib, 'vf_what')), 96)
                out.update(reproduced=True, name='sort_macros', observed=w.value.decode(),
                           input={'n': ctypes.c_int.in_dll(lib, 'vf_bad_n').value, 'k': ctypes.c_int.in_dll(lib, 'vf_bad_k').value, 'seed': chk.seed})
            else:
                out['reproduced'] = False
            return out
        finally:
            native.cleanup(d)
    r = run_isolated(run, '', None, None, timeout=900, crash_is_failure=False)
    chk.bounded.append({'what': 'composition of mjSORT (pass/block loops) and mjPARTIAL_SORT, real macro text compiled natively',
                        'bound': 'mjSORT: every n in [0,%d] x 6 key distributions; mjPARTIAL_SORT: all arrays of length <= 7 over 3 keys, all k' % nmax,
                        'result': r, 'wall_s': round(time.time() - t0, 1), 'counted_as_proved': False})
    if r and r.get('reproduced'):
        chk.external('bounded/sort_macros', False, 'native-exhaustive(bounded)', time.time() - t0, detail=str(r), model=r)


def main():
    chk = Check('C22')
    C = sort.CONTRACTS
    chk.unit('src/engine/engine_util_misc.c', 'mju_insertionSortInt', C, 'math', 'fp')
    chk.unit('src/engine/engine_util_misc.c', 'mju_insertionSort', C, 'math', 'fp')
    for fn in ('vf_insertion', 'vf_merge', 'vf_sift'):
        chk.unit('verif:shims/c22_sort.c', fn, C, 'math', 'opaque', abspath=SHIM)
    # mjSORT itself: the run phase (loops 0-2) is discharged; the pass/block composition is NOT (see DESIGN.md C22)
    dropped = []

    def flt(name, kind):
        keep = any(('vf_sort/loop%d/' % k) in name for k in (0, 1, 2)) or kind in ('cover',)
        if not keep:
            dropped.append(name)
        return keep
    chk.unit('verif:shims/c22_sort.c', 'vf_sort', C, 'math', 'opaque', abspath=SHIM, ob_filter=flt)
    chk.extra_cov['not_claimed'] = {'function': 'vf_sort (mjSORT) pass/block/merge-in-context loops and final postcondition',
                                    'obligations_generated_but_not_claimed': len(dropped),
                                    'reason': 'cut-point invariants are written (contracts/sort.py) but ~70 of these obligations time out; '
                                              'covered by the bounded stand-in only'}
    chk.out_of_reach += ['mjPARTIAL_SORT composition (heap build/scan loops): only _mjSIFT_DOWN and _mjINSERTION_SORT are under contract',
                         'the engine instantiations contactSort / SAPsort / bfsort / ContactSelect: same macro text, their comparators '
                         '(contactcompare, SAPcmp, uintcmp, ContactInfoCompare) are not proved to be total preorders']
    chk.assumptions |= {'comparator contract: pure, sign(result) == sign(a.key - b.key) (any total preorder through an int key)',
                        'n <= 2^30 (above that start + 2*len overflows int in mjSORT: recorded finding, see DESIGN.md section 8 F5)',
                        'arr and buf do not overlap',
                        'pigeonhole: labels in [0,n), pairwise distinct (strict lexicographic order) => the result is a permutation'}
    bounded(chk)
    return chk.finish()
