"""entry point: python3-vt -m props.run <property-id>"""
import importlib
import io
import json
import os
import sys
import tempfile
import traceback
from contextlib import redirect_stdout


def generic_replay(mod, pid, path):
    """--replay <file>: print what the replay file recorded (obligation, solver model, native input / observation), then
    re-run the property's check on the current tree and say whether the same obligation is violated again.
    exit 1: reproduced (VIOLATION line printed), exit 0: the obligation holds on the current tree."""
    info = json.load(open(path))
    ob = info.get('obligation', '?')
    print('REPLAY property=%s obligation=%s' % (pid, ob))
    nr = info.get('native_replay') or {}
    for k in ('input', 'observed', 'expected', 'violated_clause', 'ran', 'output'):
        if k in nr:
            print('  recorded %s: %s' % (k, str(nr[k])[:600]))
    if info.get('solver_model') and not nr:
        print('  recorded solver model: %s' % str(info['solver_model'])[:600])
    os.environ['VERIF_EVIDENCE_DIR'] = tempfile.mkdtemp(prefix='replay_ev_', dir='/dev/shm')      # never touch the committed evidence
    import vlib.report as report
    report.EVID = os.environ['VERIF_EVIDENCE_DIR']
    buf = io.StringIO()
    with redirect_stdout(buf):
        code = mod.main()
    out = buf.getvalue()
    norm = report.norm_name(ob)
    again = [l for l in out.splitlines() if l.startswith('VIOLATION') and ('obligation=%s ' % norm in l + ' ' or norm in l)]
    if again:
        print(again[0])
        print('REPLAY: reproduced on the current tree')
        return 1
    print(out.strip().splitlines()[-1] if out.strip() else '')
    print('REPLAY: not reproduced - the recorded obligation holds on the current tree (check exit %s)' % code)
    return 0


def main():
    pid = sys.argv[1]
    try:
        mod = importlib.import_module('props.' + pid)
        if os.environ.get('VERIF_REPLAY'):
            code = mod.replay(os.environ['VERIF_REPLAY']) if hasattr(mod, 'replay') else generic_replay(mod, pid, os.environ['VERIF_REPLAY'])
        else:
            code = mod.main()
    except SystemExit:
        raise
    except Exception:      # noqa
        traceback.print_exc()
        print('CHECKER-CRASH property=%s' % pid)
        code = 3
    sys.exit(code)


if __name__ == '__main__':
    main()
