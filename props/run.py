"""entry point: python3-vt -m props.run <property-id>"""
import importlib
import os
import sys
import traceback


def main():
    pid = sys.argv[1]
    try:
        mod = importlib.import_module('props.' + pid)
        if os.environ.get('VERIF_REPLAY'):
            code = mod.replay(os.environ['VERIF_REPLAY'])
        else:
            code = mod.main()
    except SystemExit:
        raise
    except Exception:      # noqa
        traceback.print_exc()
        print('CHECKER-CRASH property=%s' % pid)
        code = 3
    sys.exit(code)


if __name__ == '__main__':
    main()
