"""C41 - the MJCF schema-language parser: total (only SchemaError escapes, with a line inside the text) and sound.

No contract within deductive reach decides the parser as a whole (regex lexing, object state, dataclasses), so this check
is BOUNDED EXPLORATION with the contract as oracle, plus two structural obligations decided from the module's ast.
Nothing here is counted as proved except the structural obligations."""
import ast
import hashlib
import importlib.util
import os
import random
import sys
from vlib.report import Check
from vlib.cast import REPO

REL = 'doc/generate/mjcf_schema.py'
SCALARS = ['double', 'float', 'int']


# ---- structural obligations ------------------------------------------------------------------------------------------
def call_graph(tree):
    funcs = {}

    class V(ast.NodeVisitor):
        def __init__(self):
            self.cls = None

        def visit_ClassDef(self, n):
            old, self.cls = self.cls, n.name
            self.generic_visit(n)
            self.cls = old

        def visit_FunctionDef(self, n):
            name = (self.cls + '.' if self.cls else '') + n.name
            calls = set()
            for c in ast.walk(n):
                if isinstance(c, ast.Call):
                    f = c.func
                    if isinstance(f, ast.Attribute) and isinstance(f.value, ast.Call) and isinstance(f.value.func, ast.Name) and f.value.func.id == 'super':
                        continue        # super().__init__(...) is the base class method, not a recursive call
                    calls.add(f.id if isinstance(f, ast.Name) else (f.attr if isinstance(f, ast.Attribute) else None))
            funcs[name] = calls
    V().visit(tree)
    short = {}
    for k in funcs:
        short.setdefault(k.split('.')[-1], []).append(k)
    return {k: {t for c in v if c in short for t in short[c]} for k, v in funcs.items()}


def recursive_functions(g):
    out = []
    for f in g:
        seen, stack = set(), list(g[f])
        while stack:
            n = stack.pop()
            if n == f:
                out.append(f)
                break
            if n not in seen:
                seen.add(n)
                stack.extend(g.get(n, ()))
    return sorted(out)


# ---- generator of schema texts -----------------------------------------------------------------------------------------
def gen_spec(rnd):
    """a small valid schema as a plain dict (rendered to text by render())"""
    enums = {'E%d' % i: ['k%d' % j for j in range(rnd.randint(1, 3))] for i in range(rnd.randint(1, 2))}
    ns = ['ns%d' % i for i in range(rnd.randint(1, 2))]
    names = iter('a%d' % i for i in range(1000))

    def attr(allow_id=True):
        kind = rnd.choice(['num', 'vec', 'enum', 'bool', 'string', 'ref', 'chars', 'flags', 'file'] + (['id'] if allow_id else []))
        a = {'name': next(names), 'facets': []}
        if kind == 'num':
            a['type'] = rnd.choice(SCALARS)
            if rnd.random() < 0.5:
                a['default'] = rnd.choice(['0', '1.5', '-2'])
            elif rnd.random() < 0.3:
                a['facets'].append('required')
        elif kind == 'vec':
            lo = rnd.randint(1, 3)
            hi = rnd.choice([lo, lo + rnd.randint(1, 2)])
            if hi == 1:
                hi = 2          # [1] is a scalar: a vector default would be (rightly) rejected
            a['type'] = rnd.choice(SCALARS) + ('[%d]' % lo if hi == lo else '[%d..%d]' % (lo, hi))
            if rnd.random() < 0.5:
                a['default'] = '{' + ', '.join('1' for _ in range(rnd.randint(lo, hi))) + '}' if lo > 1 or rnd.random() < 0.5 else None
                if a['default'] is None:
                    a.pop('default')
            a['arity'] = (lo, hi)
        elif kind == 'enum':
            e = rnd.choice(sorted(enums))
            a['type'] = 'enum<%s>' % e
            a['enum'] = e
            if rnd.random() < 0.5:
                a['default'] = rnd.choice(enums[e])
        elif kind == 'flags':
            a['type'] = 'flags<%s>' % rnd.choice(sorted(enums))
        elif kind == 'bool':
            a['type'] = 'bool'
            if rnd.random() < 0.5:
                a['default'] = rnd.choice(['true', 'false'])
        elif kind == 'string':
            a['type'] = 'string'
            if rnd.random() < 0.3:
                a['default'] = '"s"'
        elif kind == 'file':
            a['type'] = 'file'
        elif kind == 'chars':
            a['type'] = 'chars[%d]' % rnd.randint(1, 8)
        elif kind == 'ref':
            a['type'] = 'ref<%s>' % rnd.choice(ns)
        elif kind == 'id':
            a['type'] = 'id<%s>' % rnd.choice(ns)
        return a
    groups = []
    for i in range(rnd.randint(0, 3)):
        g = {'name': 'g%d' % i, 'attrs': [attr() for _ in range(rnd.randint(1, 3))], 'uses': []}
        reached = set()
        for prev in groups:
            # a group reached twice (diamond) would duplicate its attributes after expansion: a valid schema has none
            if rnd.random() < 0.4 and not (closure(groups, prev['name']) & reached):
                g['uses'].append(prev['name'])
                reached |= closure(groups, prev['name'])
        groups.append(g)
    elements = []
    nelem = rnd.randint(1, 3)
    for i in range(nelem):
        e = {'name': 'el%d' % i, 'attrs': [attr() for _ in range(rnd.randint(0, 3))], 'uses': [], 'children': []}
        used = set()
        for g in groups:
            if rnd.random() < 0.4 and not (closure(groups, g['name']) & used):
                e['uses'].append(g['name'])
                used |= closure(groups, g['name'])
        for j in range(nelem):
            if rnd.random() < 0.3:
                e['children'].append(('el%d' % j, rnd.choice('?!*R')))
        elements.append(e)
    # every namespace needs an id declaration somewhere
    elements[0]['attrs'] += [{'name': next(names), 'type': 'id<%s>' % n, 'facets': []} for n in ns]
    return {'enums': enums, 'groups': groups, 'elements': elements}


def closure(groups, name):
    by = {g['name']: g for g in groups}
    out, stack = set(), [name]
    while stack:
        n = stack.pop()
        if n in out or n not in by:
            continue
        out.add(n)
        stack.extend(by[n]['uses'])
    return out


def render(spec):
    lines = []
    for e, keys in spec['enums'].items():
        lines.append('enum %s {' % e)
        lines += ['  %s = %s' % (k, k.upper()) for k in keys]
        lines.append('}')

    def attr_line(a):
        s = '  %s: %s' % (a['name'], a['type'])
        if a.get('default') is not None:
            s += ' = %s' % a['default']
        if a['facets']:
            s += ' (%s)' % ', '.join(a['facets'])
        return s
    for g in spec['groups']:
        lines.append('group %s {' % g['name'])
        lines += [attr_line(a) for a in g['attrs']] + ['  use %s' % u for u in g['uses']]
        lines.append('}')
    for e in spec['elements']:
        lines.append('element %s {' % e['name'])
        lines += [attr_line(a) for a in e['attrs']] + ['  use %s' % u for u in e['uses']] + ['  child %s %s' % c for c in e['children']]
        lines.append('}')
    return '\n'.join(lines) + '\n'


MUTATIONS = ['dangling_use', 'use_cycle', 'duplicate_attr', 'duplicate_element', 'dangling_child', 'default_too_long',
             'enum_default_not_keyword', 'required_with_default', 'decreasing_arity', 'dangling_ref', 'dangling_enum', 'duplicate_attr_via_use']


def mutate(spec, kind, rnd):
    """break exactly one documented rule; returns None when the spec offers no site for this mutation"""
    import copy
    s = copy.deepcopy(spec)
    els, gs = s['elements'], s['groups']
    all_attrs = [a for c in els + gs for a in c['attrs']]
    if kind == 'dangling_use':
        rnd.choice(els)['uses'].append('nosuchgroup')
    elif kind == 'use_cycle':
        if not gs:
            return None
        g = rnd.choice(gs)
        g['uses'].append(g['name'] if len(gs) == 1 or rnd.random() < 0.3 else gs[-1]['name'])
        if g is not gs[-1] and g['name'] not in closure(gs, gs[-1]['name']) - {gs[-1]['name']} and gs[-1]['name'] != g['name']:
            gs[-1]['uses'].append(g['name'])
    elif kind == 'duplicate_attr':
        e = rnd.choice([c for c in els + gs if c['attrs']] or [None])
        if e is None:
            return None
        e['attrs'].append(dict(rnd.choice(e['attrs'])))
        if e in gs and not any(e['name'] in closure(gs, u) for el in els for u in el['uses']):
            els[0]['uses'].append(e['name']) if not (closure(gs, e['name']) & set().union(*[closure(gs, u) for u in els[0]['uses']] or [set()])) else None
            if e['name'] not in set().union(*[closure(gs, u) for el in els for u in el['uses']] or [set()]):
                return None
    elif kind == 'duplicate_element':
        els.append(dict(els[0]))
    elif kind == 'dangling_child':
        rnd.choice(els)['children'].append(('nosuchelement', '?'))
    elif kind == 'default_too_long':
        c = [a for a in all_attrs if a.get('arity')]
        if not c:
            return None
        a = rnd.choice(c)
        a['default'] = '{' + ', '.join('1' for _ in range(a['arity'][1] + 1)) + '}'
        a['facets'] = []
    elif kind == 'enum_default_not_keyword':
        c = [a for a in all_attrs if a.get('enum')]
        if not c:
            return None
        a = rnd.choice(c)
        a['default'] = 'notakeyword'
        a['facets'] = []
    elif kind == 'required_with_default':
        c = [a for a in all_attrs if a.get('default') is not None]
        if not c:
            return None
        rnd.choice(c)['facets'] = ['required']
    elif kind == 'decreasing_arity':
        c = [a for a in all_attrs if a['type'].split('[')[0] in SCALARS]
        if not c:
            return None
        a = rnd.choice(c)
        a['type'] = a['type'].split('[')[0] + '[3..1]'
        a.pop('default', None)
    elif kind == 'dangling_ref':
        rnd.choice(els)['attrs'].append({'name': 'zz_ref', 'type': 'ref<nosuchns>', 'facets': []})
    elif kind == 'dangling_enum':
        rnd.choice(els)['attrs'].append({'name': 'zz_enum', 'type': 'enum<NoSuchEnum>', 'facets': []})
    elif kind == 'duplicate_attr_via_use':
        c = [(e, u) for e in els for u in e['uses']]
        if not c:
            return None
        e, u = rnd.choice(c)
        ga = [a for g in gs if g['name'] in closure(gs, u) for a in g['attrs']]
        if not ga:
            return None
        e['attrs'].append({'name': rnd.choice(ga)['name'], 'type': 'int', 'facets': []})
    return s


# ---- the contract (oracle) -----------------------------------------------------------------------------------------------
def post_normal(ms, schema):
    """independent re-check of the documented rules on an accepted schema; returns the list of violated rules"""
    bad = []
    containers = list(schema.groups.values()) + list(schema.elements.values())
    namespaces = {m.target for c in containers for m in c.members if isinstance(m, ms.Attr) and m.type == 'id'}
    for c in containers:
        for m in c.members:
            if isinstance(m, ms.Use) and m.group not in schema.groups:
                bad.append('dangling use %s' % m.group)
    # cycles (own iterative search)
    color = {}
    for start in schema.groups:
        stack = [(start, iter([m.group for m in schema.groups[start].members if isinstance(m, ms.Use)]))]
        path = [start]
        if color.get(start) == 2:
            continue
        while stack:
            n, it = stack[-1]
            nxt = next(it, None)
            if nxt is None:
                color[n] = 2
                stack.pop()
                path.pop()
            elif nxt in path:
                bad.append('use cycle through %s' % nxt)
                stack = []
            elif nxt in schema.groups and color.get(nxt) != 2:
                path.append(nxt)
                stack.append((nxt, iter([m.group for m in schema.groups[nxt].members if isinstance(m, ms.Use)])))
    if bad:
        return bad

    def expand(members, depth=0):
        out = []
        work = [iter(members)]
        while work:
            m = next(work[-1], None)
            if m is None:
                work.pop()
            elif isinstance(m, ms.Attr):
                out.append(m)
            elif isinstance(m, ms.Use):
                work.append(iter(schema.groups[m.group].members))
        return out
    for e in schema.elements.values():
        names = [a.name for a in expand(e.members)]
        if len(names) != len(set(names)):
            bad.append('duplicate attribute after expansion in %s' % e.name)
        for ch in e.children():
            if ch.name not in schema.elements:
                bad.append('dangling child %s' % ch.name)
        alias = e.facets.get('alias')
        if alias is not None and alias not in schema.elements:
            bad.append('dangling alias')
    for en in schema.enums.values():
        if not en.items or len(en.keywords()) != len(set(en.keywords())):
            bad.append('enum %s empty or with duplicate keywords' % en.name)
    for c in containers:
        for a in c.members:
            if not isinstance(a, ms.Attr):
                continue
            lo, hi = a.arity.lo, a.arity.hi
            if lo < 0 or (isinstance(hi, int) and hi < lo):
                bad.append('ill-formed arity of %s' % a.name)
            if a.type in ('enum', 'flags') and a.target not in schema.enums:
                bad.append('dangling enum of %s' % a.name)
            if a.type == 'ref' and a.target not in namespaces:
                bad.append('dangling ref namespace of %s' % a.name)
            d = a.default
            if d is None:
                continue
            if a.facets.get('required'):
                bad.append('required attribute %s has a default' % a.name)
            if a.type in ('ref', 'id', 'chars'):
                bad.append('%s attribute %s has a default' % (a.type, a.name))
            elif a.type == 'enum':
                if d not in schema.enums[a.target].keywords():
                    bad.append('enum default of %s is not a keyword' % a.name)
            elif a.type == 'bool':
                if d not in ('true', 'false'):
                    bad.append('bool default of %s' % a.name)
            elif a.type in ('string', 'file'):
                if not isinstance(d, str):
                    bad.append('text default of %s' % a.name)
            elif a.type in SCALARS:
                if isinstance(d, str):
                    bad.append('numeric default of %s is text' % a.name)
                else:
                    n = len(d) if isinstance(d, tuple) else 1
                    if n < lo or (isinstance(hi, int) and n > hi) or (isinstance(d, tuple) and a.arity.is_scalar()):
                        bad.append('default of %s inconsistent with its arity' % a.name)
    return bad


def run_one(ms, text, limit=10):
    """-> (outcome, detail): 'schema' | 'schema_error' | 'escaped' | 'bad_line' | 'unsound'"""
    nlines = text.count('\n') + 1
    import signal

    def _hang(sig, frm):
        raise TimeoutError('parse_string did not return within %d s' % limit)
    signal.signal(signal.SIGALRM, _hang)
    signal.alarm(limit)
    try:
        try:
            schema = ms.parse_string(text)
            for el in schema.elements.values():        # what every generator does next with an accepted schema
                schema.expanded_attrs(el)
        finally:
            signal.alarm(0)
    except ms.SchemaError as e:
        if not (isinstance(e.line, int) and 1 <= e.line <= nlines):
            return 'bad_line', 'SchemaError line %r outside 1..%d' % (e.line, nlines)
        return 'schema_error', str(e)
    except BaseException as e:      # noqa
        return 'escaped', '%s: %s' % (type(e).__name__, str(e)[:100])
    bad = post_normal(ms, schema)
    if bad:
        return 'unsound', '; '.join(bad[:3])
    return 'schema', ''


TOKENS = ['enum', 'group', 'element', 'use', 'child', 'set', 'variant', 'exclusive', 'together', 'requires', 'oneof', 'double', 'int', 'bool', 'string',
          'chars', 'file', 'id', 'ref', 'flags', 'a', 'b', 'E', 'g', '{', '}', '(', ')', '[', ']', '<', '>', ':', '=', ',', '?', '!', '*', '+', '..',
          '0', '3', '1e999', '-2.5', '1e400', '99999999999999999999', '"s"', '""', '"', '#c', '\n', '\n', '\t', '@', '\\', '\x00', 'é']


def main():
    chk = Check('C41', level='exploration')
    import resource
    try:
        resource.setrlimit(resource.RLIMIT_AS, (6 << 30, 6 << 30))      # a runaway parse must fail here, not take the machine down
    except Exception:       # noqa
        pass
    path = os.path.join(REPO, REL)
    src = open(path).read()
    chk.sources[REL] = hashlib.sha256(src.encode()).hexdigest()
    # structural obligations (decided from the ast; these are the only deductive part)
    g = call_graph(ast.parse(src))
    rec = recursive_functions(g)
    chk.external('structure/no_recursive_function(the parser cannot exhaust the interpreter stack by its own recursion)', not rec, 'ast call graph',
                 detail='recursive: %s' % ', '.join(rec), model={'recursive_functions': rec} if rec else None)
    spec = importlib.util.spec_from_file_location('vf_mjcf_schema', path)
    ms = importlib.util.module_from_spec(spec)
    sys.modules['vf_mjcf_schema'] = ms
    spec.loader.exec_module(ms)
    seed = int(os.environ.get('VERIF_SEED', '0') or 0)
    rnd = random.Random(seed)
    n_valid = 150 if chk.tier == 'quick' else 3000
    counts = {'valid': 0, 'mutants': 0, 'random': 0, 'deep': 0}
    distinct = set()
    samples = []
    failures = []

    def fail(kind, text, detail):
        if len(failures) < 5:
            failures.append({'kind': kind, 'detail': detail, 'text': text[:1500]})
    for i in range(n_valid):
        sp = gen_spec(rnd)
        text = render(sp)
        out, detail = run_one(ms, text)
        counts['valid'] += 1
        distinct.add(hashlib.sha256(text.encode()).hexdigest())
        if i < 2:
            samples.append({'kind': 'generated valid schema', 'outcome': out, 'text': text})
        if out != 'schema':
            fail('generated valid schema not accepted cleanly: ' + out, text, detail)
            continue
        for kind in MUTATIONS:
            m = mutate(sp, kind, rnd)
            if m is None:
                continue
            t2 = render(m)
            out, detail = run_one(ms, t2)
            counts['mutants'] += 1
            distinct.add(hashlib.sha256(t2.encode()).hexdigest())
            if i == 0 and len(samples) < 5:
                samples.append({'kind': 'mutation ' + kind, 'outcome': out, 'detail': detail[:120], 'text': t2})
            if out == 'schema':
                fail('rule-breaking mutation accepted: ' + kind, t2, 'parse_string returned a schema')
            elif out != 'schema_error':
                fail('mutation %s: %s' % (kind, out), t2, detail)
    # numeral robustness: every number position of a valid schema (arities, defaults, facet values) replaced by awkward
    # numerals; whatever the parser decides, only a schema or a SchemaError may come out, and an accepted arity must be
    # the integer that was written
    import re as _re
    WEIRD = ['1e999', '1e400', '-1e999', '3.0', '1e2', '99999999999999999999', '9007199254740993', '-1', '0', '00', '.5', '1.', '1e', '0x10', 'nan', 'inf']
    for i in range(max(20, n_valid // 4)):
        base = render(gen_spec(rnd))
        spots = [m_ for m_ in _re.finditer(r'(?<![A-Za-z_0-9])-?\d+(?:\.\d+)?', base)]
        if not spots:
            continue
        for w in WEIRD:
            m_ = rnd.choice(spots)
            text = base[:m_.start()] + w + base[m_.end():]
            out, detail = run_one(ms, text)
            counts['random'] += 1
            if out not in ('schema', 'schema_error'):
                fail('awkward numeral %r: %s' % (w, out), text, detail)
            elif out == 'schema' and base[max(0, m_.start() - 1)] in '[.' and w.isdigit():
                pass
        # exact arity read-back for big integer literals
        for lit in ('9007199254740993', '12345678901234567890'):
            text = 'element e { a: double[%s] }\n' % lit
            try:
                sch = ms.parse_string(text)
                got = sch.elements['e'].members[0].arity
                if got.lo != int(lit) or got.hi != int(lit):
                    fail('arity literal not read back exactly', text, 'arity %r' % (got,))
            except ms.SchemaError:
                pass
            except BaseException as e:      # noqa
                fail('arity literal: escaped', text, type(e).__name__)
    # use cycles of every small shape, reached through a tail of groups declared before, between or after the cycle
    for tail in range(0, 4):
        for clen in range(1, 4):
            for order in range(3):
                names = ['t%d' % k for k in range(tail)] + ['c%d' % k for k in range(clen)]
                decl = {}
                for k in range(tail):
                    decl['t%d' % k] = 't%d' % (k + 1) if k + 1 < tail else 'c0'
                for k in range(clen):
                    decl['c%d' % k] = 'c%d' % ((k + 1) % clen)
                seq = list(names) if order == 0 else (list(reversed(names)) if order == 1 else rnd.sample(names, len(names)))
                text = ''.join('group %s { x%s: int\n use %s }\n' % (n_, n_, decl[n_]) for n_ in seq) + 'element e { use %s }\n' % names[0]
                out, detail = run_one(ms, text)
                counts['mutants'] += 1
                distinct.add(hashlib.sha256(text.encode()).hexdigest())
                if out != 'schema_error':
                    fail('use cycle (tail %d, length %d, declaration order %d) not rejected: %s' % (tail, clen, order, out), text, detail)
    for i in range(n_valid * 3):
        text = ' '.join(rnd.choice(TOKENS) for _ in range(rnd.randint(1, 25)))
        if rnd.random() < 0.5:      # splice random tokens into a valid schema
            base = render(gen_spec(rnd)).split(' ')
            for _ in range(rnd.randint(1, 3)):
                base.insert(rnd.randrange(len(base) + 1), rnd.choice(TOKENS))
            text = ' '.join(base)
        out, detail = run_one(ms, text)
        counts['random'] += 1
        if i == 0:
            samples.append({'kind': 'random token stream', 'outcome': out, 'detail': detail[:120], 'text': text[:300]})
        if out not in ('schema', 'schema_error'):
            fail('token stream: ' + out, text, detail)
    for depth in ((50, 1200) if chk.tier == 'quick' else (50, 1200, 2000)):      # deep use chains and long cycles
        for text in (''.join('group g%d { use g%d }\n' % (i, i + 1) for i in range(depth)) + 'group g%d { x: int }\nelement e { use g0 }\n' % depth,
                     ''.join('group c%d { use c%d }\n' % (i, (i + 1) % depth) for i in range(depth))):
            out, detail = run_one(ms, text, limit=300)       # the cycle check is cubic in the chain depth: slow, not wrong
            counts['deep'] += 1
            if out not in ('schema', 'schema_error'):
                fail('deep use chain (%d): %s' % (depth, out), text[:300], detail)
    total = sum(counts.values())
    ok = not failures
    chk.external('bounded/contract_holds_on_every_explored_text', ok, 'bounded exploration (contract as oracle)', detail=str(failures[:2])[:600],
                 model={'reproduced': True, 'ran': 'the real parse_string on the texts below', 'failures': failures} if failures else None)
    chk.extra_cov.update({'evaluations': total, 'distinct_nontrivial': len(distinct), 'samples': samples,
                          'rule': 'generated valid schemas must parse to a schema satisfying the independent rule re-check; each of %d rule-breaking mutations must raise SchemaError; '
                                  'random token streams and deep use chains must return a schema or raise SchemaError with a line inside the text; '
                                  'distinct_nontrivial counts distinct texts (sha256) among the generated valid schemas and their rule-breaking mutants' % len(MUTATIONS),
                          'explored': counts, 'seed': seed})
    chk.bounded.append({'what': 'parse_string under its contract', 'bound': '%d generated schemas x %d mutations, %d token streams, use chains up to depth 1200 (quick) / 2000 (thorough); seed %d' % (n_valid, len(MUTATIONS), n_valid * 3, seed),
                        'result': 'ok' if ok else failures[:2], 'counted_as_proved': False})
    chk.assumptions |= {'bounded exploration only: texts outside the generated family are not covered; the oracle re-implements the documented rules independently of _validate'}
    chk.out_of_reach += ['a deductive proof of totality / soundness of the parser (regex lexing, recursive data, dynamic typing: no Python verifier in the sandbox)']
    return chk.finish()
