"""C11 - constraint forces are admissible (the part a contract on one call can decide)."""
import os
import z3
from vlib.report import Check
from vlib.cast import VERIF, load_tu, FrontEndError
from vlib.symex import Obligation
from props import C12

SHIM2 = os.path.join(VERIF, 'shims', 'c11_pyramid.c')


def admissibility(cfg, res, recs, tu):
    exe = res.exe
    n, dim = cfg['nefc'], cfg['dim']
    base = list(res.pre.pc) + list(exe.all_axioms)
    P = res.params
    obs = []
    pre = '[%s]' % cfg['name']
    for rec in recs:
        tag = pre + 'path' + (rec['suffix'] or '#0')
        asm = base + rec['pc']
        f = rec['force']
        if cfg['name'] == 'frictionloss':
            fl = res.pre.load(exe._normalize(P['floss'].with_(idx=(0,))))
            obs.append(Obligation('%s/friction_loss_force_within_bound' % tag, asm, z3.And(f[0] <= fl, f[0] >= -fl), 'post'))
        if cfg['name'] == 'inequality':
            obs.append(Obligation('%s/unilateral_force_nonnegative' % tag, asm, f[0] >= 0, 'post'))
        if cfg['elliptic']:
            cp = P['contact']
            fr = [res.pre.load(exe._normalize(cp.with_(path=('friction',), idx=cp.idx + (k,), ct=cp.ct.field('friction').of))) for k in range(dim - 1)]
            obs.append(Obligation('%s/normal_force_nonnegative' % tag, asm, f[0] >= 0, 'post'))
            # friction cone: sqrt(sum (f_j / friction_j)^2) <= f_0, stated without the root
            obs.append(Obligation('%s/inside_friction_cone' % tag, asm,
                                  z3.Sum([(f[j] / fr[j - 1]) * (f[j] / fr[j - 1]) for j in range(1, dim)]) <= f[0] * f[0], 'post'))
    return obs


def pyramid_contracts(dim):
    n = dim - 1
    arr = lambda k: {'n': k}
    inside = ' and '.join('force[%d] / mu[%d] <= force[0] / %d and force[%d] / mu[%d] >= -force[0] / %d' % (i + 1, i, n, i + 1, i, n) for i in range(n))
    return {
        '__auto_inline__': True,
        'c11_roundtrip': {
            'params': {'out': arr(dim), 'pyr': arr(2 * n), 'force': arr(dim), 'mu': arr(n)},
            'requires': {'mu_pos': ' and '.join('mu[%d] > 0' % i for i in range(n)), 'inside_pyramid': inside},
            'ensures': dict([('decode_encode_identity_%d' % k, 'out[%d] == force[%d]' % (k, k)) for k in range(dim)] +
                            [('pyramid_nonneg', ' and '.join('pyr[%d] >= 0' % k for k in range(2 * n)))]),
            'loops': {}, 'no_error': True},
        'c11_decode': {
            'params': {'force': arr(dim), 'pyr': arr(2 * n), 'mu': arr(n)},
            'requires': {'mu_pos': ' and '.join('mu[%d] > 0' % i for i in range(n)),
                         'edges_nonneg': ' and '.join('pyr[%d] >= 0' % k for k in range(2 * n))},
            'ensures': dict([('normal_is_sum_of_edges', 'force[0] == ' + ' + '.join('pyr[%d]' % k for k in range(2 * n))),
                             ('normal_nonneg', 'force[0] >= 0')] +
                            [('tangent_%d_within_mu_times_normal' % i, 'force[%d] <= mu[%d] * force[0] and force[%d] >= -mu[%d] * force[0]' % (i + 1, i, i + 1, i))
                             for i in range(n)]),
            'no_error': True},
    }


def main():
    chk = Check('C11')
    chk.timeout = 30 if chk.tier == 'quick' else 300
    try:
        tu = load_tu('verif:shims/c12_update.c', abspath=C12.SHIM)
    except FrontEndError as e:
        chk.undecided.append('front end: %s' % e)
        return chk.finish()
    import hashlib
    from vlib.cast import REPO
    for f in ('src/engine/engine_core_constraint.c', 'src/engine/engine_util_blas.c', 'src/engine/engine_util_misc.c'):
        chk.sources[f] = hashlib.sha256(open(os.path.join(REPO, f), 'rb').read()).hexdigest()
    for cfg in C12.CONFIGS:
        if cfg['name'] == 'equality':
            continue
        try:
            res, recs = C12.run_config(cfg, tu)
        except FrontEndError as e:
            chk.undecided.append('%s: %s' % (cfg['name'], e))
            continue
        obs = admissibility(cfg, res, recs, tu)
        chk.add_obligations(res.obligations + obs, {'function': C12.FN, 'file': 'src/engine/engine_core_constraint.c', 'block': cfg['name'],
                                                    'zones(paths)': len(recs), 'status': 'under-contract (real mode)', 'obligations': len(obs)})
        chk.assumptions |= res.assumed
    for dim in (3, 4, 6):
        C = pyramid_contracts(dim)
        for fn in ('c11_roundtrip', 'c11_decode'):
            chk.unit('verif:shims/c11_pyramid.c', fn, C, 'math', 'real', abspath=SHIM2, check_arith=False, prefix='[dim=%d]' % dim, fixed={'dim': dim})
    # frictionless contacts (condim 1): one row, the force is the single pyramid entry
    C1 = {'__auto_inline__': True,
          'c11_decode': {'params': {'force': {'n': 1}, 'pyr': {'n': 1}, 'mu': {'n': 1}}, 'requires': {'edge_nonneg': 'pyr[0] >= 0'},
                         'ensures': {'normal_is_the_single_edge': 'force[0] == pyr[0]', 'normal_nonneg': 'force[0] >= 0'}, 'no_error': True}}
    chk.unit('verif:shims/c11_pyramid.c', 'c11_decode', C1, 'math', 'real', abspath=SHIM2, check_arith=False, prefix='[dim=1]', fixed={'dim': 1})
    # the projection primitive of the PGS sweep: every non-elliptic row (limits, frictionless / pyramidal contacts) is clamped
    # to a non-negative force; an elliptic block with negative normal force is zeroed
    PC = {'__auto_inline__': False,
          'projectEllipsoid': {'assumed': True, 'requires': {}, 'assigns': ['friction[*]'], 'param_names': None,
                               'ensures': {'writes_only_the_friction_components': 'forall(lambda j: implies(j < off(friction) or j >= off(friction) + dim - 1, elem(friction, j) == old(elem(friction, j))))'}},
          'mju_zero': {'requires': {'n': 'n >= 0'}, 'assigns': ['res[*]'], 'ensures': {'zeroed': 'forall(lambda j: implies(off(res) <= j and j < off(res) + n, elem(res, j) == 0))',
                                                                                       'rest': 'forall(lambda j: implies(j < off(res) or j >= off(res) + n, elem(res, j) == old(elem(res, j))))'}},
          'projectCone': {'ghost_params': {'LEN': 'int'}, 'params': {'force': {'len': 'LEN'}, 'mu': {'len': 'LEN'}},
                          'requires': {'block': '1 <= dim and dim <= LEN and LEN <= 6'}, 'assigns': ['force[*]'], 'no_error': True,
                          'ensures': {'non_elliptic_rows_end_non_negative': 'implies(type != mjCNSTR_CONTACT_ELLIPTIC, force[0] >= 0 and (implies(old(force[0]) >= 0, force[0] == old(force[0]))))',
                                      'elliptic_block_with_negative_normal_is_zeroed': 'implies(type == mjCNSTR_CONTACT_ELLIPTIC and old(force[0]) < 0, forall(lambda k: implies(0 <= k and k < dim, force[k] == 0)))',
                                      'normal_force_never_negative_afterwards': 'force[0] >= 0'}}}
    PC['projectEllipsoid'].pop('param_names')
    chk.unit('src/engine/engine_solver.c', 'projectCone', PC, 'math', 'real', check_arith=False)
    chk.assumptions |= {'machine doubles treated as mathematical reals',
                        'efc_D > 0, efc_R > 0, frictionloss >= 0, mu > 0, friction > 0, R[j]*friction[j-1]^2 == R[0]*mu^2 (mj_makeImpedance)',
                        'Newton and CG return the efc_force computed by mj_constraintUpdate_impl at their final iterate: the '
                        'admissibility clauses are proved for every jar, hence for the final one'}
    chk.assumptions.add('mj_contactForce: the pyramidal branch uses mju_decodePyramid by frame only (its decoding is proved through the dim-wise clients above); mj_isPyramidal is named by a ghost; valid contacts have their rows inside efc_force')
    chk.out_of_reach += ['PGS / noslip (solPGS, projectCone iterate): projection loops', 'qfrc_constraint = J^T efc_force (mj_mulJacTVec)',
                         'islands/sleeping re-assembly of efc_force']
    # what the user reads back for one contact (dispatch on the cone type, adhesion, zero for contacts outside the solver)
    from contracts import contactforce
    chk.unit('src/engine/engine_core_util.c', 'mj_contactForce', contactforce.contracts(), 'math', 'real', check_arith=False)
    return chk.finish()
