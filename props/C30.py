"""C30 - numerical blow-ups are contained (the per-call part)."""
from vlib.report import Check
from contracts import check


def main():
    chk = Check('C30')
    C = check.contracts()
    chk.unit('src/engine/engine_util_misc.c', 'mju_isBad', C, 'math', 'fp')
    chk.unit('src/engine/engine_core_util.c', 'mj_warning', C, 'math', 'fp', check_arith=False)
    for fn in ('mj_checkPos', 'mj_checkVel', 'mj_checkAcc'):
        chk.unit('src/engine/engine_forward.c', fn, C, 'math', 'fp')
    chk.assumptions |= {'mj_resetData clears the warning counters and may rewrite all of mjData (assumed contract; its body is not verified)',
                        'mj_forward keeps the warning statistics (assumed)', 'warning counters stay below INT_MAX - 2'}
    chk.out_of_reach += ['"after mj_step every state component is finite": whole pipeline in floating point',
                         'the bad-ctrl check inside mj_fwdActuation (650-line function, not under contract)',
                         'which entries of a sleeping tree may carry a bad value (the sleep filter checks awake dofs only, by design)']
    return chk.finish()
