"""C30 - numerical blow-ups are contained (the per-call part)."""
from vlib.report import Check
from contracts import check


def main():
    chk = Check('C30')
    C = check.contracts()
    chk.unit('src/engine/engine_util_misc.c', 'mju_isBad', C, 'math', 'fp')
    chk.unit('src/engine/engine_core_util.c', 'mj_warning', C, 'math', 'fp', check_arith=False)
    for fn in ('mj_checkPos', 'mj_checkVel', 'mj_checkAcc'):
        chk.unit('src/engine/engine_forward.c', fn, C, 'math', 'fp')
    # the bad-control check: a PREFIX contract of mj_fwdActuation (entry .. exit of the control-check loop; the path stops there)
    from contracts import actuation
    chk.unit('src/engine/engine_forward.c', 'mj_fwdActuation', actuation.contracts(), 'math', 'fp', prefix='[prefix]')
    chk.assumptions |= {'mj_fwdActuation is verified as a prefix (up to the exit of the control-check loop): the activation dynamics and force computation after it are not part of the verified text',
                        'mj_fwdActuation prefix: the stack allocator returns a fresh block of the requested size or does not return (its body is proved under C19); mj_readCtrl (delayed controls) and clampVec '
                        '(proved under C27 for NaN-free input) are used by frame only; the timer callback mjcb_time is effect-free; timer counter below INT_MAX; actuator control blocks lie inside ctrl (model invariant)'}
    chk.assumptions |= {'mj_resetData clears the warning counters and may rewrite all of mjData (assumed contract; its body is not verified)',
                        'mj_forward keeps the warning statistics (assumed)', 'warning counters stay below INT_MAX - 2'}
    chk.out_of_reach += ['"after mj_step every state component is finite": whole pipeline in floating point',
                         'which entries of a sleeping tree may carry a bad value (the sleep filter checks awake dofs only, by design)']
    return chk.finish()
