"""C12 - the constraint cost has consistent derivatives (and C11's admissibility clauses, see props/C11.py).

The real mj_constraintUpdate_impl is executed symbolically (real arithmetic) on one constraint *block* at a time
(an equality row, a friction-loss row, a non-elliptic inequality row, an elliptic contact of dim 3/4/6), one
obligation set per zone (path). Derivatives of the path's cost are computed symbolically from the executed code's
own output expressions (vlib/diff.py) - nothing is restated by hand."""
import itertools
import os
import z3
from vlib.report import Check
from vlib.cast import VERIF, load_tu
from vlib.verify import verify_function
from vlib.symex import Obligation
from vlib.diff import diff, closure
from vlib.state import Ptr

SHIM = os.path.join(VERIF, 'shims', 'c12_update.c')
FN = 'mj_constraintUpdate_impl'

CONFIGS = [
    dict(name='equality', ne=1, nf=0, nefc=1, elliptic=False, dim=1),
    dict(name='frictionloss', ne=0, nf=1, nefc=1, elliptic=False, dim=1),
    dict(name='inequality', ne=0, nf=0, nefc=1, elliptic=False, dim=1),
    dict(name='elliptic3', ne=0, nf=0, nefc=3, elliptic=True, dim=3),
    dict(name='elliptic4', ne=0, nf=0, nefc=4, elliptic=True, dim=4),
    dict(name='elliptic6', ne=0, nf=0, nefc=6, elliptic=True, dim=6),
]

STATE_NAMES = {}


def run_config(cfg, tu):
    """returns (exe, pre, list of path records). A path record: dict(pc, force, state, cost, H)."""
    n, dim = cfg['nefc'], cfg['dim']
    recs = []
    ELL = tu.enum_consts['mjCNSTR_CONTACT_ELLIPTIC']

    def setup(exe, st, res):
        sem = exe.sem
        tp, idp, cp = res.params['type'], res.params['id'], res.params['contact']
        for k in range(n):
            st.store(idp.with_(idx=(k,)), sem.const(0, idp.ct))
            if cfg['elliptic']:
                st.store(tp.with_(idx=(k,)), sem.const(ELL, tp.ct))
        st.store(cp.with_(path=('dim',), ct=cp.ct.field('dim')), sem.const(dim, cp.ct.field('dim')))

    def hook(exe, s, pre, rv, suffix):
        P = res_holder[0].params
        n_pre = len(pre.pc)

        def cell(name, k):
            p = P[name]
            return s.load(exe._normalize(p.with_(idx=(k,))))
        rec = {'pc': list(s.pc[n_pre:]), 'force': [cell('force', k) for k in range(n)], 'state': [cell('state', k) for k in range(n)],
               'cost': cell('cost', 0), 'suffix': suffix}
        if cfg['elliptic']:
            cp = P['contact']
            hp = cp.with_(path=('H',), ct=cp.ct.field('H'))
            rec['H'] = [s.load(exe._normalize(hp.with_(idx=hp.idx + (k,), ct=hp.ct.of))) for k in range(dim * dim)]
        recs.append(rec)

    req = {'D_pos': ' and '.join('D[%d] > 0' % k for k in range(n)),
           'R_pos': ' and '.join('R[%d] > 0' % k for k in range(n)),
           'floss_nonneg': ' and '.join('floss[%d] >= 0' % k for k in range(n))}
    if cfg['name'] == 'frictionloss':
        req['D_is_inverse_R'] = 'D[0] * R[0] == 1'
    if cfg['name'] == 'inequality':
        req['not_elliptic'] = 'type[0] != mjCNSTR_CONTACT_ELLIPTIC'
    if cfg['elliptic']:
        req['mu_pos'] = 'contact.mu > 0 and ' + ' and '.join('contact.friction[%d] > 0' % k for k in range(dim - 1))
        # how mj_makeImpedance builds the regularisation of an elliptic contact: R[j]*friction[j-1]^2 == R[0]*mu^2, D = 1/R
        req['consistent_regularisation'] = ' and '.join('D[%d] * contact.mu * contact.mu == D[0] * contact.friction[%d] * contact.friction[%d]' % (j, j - 1, j - 1)
                                                       for j in range(1, dim))
    arr = {'n': n}
    con = {'requires': req,
           'params': {'D': arr, 'R': arr, 'floss': arr, 'jar': arr, 'type': arr, 'id': arr, 'state': arr, 'force': arr,
                      'contact': {'n': 1}, 'cost': {'n': 1}},
           'ensures_hook': hook, 'no_error': True}
    C = {'__auto_inline__': True, '__no_merge__': True, FN: con}
    res_holder = [None]

    def setup2(exe, st, res):
        res_holder[0] = res
        setup(exe, st, res)
    res = verify_function(tu, FN, C, 'math', 'real', prefix='[%s]' % cfg['name'], check_arith=False, setup=setup2,
                          fixed={'ne': cfg['ne'], 'nf': cfg['nf'], 'nefc': n, 'flg_coneHessian': 1})
    return res, recs


def jar_syms(res, n):
    p = res.params['jar']
    return [res.pre.load(res.exe._normalize(p.with_(idx=(k,)))) for k in range(n)]


def build_obligations(cfg, res, recs, tu, which=('C12',)):
    exe = res.exe
    n, dim = cfg['nefc'], cfg['dim']
    jar = jar_syms(res, n)
    roots = getattr(exe, 'sqrt_defs', {})
    base = list(res.pre.pc) + list(exe.all_axioms)
    obs = []
    pre = '[%s]' % cfg['name']
    ST = {k: tu.enum_consts['mjCNSTRSTATE_' + k] for k in ('SATISFIED', 'QUADRATIC', 'LINEARNEG', 'LINEARPOS', 'CONE')}
    for rec in recs:
        tag = pre + 'path' + (rec['suffix'] or '#0')
        asm = base + rec['pc']
        # on a path every root symbol that is divided by is positive (the branch conditions exclude T <= 0 where needed)
        for k in range(n):
            dk = diff(rec['cost'], jar[k], roots)
            obs.append(Obligation('%s/force_is_minus_gradient_%d' % (tag, k), asm, rec['force'][k] == -dk, 'post'))
        st0 = z3.simplify(rec['state'][0])
        sv = st0.as_long() if z3.is_int_value(st0) else None
        obs.append(Obligation('%s/state_replicated' % tag, asm, z3.And(*[rec['state'][k] == rec['state'][0] for k in range(n)]), 'post'))
        # zone code agrees with the force shape
        if sv == ST['SATISFIED']:
            obs.append(Obligation('%s/satisfied_zone_has_zero_force_and_cost' % tag, asm,
                                  z3.And(*([f == 0 for f in rec['force']] + [rec['cost'] == 0])), 'post'))
        if cfg['elliptic'] and sv == ST['CONE']:
            H = rec['H']
            for k in range(dim):
                for j in range(dim):
                    dfk = diff(rec['force'][k], jar[j], roots)
                    obs.append(Obligation('%s/cone_hessian_%d%d_is_minus_dforce' % (tag, k, j), asm, H[k * dim + j] == -dfk, 'post'))
            obs.append(Obligation('%s/cone_hessian_symmetric' % tag, asm,
                                  z3.And(*[H[k * dim + j] == H[j * dim + k] for k in range(dim) for j in range(k)]), 'post'))
        # convexity of each piece along every coordinate (scalar rows: this is the whole statement)
        for k in range(n):
            d2 = diff(diff(rec['cost'], jar[k], roots), jar[k], roots)
            obs.append(Obligation('%s/second_derivative_nonneg_%d' % (tag, k), asm, d2 >= 0, 'post'))
    # C1 across zones: at any point in the closure of two zones the two pieces agree in value and gradient
    for (a, b) in itertools.combinations(range(len(recs)), 2):
        ra, rb = recs[a], recs[b]
        both = [closure(z3.And(*ra['pc'])) if ra['pc'] else z3.BoolVal(True), closure(z3.And(*rb['pc'])) if rb['pc'] else z3.BoolVal(True)]
        # root symbols stay defined on the closure (t >= 0, t*t == x are part of the axioms); divisions by a root that
        # vanishes on the common boundary are excluded by requiring the roots to be positive there
        pos = [t > 0 for (t, x) in roots.values()]
        tag = '%szones(%s,%s)' % (pre, ra['suffix'] or '#0', rb['suffix'] or '#0')
        obs.append(Obligation('%s/cost_continuous' % tag, base + both + pos, ra['cost'] == rb['cost'], 'post'))
        obs.append(Obligation('%s/force_continuous' % tag, base + both + pos,
                              z3.And(*[fa == fb for fa, fb in zip(ra['force'], rb['force'])]), 'post'))
    return obs


def main():
    chk = Check('C12')
    chk.timeout = 30 if chk.tier == 'quick' else 300
    try:
        tu = load_tu('verif:shims/c12_update.c', abspath=SHIM)
    except Exception as e:   # noqa
        chk.undecided.append('front end: %r' % e)
        return chk.finish()
    from vlib.cast import REPO
    import hashlib
    for f in ('src/engine/engine_core_constraint.c', 'src/engine/engine_util_blas.c'):
        chk.sources[f] = hashlib.sha256(open(os.path.join(REPO, f), 'rb').read()).hexdigest()
    for cfg in CONFIGS:
        if cfg['name'] == 'elliptic6' and chk.tier == 'quick' and os.environ.get('VERIF_C12_SKIP6'):
            continue
        try:
            res, recs = run_config(cfg, tu)
        except Exception as e:   # noqa
            from vlib.cast import FrontEndError
            if isinstance(e, FrontEndError):
                chk.undecided.append('%s: %s' % (cfg['name'], e))
                continue
            raise
        obs = build_obligations(cfg, res, recs, tu)
        chk.add_obligations(res.obligations + obs,
                            {'function': FN, 'file': 'src/engine/engine_core_constraint.c', 'block': cfg['name'], 'zones(paths)': len(recs),
                             'status': 'under-contract (real mode)', 'obligations': len(res.obligations) + len(obs)})
        chk.assumptions |= res.assumed
    chk.assumptions |= {
        'machine doubles treated as mathematical reals',
        'the main loop treats constraint blocks independently (each iteration reads and writes only the rows of its block and adds its '
        'term to the cost): the per-block obligations are proved, the composition over blocks is this frame fact',
        'efc_D > 0, efc_R > 0, frictionloss >= 0, mu > 0, friction > 0; D*R == 1 on friction-loss rows; '
        'R[j]*friction[j-1]^2 == R[0]*mu^2 on elliptic contacts (how mj_makeImpedance builds them)',
        'symbolic differentiation routine vlib/diff.py (sqrt through t*t == x)',
        'convexity: every piece has non-negative second derivative along each coordinate and the pieces join C1; for scalar rows '
        '(equality, friction loss, inequality) a C1 function with non-decreasing derivative on each piece is convex (mathematical fact); '
        'for elliptic blocks positive semi-definiteness of the full cone Hessian is NOT proved here',
    }
    chk.out_of_reach += ['qfrc_constraint = J^T efc_force (mj_mulJacTVec: sparse product loop, contract assumed)',
                         'joint convexity of the elliptic-cone cost (PSD of the symbolic Hessian at dim 3-6)']
    return chk.finish()
