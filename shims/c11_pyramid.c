// C11 client: pyramid encode/decode (real bodies from engine_util_misc.c). No arithmetic of its own.
#include "engine/engine_util_blas.c"
#include "engine/engine_util_misc.c"
void c11_roundtrip(mjtNum* out, mjtNum* pyr, const mjtNum* force, const mjtNum* mu, int dim) {
  mju_encodePyramid(pyr, force, mu, dim);
  mju_decodePyramid(out, pyr, mu, dim);
}
void c11_decode(mjtNum* force, const mjtNum* pyr, const mjtNum* mu, int dim) { mju_decodePyramid(force, pyr, mu, dim); }
