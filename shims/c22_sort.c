// C22: instantiations of the repository's sorting macros (src/engine/engine_sort.h) at a generic element type.
// The macro BODIES are the repository's; this file contributes only the element type and the comparator prototype.
// vf_elem.id is a ghost label: no macro reads it (vf_cmp's contract depends on .key only), it just travels with the
// element through every copy, which is what makes "permutation" and "stable" first-order statements.
#include <string.h>
#include "engine/engine_sort.h"

typedef struct { int key; int id; } vf_elem;

// any total preorder that factors through an integer key (contract: sign(result) == sign(a->key - b->key), pure)
int vf_cmp(const vf_elem* a, const vf_elem* b, void* context);

mjSORT(vf_sort, vf_elem, vf_cmp);
mjPARTIAL_SORT(vf_select, vf_elem, vf_cmp);

// the sub-macros on their own (same bodies), so that each has its own contract
void vf_insertion(vf_elem* arr, int start, int end, void* context) {
  _mjINSERTION_SORT(vf_elem, arr, start, end, vf_cmp, context);
}
void vf_merge(vf_elem* src, vf_elem* dest, int start, int mid, int end, void* context) {
  _mjMERGE(vf_elem, src, dest, start, mid, end, vf_cmp, context);
}
void vf_sift(vf_elem* buf, int start, int end, void* context) {
  _mjSIFT_DOWN(vf_elem, buf, start, end, vf_cmp, context);
}
// keep the static inline instantiations alive
void vf_use(vf_elem* a, vf_elem* b, int n, int k) { vf_sort(a, b, n, 0); vf_select(a, b, n, k, 0); }
