// C23 client lemma: only calls of the data-movement routines (their contracts, never their bodies).
#include <mujoco/mujoco.h>
#include "engine/engine_util_misc.h"

// "gathering with the index list that was used to scatter returns the scattered vector"
void c23_roundtrip(mjtNum* res, mjtNum* tmp, const mjtNum* vec, const int* ind, int n) {
  mju_scatter(tmp, vec, ind, n);
  mju_gather(res, tmp, ind, n);
}

void c23_roundtrip_int(int* res, int* tmp, const int* vec, const int* ind, int n) {
  mju_scatterInt(tmp, vec, ind, n);
  mju_gatherInt(res, tmp, ind, n);
}
