// C24 client lemmas: group laws of the rotation / pose utilities. This file contains no arithmetic of its own: every
// function only CALLS the repository's utilities, whose real bodies (textually included below) are executed
// symbolically. Each law is the postcondition of one client (contracts/spatial.py).
#include "engine/engine_util_blas.c"
#include "engine/engine_util_spatial.c"

void c24_assoc(mjtNum l[4], mjtNum r[4], const mjtNum a[4], const mjtNum b[4], const mjtNum c[4]) {
  mjtNum ab[4], bc[4];
  mju_mulQuat(ab, a, b); mju_mulQuat(l, ab, c);
  mju_mulQuat(bc, b, c); mju_mulQuat(r, a, bc);
}
void c24_mul(mjtNum ab[4], const mjtNum a[4], const mjtNum b[4]) { mju_mulQuat(ab, a, b); }
void c24_neg(mjtNum p[4], mjtNum n[4], const mjtNum a[4]) { mju_negQuat(n, a); mju_mulQuat(p, a, n); }
void c24_mat(mjtNum m[9], const mjtNum q[4]) { mju_quat2Mat(m, q); }
void c24_mat_hom(mjtNum mab[9], mjtNum ma[9], mjtNum mb[9], const mjtNum a[4], const mjtNum b[4]) {
  mjtNum ab[4];
  mju_mulQuat(ab, a, b); mju_quat2Mat(mab, ab); mju_quat2Mat(ma, a); mju_quat2Mat(mb, b);
}
void c24_rot(mjtNum r[3], mjtNum m[9], const mjtNum v[3], const mjtNum q[4]) { mju_rotVecQuat(r, v, q); mju_quat2Mat(m, q); }
void c24_rot_inline(mjtNum r[3], mjtNum m[9], const mjtNum v[3], const mjtNum q[4]) { mji_rotVecQuat(r, v, q); mju_quat2Mat(m, q); }
void c24_mulaxis(mjtNum l[4], mjtNum r[4], const mjtNum q[4], const mjtNum axis[3]) {
  mjtNum ax[4] = {0, axis[0], axis[1], axis[2]};
  mju_mulQuatAxis(l, q, axis); mju_mulQuat(r, q, ax);
}
void c24_mul_inline(mjtNum l[4], mjtNum r[4], const mjtNum a[4], const mjtNum b[4]) { mji_mulQuat(l, a, b); mju_mulQuat(r, a, b); }
void c24_axisangle(mjtNum q[4], const mjtNum axis[3], mjtNum angle) { mju_axisAngle2Quat(q, axis, angle); }
void c24_cross(mjtNum c[3], mjtNum d[3], const mjtNum a[3], const mjtNum b[3]) { mju_cross(c, a, b); mju_cross(d, b, a); }
void c24_deriv(mjtNum dq[4], mjtNum r[4], const mjtNum q[4], const mjtNum w[3]) {
  mjtNum wq[4] = {0, w[0], w[1], w[2]};
  mju_derivQuat(dq, q, w); mju_mulQuat(r, wq, q);    // dq/dt = 1/2 (0,w) * q
}
void c24_pose_inv(mjtNum p[3], mjtNum q[4], const mjtNum pos[3], const mjtNum quat[4]) {
  mjtNum np[3], nq[4];
  mju_negPose(np, nq, pos, quat);
  mju_mulPose(p, q, pos, quat, np, nq);
}
void c24_trn(mjtNum l[3], mjtNum r[3], mjtNum rq[4], const mjtNum pos[3], const mjtNum quat[4], const mjtNum v[3]) {
  // transforming v by the pose == position part of pose * (v, identity)
  mjtNum id[4] = {1, 0, 0, 0};
  mju_trnVecPose(l, pos, quat, v);
  mju_mulPose(r, rq, pos, quat, v, id);
}
void c24_frame(mjtNum f[9]) { mju_makeFrame(f); }
void c24_euler(mjtNum q[4], const mjtNum e[3], const char* seq) { mju_euler2Quat(q, e, seq); }
void c24_mat2quat(mjtNum m2[9], mjtNum q2[4], const mjtNum q[4]) { mjtNum m[9]; mju_quat2Mat(m, q); mju_mat2Quat(q2, m); mju_quat2Mat(m2, q2); }
// quaternion integration composes the incremental rotation on the RIGHT (body frame): l = integrate(q, vel, scale), r = q * exp-rotation
void c24_integrate(mjtNum l[4], mjtNum r[4], const mjtNum q[4], const mjtNum vel[3], mjtNum scale) {
  mjtNum tmp[3], qrot[4];
  mju_copy4(l, q);
  mju_quatIntegrate(l, vel, scale);
  mju_copy3(tmp, vel);
  mjtNum angle = scale * mju_normalize3(tmp);
  mju_axisAngle2Quat(qrot, tmp, angle);
  mju_mulQuat(r, q, qrot);
}
