// C13: the real sphere/plane colliders and mju_makeFrame with the helpers they call, in one translation unit.
#include "engine/engine_util_blas.c"
#include "engine/engine_util_spatial.c"
#include "engine/engine_collision_primitive.c"
void c13_frame(mjtNum f[9]) { mju_makeFrame(f); }
