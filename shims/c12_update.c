// C12/C11: the real mj_constraintUpdate_impl together with the blas helpers it calls (mju_norm, mju_dot, mju_zero),
// so that their bodies are available in one translation unit. No code of its own.
#include "engine/engine_util_blas.c"
#include "engine/engine_core_constraint.c"
