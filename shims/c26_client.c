// C26 client lemmas: only calls of the public state API (contracts, never bodies).
#include <mujoco/mujoco.h>

// "mj_setState after mj_getState restores exactly those components and leaves all others untouched"
void c26_roundtrip(const mjModel* m, const mjData* d, mjData* d2, mjtNum* buf, int sig) {
  mj_getState(m, d, buf, sig);
  mj_setState(m, d2, buf, sig);
}
