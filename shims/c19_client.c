// C19 client lemmas. These functions contain no allocator logic: they only *call* the public
// allocator API of /repo (declared in <mujoco/mujoco.h>). They are verified against the callee
// CONTRACTS (never the bodies), which is how "mark; any allocations and writes; free restores the
// stack pointer" and its nesting follow from the per-function contracts for every sequence length.
#include <stddef.h>
#include <mujoco/mujoco.h>

void c19_client(mjData* d, int n, const size_t* sizes, size_t al, const size_t* ks, unsigned char v) {
  mj_markStack(d);
  for (int i = 0; i < n; i++) {
    unsigned char* p = (unsigned char*) mj_stackAllocByte(d, sizes[i], al);
    if (p && ks[i] < sizes[i]) p[ks[i]] = v;      // arbitrary write inside the returned block
  }
  mj_freeStack(d);
}

void c19_nested(mjData* d, size_t s1, size_t a1, size_t k1, int n, const size_t* sizes, size_t al,
                const size_t* ks, unsigned char v) {
  mj_markStack(d);
  unsigned char* p = (unsigned char*) mj_stackAllocByte(d, s1, a1);
  c19_client(d, n, sizes, al, ks, v);              // any balanced callee (by contract)
  if (p && k1 < s1) p[k1] = v;
  mj_freeStack(d);
}
