// C14 client lemmas: symmetry of the pair filters (the real static functions are reached by including the source file).
#include "engine/engine_collision_driver.c"
int c14_bitmask_sym(int t1, int a1, int t2, int a2) { return filterBitmask(t1, a1, t2, a2) == filterBitmask(t2, a2, t1, a1); }
int c14_bodypair_sym(int wb1, int wp1, int s1, int n1, int wb2, int wp2, int s2, int n2, int dsbl) {
  return filterBodyPair(wb1, wp1, s1, n1, wb2, wp2, s2, n2, dsbl) == filterBodyPair(wb2, wp2, s2, n2, wb1, wp1, s1, n1, dsbl);
}
int c14_box_sym(const mjtNum a[6], const mjtNum b[6], mjtNum margin) { return filterBox(a, b, margin) == filterBox(b, a, margin); }
int c14_sphere_sym(const mjtNum p[3], const mjtNum q[3], mjtNum bound) { return filterSphere(p, q, bound) == filterSphere(q, p, bound); }
