// stand-in for the absent libccd header: only the typedefs that
// engine_collision_convex.h's struct needs. No function using ccd is verified.
#ifndef VERIF_STUB_CCD_VEC3_H
#define VERIF_STUB_CCD_VEC3_H
typedef double ccd_real_t;
typedef struct { ccd_real_t v[3]; } ccd_vec3_t;
#endif
