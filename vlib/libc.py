"""Contracts of the libc functions the verified code uses (assumed; listed in evidence)."""
import z3
from .cast import FrontEndError, TInt, TFloat, TPtr, TArr, TStruct, TVoid
from .sem import simp
from .state import Ptr, RAW, _conc_idx


def _elem_ptr(exe, p):
    """normalise a pointer to 'element k of its leaf store': returns (ptr-with-scalar-ct, leaf type)."""
    if p.obj is None or p.obj is RAW:
        raise FrontEndError('memcpy/memset on NULL / raw address')
    lt = exe.leaf_type(p.obj, p.path)
    q = p
    if isinstance(q.ct, TArr):
        q = q.with_(idx=q.idx + (0,), ct=q.ct.of)
    q = exe._normalize(q.with_(ct=lt))
    return q, lt


def memcpy_hook(exe, st, node, args):
    """memcpy(dst, src, nbytes) with both pointers into stores of the same element type T and nbytes == n*sizeof(T):
    typed element copy dst[0,n) := src[0,n), everything else unchanged."""
    dst, src, nbytes = args[0], args[1], args[2]
    exe.assumed.add('libc memcpy/memmove: typed element copy of n*sizeof(T) bytes; regions do not overlap for memcpy')
    exe._check_deref(dst, st, node)
    exe._check_deref(src, st, node)
    if exe.contracts.get('__blob_memcpy__') and _is_blob_copy(exe, dst, src):
        return _memcpy_blob(exe, st, node, dst, src, nbytes)
    if isinstance(exe.leaf_type(dst.obj, dst.path), TStruct) or isinstance(dst.ct, TStruct):
        return _memcpy_structs(exe, st, node, dst, src, nbytes)
    d, dt = _elem_ptr(exe, dst)
    s, s_t = _elem_ptr(exe, src)
    if isinstance(dt, TStruct) or isinstance(s_t, TStruct):
        raise FrontEndError('memcpy of struct arrays')
    if exe.tu.sizeof(dt) != exe.tu.sizeof(s_t) or type(dt) is not type(s_t):
        raise FrontEndError('memcpy between different element types (%r <- %r)' % (dt, s_t))
    sz = exe.tu.sizeof(dt)
    sem = exe.sem
    if sem.int_mode == 'bv':
        n = z3.UDiv(nbytes, z3.BitVecVal(sz, 64))
        exe.emit('%s/memcpy_whole_elements@%s' % (exe.fn_stack[-1], exe._loc(node)), z3.URem(nbytes, z3.BitVecVal(sz, 64)) == 0, st, kind='arith')
    else:
        n = nbytes / sz
        exe.emit('%s/memcpy_whole_elements@%s' % (exe.fn_stack[-1], exe._loc(node)), nbytes % sz == 0, st, kind='arith')
    n = simp(n)
    copy_elems(exe, st, d, s, n, node)
    return dst


def _is_byte_buffer(exe, p):
    """the serialisation buffer: a flat byte array the contract marks with blob_buffer (byte-typed model arrays are not)"""
    if p.obj is None or p.obj is RAW or p.path:
        return False
    ct = p.obj.ct
    return isinstance(ct, TInt) and ct.width == 8 and p.obj.n is None and bool(p.obj.meta.get('blob_buffer'))


def _is_blob_copy(exe, dst, src):
    """serialisation copies: exactly one side is a flat byte buffer, the other a typed object."""
    if dst.obj is None or src.obj is None or dst.obj is RAW or src.obj is RAW:
        return False
    return _is_byte_buffer(exe, dst) != _is_byte_buffer(exe, src)


def bytes_available(exe, p):
    """(byte offset of p inside its innermost array or field, number of bytes from p to the end of it) as terms."""
    sem = exe.sem
    ix = exe._ix
    obj = p.obj
    if obj.n is None and not p.path:
        if obj.length is None:
            raise FrontEndError('byte copy into/from %s whose length the contract does not declare' % obj.name)
        sz = exe.tu.sizeof(obj.ct)
        ln = obj.length if not isinstance(obj.length, int) else sem.idx_const(obj.length)
        return simp(ix(p.idx[0]) * sz), simp((ln - ix(p.idx[0])) * sz)
    # a field of a struct object, or a local: the sub-object p designates
    ct = p.ct
    dims = exe.dims_of(obj, p.path)
    if len(p.idx) == len(dims) and len(dims) >= 2 and dims[-1] is not None and not isinstance(exe.type_at(obj, p.path), (TStruct,)) \
            and isinstance(_strip_to(exe.type_at(obj, p.path), len(dims) - 2), TArr):
        # pointer to element k of an embedded / local array: the rest of that array
        lt = exe.leaf_type(obj, p.path)
        sz = exe.tu.sizeof(lt)
        return simp(ix(p.idx[-1]) * sz), simp((sem.idx_const(dims[-1]) - ix(p.idx[-1])) * sz)
    if isinstance(ct, TVoid):
        ct = exe.type_at(obj, p.path)
    return sem.idx_const(0), sem.idx_const(exe.tu.sizeof(ct))


def _strip_to(ct, k):
    for _ in range(k):
        if isinstance(ct, TArr):
            ct = ct.of
    return ct


def _memcpy_blob(exe, st, node, dst, src, nbytes):
    """memcpy between a flat byte buffer and a typed object (serialisation). The bytes are not modelled: the destination
    range is havocked.  What is proved: both ranges lie inside their objects.  What is recorded: one event per copy
    (buffer offset, byte count, designator of the typed side), from which the save/load mirror obligations are built."""
    exe.assumed.add('libc memcpy between a byte buffer and a typed object: an exact byte copy (contents not modelled: destination havocked)')
    sem = exe.sem
    where = exe._loc(node)
    fn = exe.fn_stack[-1]
    caller = exe.fn_stack[-2] if len(exe.fn_stack) > 1 else fn
    zero = sem.idx_const(0)
    from .cexpr import narrow_idx
    nb = narrow_idx(exe, nbytes) if sem.int_mode != 'bv' else nbytes
    offs = {}
    k = st.ghost.get('$blobn', 0)
    for p, nm in ((dst, 'dst'), (src, 'src')):
        off, avail = bytes_available(exe, p)
        offs[nm] = off
        exe.emit('%s/blob_copy_in_bounds(%s:%s)#%d@%s' % (caller, nm, _desc(p), k, where),
                 z3.And(nb >= 0, off >= 0, nb <= avail), st, kind='bounds')
    typed, buf = (src, dst) if _is_byte_buffer(exe, dst) else (dst, src)
    ev = {'dir': 'write' if buf is dst else 'read', 'field': _desc(typed), 'typed_off': offs['src' if typed is src else 'dst'],
          'buf': buf.obj.name, 'buf_off': offs['dst' if buf is dst else 'src'], 'nbytes': nb, 'where': where}
    st.ghost['$blob'] = st.ghost.get('$blob', ()) + (ev,)
    st.ghost['$blobn'] = k + 1
    # effect: forget the destination range
    if buf is dst:
        exe.on_store(dst, None, st)
        old = st.array_term(dst.obj, dst.path)
        new = exe.fresh_array(dst.obj, dst.path, 'blob')
        q = z3.FreshConst(sem.idx_sort(), 'k')
        lo = exe._ix(dst.idx[0])
        st.set_array(dst.obj, dst.path, new)
        if not exe.contracts.get('__blob_forget_all__'):
            st.assume(z3.ForAll([q], z3.Implies(z3.Or(q < lo, q >= lo + nb), z3.Select(new, q) == z3.Select(old, q)), patterns=[z3.Select(new, q)]))
        return dst
    _havoc_typed(exe, st, typed, nb)
    return dst


def _desc(p):
    return p.obj.name + ''.join('.' + x for x in p.path)


def _havoc_typed(exe, st, p, nb):
    """forget the typed object range a blob copy writes: the whole field / struct / local array, or the element range."""
    from .cexpr import _paths_of
    obj = p.obj
    sem = exe.sem
    if obj.n is None and not p.path and not isinstance(obj.ct, TStruct):
        exe.on_store(p, None, st)
        old = st.array_term(obj, ())
        new = exe.fresh_array(obj, (), 'blob')
        q = z3.FreshConst(sem.idx_sort(), 'k')
        lo = exe._ix(p.idx[0])
        sz = exe.tu.sizeof(obj.ct)
        st.set_array(obj, (), new)
        if not exe.contracts.get('__blob_forget_all__'):
            # (forgetting the rest of the array as well is a sound over-approximation, used where nothing depends on it)
            st.assume(z3.ForAll([q], z3.Implies(z3.Or(q < lo, q * sz >= lo * sz + nb), z3.Select(new, q) == z3.Select(old, q)), patterns=[z3.Select(new, q)]))
        return
    for fpath in _paths_of(exe, obj, p.path):
        exe.on_store(p.with_(path=fpath), None, st)
        exe.flow._havoc_one(st, obj, fpath, 'blob')


def _memcpy_structs(exe, st, node, dst, src, nbytes):
    """memcpy between arrays of the same struct type: field-wise typed element copy."""
    from .cexpr import _paths_of
    sct = dst.ct if isinstance(dst.ct, TStruct) else exe.leaf_type(dst.obj, dst.path)
    s_ct = src.ct if isinstance(src.ct, TStruct) else exe.leaf_type(src.obj, src.path)
    if not isinstance(s_ct, TStruct) or s_ct.cstr() != sct.cstr():
        raise FrontEndError('memcpy between different struct types')
    sz = exe.tu.sizeof(sct)
    sem = exe.sem
    n = simp(nbytes / sz) if sem.int_mode != 'bv' else simp(z3.UDiv(nbytes, z3.BitVecVal(sz, 64)))
    exe.emit('%s/memcpy_whole_elements@%s' % (exe.fn_stack[-1], exe._loc(node)),
             (nbytes % sz == 0) if sem.int_mode != 'bv' else (z3.URem(nbytes, z3.BitVecVal(sz, 64)) == 0), st, kind='arith')
    for fpath in _paths_of(exe, dst.obj, dst.path):
        rel = fpath[len(dst.path):]
        lt = exe.leaf_type(dst.obj, fpath)
        if len(exe.dims_of(dst.obj, fpath)) != len(dst.idx):
            raise FrontEndError('memcpy of structs with embedded arrays')
        d = dst.with_(path=fpath, ct=lt)
        s = src.with_(path=src.path + rel, ct=lt)
        copy_elems(exe, st, d, s, n, node)
    return dst


def copy_elems(exe, st, d, s, n, node=None):
    sem = exe.sem
    ix = exe._ix
    doff, soff = ix(d.idx[-1]), ix(s.idx[-1])
    # bounds
    for p, nm in ((d, 'dst'), (s, 'src')):
        if p.obj.length is not None and len(p.idx) == 1:
            ln = p.obj.length if not isinstance(p.obj.length, int) else sem.idx_const(p.obj.length)
            exe.emit('%s/copy_in_bounds(%s:%s)@%s' % (exe.fn_stack[-1], nm, p.obj.name, exe._loc(node)),
                     z3.Or(n <= 0, z3.And(ix(p.idx[0]) >= 0, ix(p.idx[0]) + n <= ln)) if sem.int_mode != 'bv' else
                     z3.Or(n == 0, z3.And(z3.ULE(ix(p.idx[0]) + n, ln))), st, kind='bounds')
    cn = _conc_idx((n,))
    if cn is not None and cn[0] <= 64:
        vals = [st.load(s.with_(idx=s.idx[:-1] + (simp(soff + k),))) for k in range(cn[0])]
        for k, v in enumerate(vals):
            exe.on_store(d, v, st)
            st.store(d.with_(idx=d.idx[:-1] + (simp(doff + k),)), v)
        return
    dstore = st._store(d.obj, d.path)
    exe.on_store(d, None, st)

    def src_at(k):
        return st.load(s.with_(idx=s.idx[:-1] + (k,)))
    if dstore.zmode:
        if len(d.idx) != 1:
            raise FrontEndError('symbolic-length copy into an embedded array of a large object')
        old = st.array_term(d.obj, d.path)
        new = exe.fresh_array(d.obj, d.path, 'copy')
        k = z3.FreshConst(sem.idx_sort(), 'k')
        inside = z3.And(k >= doff, k < doff + n)
        st.set_array(d.obj, d.path, new)
        sv = src_at(simp(soff + (k - doff)))
        st.assume(z3.ForAll([k], z3.Implies(inside, z3.Select(new, k) == sv), patterns=[z3.Select(new, k)]))
        st.assume(z3.ForAll([k], z3.Implies(z3.Not(inside), z3.Select(new, k) == z3.Select(old, k)), patterns=[z3.Select(new, k)]))
        return
    # cells-mode destination, symbolic n: every cell is rewritten conditionally
    dims = exe.dims_of(d.obj, d.path)
    if dims[-1] is None or len(d.idx) != len(dims):
        raise FrontEndError('symbolic-length copy into object of unknown size')
    for c in range(dims[-1]):
        cell = d.with_(idx=d.idx[:-1] + (c,))
        old = st.load(cell)
        cc = sem.idx_const(c)
        inside = z3.And(cc >= doff, cc < doff + n)
        st.store(cell, z3.If(inside, src_at(simp(soff + (cc - doff))), old))


def _zero_struct(exe, st, p, ct):
    if isinstance(ct, TStruct):
        if ct.is_union:
            q = exe._normalize(p.with_(path=p.path + ('$blob',), ct=ct.field('$blob')))
            exe.on_store(q, None, st)
            st.store(q, exe.sem.const(0, ct.field('$blob')))
            return
        for fname, ft in ct.fields:
            _zero_struct(exe, st, p.with_(path=p.path + (fname,), ct=ft), ft)
    elif isinstance(ct, TArr):
        for i in range(ct.n):
            _zero_struct(exe, st, p.with_(idx=p.idx + (i,), ct=ct.of), ct.of)
    else:
        q = exe._normalize(p)
        v = NULLP_(ct) if isinstance(ct, TPtr) else (exe.sem.fconst(0.0, ct) if isinstance(ct, TFloat) else exe.sem.const(0, ct))
        exe.on_store(q, v, st)
        st.store(q, v)


def NULLP_(ct):
    from .state import NULLP
    return NULLP(ct.to)


def memset_hook(exe, st, node, args):
    """memset(p, 0, nbytes): typed zero fill."""
    dst, val, nbytes = args
    exe.assumed.add('libc memset: typed fill of n*sizeof(T) bytes')
    sv = simp(val)
    zero = (z3.is_int_value(sv) or z3.is_bv_value(sv)) and sv.as_long() == 0
    if not zero:
        raise FrontEndError('memset with a non-zero fill value')
    if isinstance(dst.ct, TStruct) or (dst.obj is not None and dst.obj is not RAW and isinstance(exe.leaf_type(dst.obj, dst.path), TStruct)):
        # memset(p, 0, k*sizeof(struct)) for a concrete small k: every field of the k elements becomes zero
        sct = dst.ct if isinstance(dst.ct, TStruct) else exe.leaf_type(dst.obj, dst.path)
        szs = exe.tu.sizeof(sct)
        ns = simp(nbytes / szs) if exe.sem.int_mode != 'bv' else simp(z3.UDiv(nbytes, z3.BitVecVal(szs, 64)))
        cn = _conc_idx((ns,))
        if cn is None or cn[0] > 16:
            raise FrontEndError('memset over a symbolic number of structs')
        exe._check_deref(dst, st, node)
        for k in range(cn[0]):
            q = exe.ptr_add(dst.with_(ct=sct), k)
            exe.bounds_check(q, st, node)
            _zero_struct(exe, st, q, sct)
        return dst
    d, dt = _elem_ptr(exe, dst)
    if isinstance(dt, (TStruct, TPtr)):
        raise FrontEndError('memset of struct/pointer arrays')
    sz = exe.tu.sizeof(dt)
    sem = exe.sem
    n = simp(nbytes / sz) if sem.int_mode != 'bv' else simp(z3.UDiv(nbytes, z3.BitVecVal(sz, 64)))
    zv = sem.fconst(0.0, dt) if isinstance(dt, TFloat) else sem.const(0, dt)
    doff = exe._ix(d.idx[-1])
    cn = _conc_idx((n,))
    if cn is not None and cn[0] <= 64:
        for k in range(cn[0]):
            exe.on_store(d, zv, st)
            st.store(d.with_(idx=d.idx[:-1] + (simp(doff + k),)), zv)
        return dst
    dstore = st._store(d.obj, d.path)
    exe.on_store(d, None, st)
    if dstore.zmode:
        old = st.array_term(d.obj, d.path)
        new = exe.fresh_array(d.obj, d.path, 'fill')
        k = z3.FreshConst(sem.idx_sort(), 'k')
        inside = z3.And(k >= doff, k < doff + n)
        st.set_array(d.obj, d.path, new)
        st.assume(z3.ForAll([k], z3.Implies(inside, z3.Select(new, k) == zv), patterns=[z3.Select(new, k)]))
        st.assume(z3.ForAll([k], z3.Implies(z3.Not(inside), z3.Select(new, k) == z3.Select(old, k)), patterns=[z3.Select(new, k)]))
        return dst
    dims = exe.dims_of(d.obj, d.path)
    for c in range(dims[-1]):
        cell = d.with_(idx=d.idx[:-1] + (c,))
        old = st.load(cell)
        cc = sem.idx_const(c)
        st.store(cell, z3.If(z3.And(cc >= doff, cc < doff + n), zv, old))
    return dst


# ---- libm in 'real' mode: algebraic abstractions (each is a listed assumption) ---------------------------------------
def _memo(exe, kind, arg, mk):
    tbl = exe.__dict__.setdefault('_math_memo', {})
    key = (kind, simp(arg).sexpr())
    if key not in tbl:
        tbl[key] = mk()
    return tbl[key]


def sqrt_hook(exe, st, node, args):
    x = args[0]
    if exe.sem.num_mode == 'fp':
        return z3.fpSqrt(z3.RNE(), x)
    if exe.sem.num_mode != 'real':
        raise FrontEndError('sqrt in opaque mode')
    exe.assumed.add('sqrt(x) is the unique t >= 0 with t*t == x (real arithmetic)')
    sx = simp(x)
    if z3.is_rational_value(sx) and sx.numerator_as_long() == 0:
        return z3.RealVal(0)

    def mk():
        exe.nsym += 1
        t = z3.Real('sqrt#%d' % exe.nsym)
        exe.axioms.append(z3.And(t >= 0, t * t == x))
        exe.__dict__.setdefault('sqrt_defs', {})[t.get_id()] = (t, x)
        return t
    exe.emit('%s/sqrt_domain@%s' % (exe.fn_stack[-1], exe._loc(node)), x >= 0, st, kind='arith')
    t = _memo(exe, 'sqrt', x, mk)
    for a in exe.axioms:
        st.assume(a)
    del exe.axioms[:]
    return t


def _sincos(exe, st, x):
    if exe.sem.num_mode != 'real':
        raise FrontEndError('sin/cos outside real mode')
    exe.assumed.add('sin(x), cos(x) are some pair (s, c) with s*s + c*c == 1, and (0, 1) at x == 0 (real arithmetic)')
    sx = simp(x)
    if z3.is_rational_value(sx) and sx.numerator_as_long() == 0:
        return z3.RealVal(0), z3.RealVal(1)

    def mk():
        exe.nsym += 1
        s, c = z3.Real('sin#%d' % exe.nsym), z3.Real('cos#%d' % exe.nsym)
        exe.axioms.append(s * s + c * c == 1)
        exe.axioms.append(z3.Implies(x == 0, z3.And(s == 0, c == 1)))
        return s, c
    r = _memo(exe, 'sincos', x, mk)
    for a in exe.axioms:
        st.assume(a)
    del exe.axioms[:]
    return r


def sin_hook(exe, st, node, args):
    return _sincos(exe, st, args[0])[0]


def cos_hook(exe, st, node, args):
    return _sincos(exe, st, args[0])[1]


def fabs_hook(exe, st, node, args):
    x = args[0]
    if exe.sem.num_mode == 'fp':
        return z3.fpAbs(x)
    return z3.If(x >= 0, x, -x)


def fmax_hook(exe, st, node, args):
    a, b = args
    if exe.sem.num_mode == 'fp':
        return z3.fpMax(a, b)
    return z3.If(a >= b, a, b)


def fmin_hook(exe, st, node, args):
    a, b = args
    if exe.sem.num_mode == 'fp':
        return z3.fpMin(a, b)
    return z3.If(a <= b, a, b)


def exp_hook(exe, st, node, args):
    if exe.sem.num_mode != 'real':
        raise FrontEndError('exp outside real mode')
    exe.assumed.add('exp(x) is some positive real, 1 at x == 0, strictly increasing (real arithmetic)')
    x = args[0]

    def mk():
        exe.nsym += 1
        e = z3.Real('exp#%d' % exe.nsym)
        exe.axioms.append(z3.And(e > 0, z3.Implies(x == 0, e == 1), z3.Implies(x > 0, e > 1), z3.Implies(x < 0, e < 1)))
        return e
    r = _memo(exe, 'exp', x, mk)
    for a in exe.axioms:
        st.assume(a)
    del exe.axioms[:]
    return r


for _h in (sqrt_hook, sin_hook, cos_hook, fabs_hook, fmax_hook, fmin_hook, exp_hook):
    _h.pure = True

def strnlen_hook(exe, st, node, args):
    """strnlen on a buffer whose bytes are concrete in this state."""
    p, mx = args
    mxs = simp(mx)
    if not (z3.is_int_value(mxs) or z3.is_bv_value(mxs)):
        raise FrontEndError('strnlen with symbolic bound')
    n = 0
    for k in range(mxs.as_long()):
        c = simp(st.load(exe._normalize(exe.ptr_add(p, k))))
        if not (z3.is_int_value(c) or z3.is_bv_value(c)):
            raise FrontEndError('strnlen over symbolic bytes')
        if c.as_long() == 0:
            break
        n += 1
    return exe.sem.const(n, exe.ctype(node))


strnlen_hook.pure = True

def _str_term(exe, st, p):
    """(array term, offset) designating the C string that starts at p inside a byte array."""
    if p.obj is None or p.obj is RAW or p.path:
        raise FrontEndError('strncmp on a non-array pointer')
    return st.array_term(p.obj, p.path), exe._ix(p.idx[-1])


STRNCMP = None


def strncmp_fn(exe):
    global STRNCMP
    a = z3.ArraySort(exe.sem.idx_sort(), exe.sem.idx_sort())
    if STRNCMP is None:
        STRNCMP = z3.Function('strncmp', a, z3.IntSort(), a, z3.IntSort(), z3.IntSort(), z3.IntSort())
    return STRNCMP


def strncmp_hook(exe, st, node, args):
    """strncmp(a, b, n): an uninterpreted pure function of the two byte arrays, the two offsets and n (assumed libc contract:
    the result depends on nothing else); the verified code only tests the result against zero."""
    exe.assumed.add('libc strncmp is a pure function of the two strings and n (its value is not modelled)')
    a, b, n = args
    exe._check_deref(a, st, node)
    exe._check_deref(b, st, node)
    ta, oa = _str_term(exe, st, a)
    tb, ob = _str_term(exe, st, b)
    return strncmp_fn(exe)(ta, oa, tb, ob, n)


strncmp_hook.pure = True


def strcmp_hook(exe, st, node, args):
    """strcmp of two string literals (macro-stringified names compared with fixed names): decided at VC-generation time."""
    a, b = args
    if a.obj is not None and b.obj is not None and a.obj.kind == 'string' and b.obj.kind == 'string' and _conc_idx(a.idx) == (0,) and _conc_idx(b.idx) == (0,):
        va, vb = a.obj.meta['value'], b.obj.meta['value']
        return exe.sem.const(0 if va == vb else (-1 if va < vb else 1), exe.ctype(node))
    raise FrontEndError('strcmp on non-literal strings')


strcmp_hook.pure = True

def iszerobyte_hook(exe, st, node, args):
    """mju_isZeroByte(vec, n) on a byte view of a typed array of doubles / ints: 1 iff every element of the n bytes is the
    all-zero bit pattern (+0.0 for doubles).  Assumed contract of the engine utility (body: a byte loop, not verified here)."""
    p, n = args
    exe.assumed.add('mju_isZeroByte(vec, n) returns 1 exactly when the n bytes are zero, i.e. every covered element is +0.0 / 0 (assumed contract)')
    exe._check_deref(p, st, node)
    if p.obj is None or p.obj is RAW or p.path:
        raise FrontEndError('mju_isZeroByte on a non-array pointer')
    lt = exe.leaf_type(p.obj, p.path)
    sz = exe.tu.sizeof(lt)
    sem = exe.sem
    if sem.int_mode == 'bv':
        raise FrontEndError('mju_isZeroByte hook needs math mode')
    exe.emit('%s/isZeroByte_whole_elements@%s' % (exe.fn_stack[-1], exe._loc(node)), n % sz == 0, st, kind='arith')
    cnt = simp(n / sz)
    lo = exe._ix(p.idx[-1])
    if p.obj.length is not None:
        ln = p.obj.length if not isinstance(p.obj.length, int) else sem.idx_const(p.obj.length)
        exe.emit('%s/isZeroByte_in_bounds(%s)@%s' % (exe.fn_stack[-1], p.obj.name, exe._loc(node)), z3.Or(cnt <= 0, z3.And(lo >= 0, lo + cnt <= ln)), st, kind='bounds')
    arr = st.array_term(p.obj, p.path)
    k = z3.FreshConst(sem.idx_sort(), 'k')
    if isinstance(lt, TFloat):
        zero = (z3.Select(arr, k) == z3.FPVal(0.0, z3.Float64())) if sem.num_mode == 'fp' else (z3.Select(arr, k) == sem.fconst(0.0, lt))
    else:
        zero = z3.Select(arr, k) == 0
    exe.nsym += 1
    r = z3.Int('mju_isZeroByte()#%d' % exe.nsym)
    st.assume(z3.Or(r == 0, r == 1))
    st.assume((r == 1) == z3.ForAll([k], z3.Implies(z3.And(k >= lo, k < lo + cnt), zero)))
    return r


def _overflow_builtin(op):
    def hook(exe, st, node, args):
        """__builtin_{add,mul}_overflow(a, b, &res): the operation is performed in infinite precision, the result truncated to
        the type of *res is stored, and the return value says whether the exact result did not fit (GCC/Clang semantics)."""
        if exe.sem.int_mode == 'bv':
            raise FrontEndError('__builtin_*_overflow in bv mode')
        a, b, res = args
        exe._check_deref(res, st, node)
        rt = res.ct
        r = a + b if op == 'add' else a * b
        fits = z3.And(r >= rt.lo, r <= rt.hi)
        m = r % (1 << rt.width)
        wrapped = z3.If(m > rt.hi, m - (1 << rt.width), m) if rt.signed else m
        q = exe._normalize(res)
        exe.on_store(q, None, st)
        st.store(q, simp(z3.If(fits, r, wrapped)))
        return z3.If(fits, z3.IntVal(0), z3.IntVal(1))
    return hook


MATH_HOOKS = {'strcmp': strcmp_hook, '__builtin_add_overflow': _overflow_builtin('add'), '__builtin_mul_overflow': _overflow_builtin('mul'), 'mju_isZeroByte': iszerobyte_hook, 'strncmp': strncmp_hook, 'strnlen': strnlen_hook, 'sqrt': sqrt_hook, 'sin': sin_hook, 'cos': cos_hook, 'fabs': fabs_hook, 'fmax': fmax_hook, 'fmin': fmin_hook, 'exp': exp_hook}

HOOKS = {'memcpy': memcpy_hook, 'memmove': memcpy_hook, 'memset': memset_hook,
         '__builtin_memcpy': memcpy_hook, '__builtin_memset': memset_hook,
         '__builtin___memcpy_chk': lambda exe, st, node, args: memcpy_hook(exe, st, node, args[:3]),
         '__builtin___memset_chk': lambda exe, st, node, args: memset_hook(exe, st, node, args[:3])}
HOOKS.update(MATH_HOOKS)
