"""Symbolic executor / VC generator over the clang JSON AST of the real C code."""
import z3
from .cast import (TInt, TFloat, TPtr, TArr, TStruct, TVoid, TFn, FrontEndError, fn_body, fn_params, walk)
from .sem import Sem, simp, OpaqueNum
from .state import State, Obj, Ptr, NULLP, RAW, Store, merge_states, merge_vals, CannotMerge, _conc_idx

T_INT = TInt(32, True, 'int')
T_SIZE = TInt(64, False, 'unsigned long')
T_CHAR = TInt(8, True, 'char')

NORETURN = {'mju_error', 'mju_error_i', 'mju_error_s', 'abort', 'exit', '__assert_fail', 'mju_error_raw'}
EFFECT_FREE = {'mju_warning', 'mju_warning_i', 'mju_warning_s', 'snprintf', 'printf', 'fprintf', 'sprintf',
               'mju_isTopicEnabled', 'strncpy', 'mju_strncpy', 'mjd_now'}


class Obligation:
    def __init__(self, name, assumptions, goal, kind='post', meta=None):
        self.name, self.assumptions, self.goal, self.kind, self.meta = name, list(assumptions), goal, kind, meta or {}

    def formula(self):
        return z3.And(*(self.assumptions + [z3.Not(self.goal)]))


class Outcome:
    __slots__ = ('kind', 'st', 'val')

    def __init__(self, kind, st, val=None):
        self.kind, self.st, self.val = kind, st, val


class Exe:
    def __init__(self, tu, int_mode='bv', num_mode='real', contracts=None, prefix=''):
        self.tu = tu
        self.sem = Sem(int_mode, num_mode)
        self.sem.ob = self._arith_ob
        self.sem.assume_cb = lambda t: self.cur.assume(t) if self.cur is not None else None
        self.contracts = contracts or {}
        self.prefix = prefix
        self.obligations = []
        self.obj_by_id = {RAW.id: RAW}
        self.local_objs = {}
        self.children = {}
        self.cellsyms = {}
        self.initarrs = {}
        self.cur = None              # current state during expression evaluation
        self.fn_stack = []
        self.errors = []             # (state, callee, msg-node) for every path ending in an error call
        self.loop_ord = {}
        self.axioms = _AxiomList(self)   # facts about fresh symbols (type ranges, addresses): global truths, added to every obligation
        self.all_axioms = []
        self.assumed = set()         # names of assumed contracts / effect-free calls actually used
        from .libc import HOOKS
        self.hooks = dict(HOOKS)     # name -> python callable(exe, st, node, args) for special callees
        self.check_arith = True
        self.prune_ms = 300 if int_mode == 'bv' else 0
        self.site = ''
        self.ob_filter = None
        self.nsym = 0
        self.string_objs = {}

    # -- objects -------------------------------------------------------------------
    def new_obj(self, name, ct, n=None, kind='heap', length=None):
        o = Obj(name, ct, n, kind, length)
        self.obj_by_id[o.id] = o
        return o

    def obj_base(self, obj):
        if obj.base is None:
            if self.sem.int_mode == 'bv':
                obj.base = z3.BitVec('addr(%s)' % obj.name, 64)
            else:
                obj.base = z3.Int('addr(%s)' % obj.name)
                self.axioms.append(z3.And(obj.base >= 0, obj.base < (1 << 64)))
        return obj.base

    def type_at(self, obj, path):
        """C type of obj's element after following path (array levels kept)."""
        ct = obj.ct
        for f in path:
            if f == '$tag':
                # ghost label attached to every scalar element (travels with direct copies): same shape as the element
                dims = []
                while isinstance(ct, TArr):
                    dims.append(ct.n)
                    ct = ct.of
                t = T_INT
                for n in reversed(dims):
                    t = TArr(t, n)
                return t
            while isinstance(ct, TArr):
                ct = ct.of
            if not isinstance(ct, TStruct):
                raise FrontEndError('field %s of non-struct in %s' % (f, obj.name))
            ct = ct.field(f)
        return ct

    def leaf_type(self, obj, path):
        ct = self.type_at(obj, path)
        while isinstance(ct, TArr):
            ct = ct.of
        return ct

    def dims_of(self, obj, path):
        dims = [obj.n]
        ct = obj.ct
        for f in path:
            if f == '$tag':
                break
            while isinstance(ct, TArr):
                dims.append(ct.n)
                ct = ct.of
            ct = ct.field(f)
        while isinstance(ct, TArr):
            dims.append(ct.n)
            ct = ct.of
        return dims

    def init_store(self, obj, path):
        if obj is RAW:
            return self.init_store_raw()
        zmode = obj.n is None
        st = Store(zmode=zmode)
        if zmode:
            lt = self.leaf_type(obj, path)
            if not isinstance(lt, (TPtr, TStruct)):
                st.arr = self.init_array(obj, path)
        return st

    def _arr_sort(self, obj, path):
        lt = self.leaf_type(obj, path)
        s = self.sem.sort_of(lt)
        for _ in self.dims_of(obj, path):
            s = z3.ArraySort(self.sem.idx_sort(), s)
        return s

    def init_array(self, obj, path):
        key = (obj.id, path)
        if key not in self.initarrs:
            self.initarrs[key] = z3.Const('%s%s' % (obj.name, ''.join('.' + p for p in path)), self._arr_sort(obj, path))
            self._array_range_axiom(self.initarrs[key], obj, path)
        return self.initarrs[key]

    def _array_range_axiom(self, arr, obj, path):
        """math mode: every element of an integer array lies in its C type's range (quantified, trigger Select(arr, k))."""
        lt = self.leaf_type(obj, path)
        if self.sem.int_mode != 'math' or not isinstance(lt, TInt) or len(self.dims_of(obj, path)) != 1:
            return
        k = z3.FreshConst(z3.IntSort(), 'k')
        self.axioms.append(z3.ForAll([k], z3.And(z3.Select(arr, k) >= lt.lo, z3.Select(arr, k) <= lt.hi), patterns=[z3.Select(arr, k)]))

    def fresh_array(self, obj, path, tag):
        self.nsym += 1
        a = z3.Const('%s%s@%s#%d' % (obj.name, ''.join('.' + p for p in path), tag, self.nsym), self._arr_sort(obj, path))
        self._array_range_axiom(a, obj, path)
        return a

    def init_cell(self, obj, path, cidx, ct, gen=''):
        key = (obj.id, path, cidx, gen)
        if key in self.cellsyms:
            return self.cellsyms[key]
        while isinstance(ct, TArr):
            ct = ct.of
        nm = obj.name + ''.join('.' + p for p in path) + (('@' + gen) if gen else '')
        if any(cidx) or len(cidx) > 1 or obj.n != 1:
            nm += ''.join('[%d]' % i for i in (cidx if obj.n != 1 else cidx[1:]))
        if isinstance(ct, TPtr):
            if obj.kind == 'local':
                v = NULLP(ct.to)     # uninitialised local pointer: treat as NULL-constant (never dereferenced legally)
            else:
                spec = obj.meta.get('ptrfields', {}).get('.'.join(path), {})
                child = self.new_obj(nm, ct.to if not isinstance(ct.to, TVoid) else TInt(8, False, 'unsigned char'),
                                     n=spec.get('n'), length=spec.get('len') if not isinstance(spec.get('len'), str) else None)
                child.meta = spec.get('meta', {})
                v = Ptr(child, (0,), (), ct.to)
                if spec.get('nullable') or gen:
                    v = v.with_(isnull=z3.Bool('isnull(%s)' % nm))
        elif isinstance(ct, TStruct):
            raise FrontEndError('init_cell of struct')
        else:
            v = self.sem.fresh(nm, ct)
            if obj.kind != 'local' or gen:
                rf = self.sem.range_fact(v, ct)
                if rf is not None:
                    self.axioms.append(rf)
        self.cellsyms[key] = v
        return v

    # -- raw byte memory (integer-cast addresses) ----------------------------------
    def _rawsort(self):
        if self.sem.int_mode == 'bv':
            return z3.BitVecSort(64), z3.BitVecSort(8)
        return z3.IntSort(), z3.IntSort()      # math mode: address -> aligned 64-bit word

    def _rawarr(self, st):
        key = (RAW.id, ())
        s = st.heap.get(key)
        if s is None:
            s = self.init_store_raw()
            st.heap[key] = s
        return s

    def init_store_raw(self):
        return Store(arr=z3.Array('RAWMEM', *self._rawsort()), zmode=True)

    def raw_load(self, st, p):
        ct = p.ct
        if not isinstance(ct, (TInt, TPtr)):
            raise FrontEndError('raw load of %r' % ct)
        nb = 8 if isinstance(ct, TPtr) else ct.size
        a = self._rawarr(st).arr
        addr = p.idx[0]
        if self.sem.int_mode == 'bv':
            bs = [z3.Select(a, addr + k) for k in range(nb)]
            v = z3.Concat(*reversed(bs)) if nb > 1 else bs[0]
            if isinstance(ct, TPtr):
                return Ptr(RAW, (v,), (), ct.to, isnull=(v == 0))
            return v
        # math mode: memory is an array of aligned 64-bit words; narrower loads read an unknown value
        if nb == 8:
            self.emit('%s/raw_access_aligned@%s' % (self.fn_stack[-1] if self.fn_stack else '?', self.site), addr % 8 == 0, st, kind='arith')
            v = z3.Select(a, addr)
            t = TInt(64, False, 'unsigned long') if isinstance(ct, TPtr) else ct
            w = v if not t.signed else z3.If(v >= (1 << 63), v - (1 << 64), v)
            st.assume(z3.And(v >= 0, v < (1 << 64)))
            if isinstance(ct, TPtr):
                return Ptr(RAW, (w,), (), ct.to, isnull=(w == 0))
            return w
        self.nsym += 1
        v = self.sem.fresh('rawbyte#%d' % self.nsym, ct)
        st.assume(self.sem.range_fact(v, ct))
        return v

    def raw_store(self, st, p, v):
        if isinstance(v, Ptr):
            v = self.ptr_to_int(v)
        s = self._rawarr(st).copy()
        a = s.arr
        addr = p.idx[0]
        if self.sem.int_mode == 'bv':
            nb = v.size() // 8
            for k in range(nb):
                a = z3.Store(a, addr + k, z3.Extract(8 * k + 7, 8 * k, v))
        else:
            ct = p.ct
            nb = 8 if isinstance(ct, TPtr) else ct.size
            if nb == 8:
                self.emit('%s/raw_access_aligned@%s' % (self.fn_stack[-1] if self.fn_stack else '?', self.site), addr % 8 == 0, st, kind='arith')
                a = z3.Store(a, addr, v % (1 << 64))
            else:
                # a narrower store changes the containing aligned word to an unknown value (sound over-approximation)
                if nb > 1:
                    self.emit('%s/raw_access_aligned@%s' % (self.fn_stack[-1] if self.fn_stack else '?', self.site), addr % nb == 0, st, kind='arith')
                self.nsym += 1
                w = z3.Int('rawword#%d' % self.nsym)
                st.assume(z3.And(w >= 0, w < (1 << 64)))
                a = z3.Store(a, addr - addr % 8, w)
        s.arr = a
        st.heap[(RAW.id, ())] = s

    def ptr_to_int(self, p):
        if p.obj is None:
            return z3.BitVecVal(0, 64) if self.sem.int_mode == 'bv' else z3.IntVal(0)
        if p.obj is RAW:
            return p.idx[0]
        if self.sem.int_mode != 'bv':
            return self._ptr_to_int_math(p)
        base = self.obj_base(p.obj)
        off = z3.BitVecVal(0, 64)
        # byte offset = idx0*sizeof(elem) + field offsets + embedded indices
        ct = p.obj.ct
        esz = self.tu.sizeof(ct) if not isinstance(ct, TVoid) else 1
        i0 = p.idx[0] if p.idx else 0
        off = self._mulc(i0, esz)
        k = 1
        for f in p.path:
            while isinstance(ct, TArr):
                off = off + self._mulc(p.idx[k], self.tu.sizeof(ct.of))
                k += 1
                ct = ct.of
            off = off + self.tu.field_offset(ct, f)
            ct = ct.field(f)
        while isinstance(ct, TArr) and k < len(p.idx):
            off = off + self._mulc(p.idx[k], self.tu.sizeof(ct.of))
            k += 1
            ct = ct.of
        r = base + off
        return z3.If(p.isnull, z3.BitVecVal(0, 64), r) if not z3.is_false(simp(p.isnull)) else r

    def _ptr_to_int_math(self, p):
        base = self.obj_base(p.obj)
        ct = p.obj.ct
        esz = self.tu.sizeof(ct) if not isinstance(ct, TVoid) else 1
        off = (p.idx[0] if p.idx else 0) * esz
        k = 1
        for f in p.path:
            while isinstance(ct, TArr):
                off = off + p.idx[k] * self.tu.sizeof(ct.of)
                k += 1
                ct = ct.of
            off = off + self.tu.field_offset(ct, f)
            ct = ct.field(f)
        while isinstance(ct, TArr) and k < len(p.idx):
            off = off + p.idx[k] * self.tu.sizeof(ct.of)
            k += 1
            ct = ct.of
        r = base + off
        return z3.If(p.isnull, z3.IntVal(0), r) if not z3.is_false(simp(p.isnull)) else r

    def _mulc(self, i, c):
        if self.sem.int_mode != 'bv':
            return i * c
        if isinstance(i, int):
            return z3.BitVecVal(i * c, 64)
        return i * z3.BitVecVal(c, 64)

    # -- obligations ------------------------------------------------------------------
    def emit(self, name, goal, st=None, kind='post', meta=None):
        st = st or self.cur
        full = self.prefix + name
        if self.ob_filter and not self.ob_filter(full, kind):
            return
        g = simp(goal) if not isinstance(goal, bool) else z3.BoolVal(goal)
        if not z3.is_true(g) and kind != 'cover':
            gid = g.get_id()
            if any(t.get_id() == gid for t in st.pc):
                g = z3.BoolVal(True)          # the goal is literally one of the facts of this path
        if z3.is_true(g):
            self.obligations.append(Obligation(full, [], z3.BoolVal(True), kind, meta))
            return
        have = {id(t) for t in st.pc}
        meta = dict(meta or {})
        meta['n_pc'] = len(st.pc)
        self.obligations.append(Obligation(full, list(st.pc) + [a for a in self.all_axioms if id(a) not in have], g, kind, meta))

    def _arith_ob(self, what, goal):
        if not self.check_arith or self.cur is None:
            return
        g = simp(goal)
        if z3.is_true(g):
            return
        self.emit('%s/%s@%s' % (self.fn_stack[-1] if self.fn_stack else '?', what, self.site), g, kind='arith')

    # -- locals -------------------------------------------------------------------------
    def local_obj(self, decl):
        did = decl['id']
        if did not in self.local_objs:
            ct = self.tu.ctype(decl['type'])
            o = self.new_obj('%s' % decl.get('name', 'tmp'), ct, n=1, kind='local')
            o.meta['decl'] = decl
            self.local_objs[did] = o
        return self.local_objs[did]

    def local_ptr(self, decl):
        o = self.local_obj(decl)
        return Ptr(o, (0,), (), o.ct)

    # =================================================================================
    # expressions
    # =================================================================================
    def ctype(self, n):
        return self.tu.ctype(n['type'])

    def ev(self, n, st):
        """evaluate expression node n in state st (mutating st on side effects). Returns a value."""
        prev = self.cur
        self.cur = st
        try:
            return self._ev(n, st)
        finally:
            self.cur = prev

    def cond(self, n, st):
        """evaluate n as a z3 Bool."""
        k = n['kind']
        if k == 'ParenExpr':
            return self.cond(n['inner'][0], st)
        if k == 'ImplicitCastExpr' and n['castKind'] in ('IntegralCast', 'NoOp', 'IntegralToBoolean', 'PointerToBoolean', 'FloatingToBoolean'):
            inner = n['inner'][0]
            it = self.ctype(inner)
            if isinstance(it, TInt) and inner['kind'] in ('BinaryOperator', 'UnaryOperator', 'ParenExpr', 'CallExpr'):
                if self._is_boolish(inner):
                    return self.cond(inner, st)
        if k == 'UnaryOperator' and n['opcode'] == '!':
            return z3.Not(self.cond(n['inner'][0], st))
        if k == 'BinaryOperator':
            op = n['opcode']
            if op in ('&&', '||'):
                a = self.cond(n['inner'][0], st)
                sa = simp(a)
                if op == '&&' and z3.is_false(sa):
                    return z3.BoolVal(False)
                if op == '||' and z3.is_true(sa):
                    return z3.BoolVal(True)
                b = self._guarded(n['inner'][1], st, sa if op == '&&' else z3.Not(sa), as_cond=True)
                return z3.And(a, b) if op == '&&' else z3.Or(a, b)
            if op in ('==', '!=', '<', '<=', '>', '>='):
                return self._compare(n, st)
        if k == 'CallExpr':
            callee = self._callee_name(n)
            if callee == '__builtin_expect':
                return self.cond(n['inner'][1], st)
        v = self.ev(n, st)
        return self.truth(v, self.ctype(n))

    def _is_boolish(self, n):
        k = n['kind']
        if k == 'ParenExpr':
            return self._is_boolish(n['inner'][0])
        if k == 'UnaryOperator':
            return n['opcode'] == '!'
        if k == 'BinaryOperator':
            return n['opcode'] in ('&&', '||', '==', '!=', '<', '<=', '>', '>=')
        return False

    def truth(self, v, ct):
        if isinstance(v, Ptr):
            return z3.Not(v.isnull) if v.obj is not RAW else v.idx[0] != 0
        return self.sem.to_bool(v, ct)

    def _impure(self, n):
        for c in walk(n):
            k = c['kind']
            if k == 'BinaryOperator' and (c['opcode'] == '=' or (c['opcode'].endswith('=') and c['opcode'] not in ('==', '!=', '<=', '>='))):
                return True
            if k == 'CompoundAssignOperator':
                return True
            if k == 'UnaryOperator' and c['opcode'] in ('++', '--'):
                return True
            if k == 'CallExpr':
                nm = self._callee_name(c)
                con = self.contracts.get(nm)
                if nm in ('__builtin_expect',) or nm in self.hooks and getattr(self.hooks[nm], 'pure', False):
                    continue
                if nm in self.contracts.get('__callbacks__', ()) and nm in self.tu.globals:
                    continue        # effect-free user callback through a global function pointer
                if con is not None and (con.get('pure') or (not con.get('inline') and not con.get('assigns'))):
                    continue
                if con is not None and con.get('inline') and con.get('pure_inline'):
                    continue
                return True
        return False

    def _guarded(self, n, st, guard, as_cond=False):
        """evaluate a side-effect free sub-expression under an extra guard (short-circuit / ?:)."""
        if self._impure(n):
            raise FrontEndError('side effect inside short-circuit / conditional operand (%s)' % self.fn_stack[-1])
        s2 = st.fork()
        n0 = len(s2.pc)
        s2.assume(guard)
        n1 = len(s2.pc)
        r = self.cond(n, s2) if as_cond else self.ev(n, s2)
        # facts learned while evaluating the guarded operand (callee postconditions, type ranges) hold under the guard
        g = z3.And(*s2.pc[n0:n1]) if n1 > n0 else z3.BoolVal(True)
        for f in s2.pc[n1:]:
            st.assume(z3.Implies(g, f))
        # lazily initialised cells are shared through the registry; nothing else may have changed
        return r

    def _compare(self, n, st):
        a_n, b_n = n['inner']
        a, b = self.ev(a_n, st), self.ev(b_n, st)
        op = n['opcode']
        if isinstance(a, Ptr) or isinstance(b, Ptr):
            return self._ptr_compare(op, a, b)
        return self.sem.cmp(op, a, b, self.ctype(a_n))

    def _ptr_compare(self, op, a, b):
        if not isinstance(a, Ptr) or not isinstance(b, Ptr):
            raise FrontEndError('pointer/integer comparison')
        if op in ('==', '!='):
            if b.obj is None:
                r = a.isnull if a.obj is not RAW else a.idx[0] == 0
            elif a.obj is None:
                r = b.isnull if b.obj is not RAW else b.idx[0] == 0
            elif a.obj is RAW or b.obj is RAW:
                r = self.ptr_to_int(a) == self.ptr_to_int(b)
            elif a.obj is not b.obj:
                r = z3.And(a.isnull, b.isnull)
            else:
                if a.path != b.path:
                    raise FrontEndError('pointer comparison across fields')
                r = z3.And(*[self._ieq(x, y) for x, y in zip(a.idx, b.idx)]) if a.idx else z3.BoolVal(True)
                r = z3.Or(z3.And(a.isnull, b.isnull), z3.And(z3.Not(a.isnull), z3.Not(b.isnull), r))
            return r if op == '==' else z3.Not(r)
        if a.obj is RAW or b.obj is RAW or a.obj is not b.obj:
            x, y = self.ptr_to_int(a), self.ptr_to_int(b)
            if self.sem.int_mode != 'bv':
                return {'<': x < y, '<=': x <= y, '>': x > y, '>=': x >= y}[op]
            return {'<': z3.ULT, '<=': z3.ULE, '>': z3.UGT, '>=': z3.UGE}[op](x, y)
        x, y = self._ix(a.idx[-1]), self._ix(b.idx[-1])
        return {'<': lambda: x < y, '<=': lambda: x <= y, '>': lambda: x > y, '>=': lambda: x >= y}[op]()

    def _ix(self, i):
        return self.sem.idx_const(i) if isinstance(i, int) else i

    def _ieq(self, x, y):
        if isinstance(x, int) and isinstance(y, int):
            return z3.BoolVal(x == y)
        return self._ix(x) == self._ix(y)

    def _callee_name(self, call):
        f = call['inner'][0]
        while f['kind'] in ('ImplicitCastExpr', 'ParenExpr'):
            f = f['inner'][0]
        if f['kind'] == 'DeclRefExpr':
            return f['referencedDecl'].get('name')
        return None

    # -- lvalues ---------------------------------------------------------------------------
    def lval(self, n, st):
        """address (Ptr) of an lvalue expression."""
        k = n['kind']
        if k == 'ParenExpr':
            return self.lval(n['inner'][0], st)
        if k == 'DeclRefExpr':
            rd = n['referencedDecl']
            if rd['kind'] in ('VarDecl', 'ParmVarDecl'):
                did = rd['id']
                if did in self.tu.global_by_id:
                    return self.global_ptr(self.tu.global_by_id[did])
                if did not in self.local_objs:
                    self.local_obj({'id': did, 'name': rd.get('name'), 'type': rd['type']})
                o = self.local_objs[did]
                return Ptr(o, (0,), (), self.tu.ctype(rd['type']))
            raise FrontEndError('lvalue DeclRef to %s' % rd['kind'])
        if k == 'MemberExpr':
            base = n['inner'][0]
            if n.get('isArrow'):
                p = self.ev(base, st)
            else:
                p = self.lval(base, st)
            self._check_deref(p, st, n)
            sct = p.ct
            if not isinstance(sct, TStruct):
                raise FrontEndError('member of non-struct %r' % sct)
            if sct.is_union:
                raise FrontEndError('member access into a union (outside the accepted subset)')
            if p.obj is RAW:
                off = self.tu.field_offset(sct, n['name'])
                return p.with_(idx=(p.idx[0] + (z3.BitVecVal(off, 64) if self.sem.int_mode == 'bv' else off),), ct=sct.field(n['name']))
            return p.with_(path=p.path + (n['name'],), ct=sct.field(n['name']))
        if k == 'ArraySubscriptExpr':
            a, i = n['inner']
            p = self.ev(a, st)
            iv = self.ev(i, st)
            if isinstance(iv, Ptr):      # i[a] form
                p, iv, i = iv, p, a
            q = self.ptr_add(p, self.sem.idx(iv, self.ctype(i)))
            return q
        if k == 'UnaryOperator' and n['opcode'] == '*':
            p = self.ev(n['inner'][0], st)
            return p
        if k == 'CompoundLiteralExpr':
            tmp = self.new_obj('complit', self.ctype(n), n=1, kind='local')
            p = Ptr(tmp, (0,), (), self.ctype(n))
            self.init_from(p, n['inner'][0], st)
            return p
        if k == 'StringLiteral':
            return self.string_ptr(n)
        raise FrontEndError('lvalue kind %s' % k)

    def string_ptr(self, n):
        v = n.get('value', '')
        if v not in self.string_objs:
            o = self.new_obj('str%d' % len(self.string_objs), T_CHAR, n=None, kind='string')
            o.meta['value'] = v
            self.string_objs[v] = o
        return Ptr(self.string_objs[v], (0,), (), self.ctype(n))

    def global_ptr(self, decl):
        did = decl['id']
        if did not in self.local_objs:
            ct = self.tu.ctype(decl['type'])
            o = self.new_obj('g_' + decl['name'], ct, n=1, kind='global')
            o.meta['decl'] = decl
            self.local_objs[did] = o
            # constant globals with initialisers: materialise lazily at first use
            o.meta['const_init'] = ('const' in decl['type']['qualType'] and 'inner' in decl) or self.tu.read_only_static(decl)
        o = self.local_objs[did]
        if o.meta.get('const_init') and not o.meta.get('inited'):
            o.meta['inited'] = True
            init = [c for c in decl['inner'] if c['kind'] not in ('FullComment',) and 'Attr' not in c['kind']]
            if init:
                # evaluated once in a scratch state; the values become the initial cells of the object in EVERY state
                # (a constant is not a store of the function under verification, and does not depend on the path that
                # happens to read it first)
                from .state import State
                tmp = State(self)
                prev_on, prev_cur = self.on_store, self.cur
                self.on_store, self.cur = (lambda *a, **k: None), tmp
                try:
                    self.init_from(Ptr(o, (0,), (), self.tu.ctype(decl['type'])), init[0], tmp, const_global=True)
                finally:
                    self.on_store, self.cur = prev_on, prev_cur
                for (oid, path), store in tmp.heap.items():
                    if oid == o.id:
                        for cidx, v in store.conc.items():
                            self.cellsyms[(o.id, path, cidx, '')] = v
        return Ptr(o, (0,), (), self.tu.ctype(decl['type']))

    def _check_deref(self, p, st, n=None):
        if p.obj is None:
            self.emit('%s/null_deref@%s' % (self.fn_stack[-1], self._loc(n)), False, st, kind='null')
            raise PathDead()
        if p.obj is RAW:
            return
        nn = simp(p.isnull)
        if not z3.is_false(nn):
            self.emit('%s/null_deref@%s' % (self.fn_stack[-1], self._loc(n)), z3.Not(nn), st, kind='null')
            st.assume(z3.Not(nn))

    def _loc(self, n):
        if not n:
            return self.site
        r = n.get('range', {}).get('begin', {})
        for key in ('expansionLoc', 'spellingLoc'):
            if key in r:
                r = r[key]
                break
        ln = r.get('line')
        if ln is not None:
            self._last_line = ln
        return 'L%s' % (ln if ln is not None else getattr(self, '_last_line', '?'))

    def ptr_add(self, p, i):
        """p + i (i in idx sort or python int), in units of p's pointee type."""
        if p.obj is None:
            raise FrontEndError('arithmetic on NULL constant')
        if p.obj is RAW:
            sz = self.tu.sizeof(p.ct) if not isinstance(p.ct, (TVoid, TFn)) else 1
            return p.with_(idx=(simp(p.idx[0] + self._mulc(i, sz)),))
        ct = p.ct
        if isinstance(ct, TArr):
            # pointer to an array (a row of a multi-dimensional array after decay): moves by whole rows, the type is unchanged;
            # dereferencing it gives the row, whose own decay then adds the next dimension
            last = p.idx[-1]
            new = last + i if isinstance(last, int) and isinstance(i, int) else simp(self._ix(last) + self._ix(i))
            return p.with_(idx=p.idx[:-1] + (new,))
        # element size scaling when pointee type differs from the object's storage element (char* into typed obj)
        tgt = self.leaf_type(p.obj, p.path) if p.obj.kind != 'string' else None
        scale = 1
        if not isinstance(ct, (TVoid,)) and tgt is not None:
            s_p, s_o = self.tu.sizeof(ct) if not isinstance(ct, TFn) else 1, self.tu.sizeof(tgt)
            if s_p != s_o:
                if s_o % s_p == 0 and isinstance(i, int) and (i * s_p) % s_o == 0:
                    i = i * s_p // s_o
                elif s_p % s_o == 0:
                    i = self._scale(i, s_p // s_o)
                else:
                    raise FrontEndError('pointer arithmetic with element size %d on object of element size %d (%s)' % (s_p, s_o, p.obj.name))
        last = p.idx[-1]
        if isinstance(last, int) and isinstance(i, int):
            new = last + i
        else:
            new = simp(self._ix(last) + self._ix(i))
        return p.with_(idx=p.idx[:-1] + (new,))

    def _scale(self, i, k):
        return i * k if isinstance(i, int) else i * self.sem.idx_const(k)

    def _ndims(self, ct):
        k = 0
        while isinstance(ct, TArr):
            k += 1
            ct = ct.of
        return k

    def bounds_check(self, p, st, n=None):
        o = p.obj
        if o is None or o is RAW:
            return
        if o.n is not None and p.idx and not isinstance(p.idx[0], int):
            i0 = simp(p.idx[0])
            if not (z3.is_int_value(i0) or z3.is_bv_value(i0)):
                self.emit('%s/bounds(%s)@%s' % (self.fn_stack[-1], o.name, self._loc(n)),
                          z3.And(i0 >= 0, i0 < self.sem.idx_const(o.n)), st, kind='bounds')
        if o.length is not None and p.idx:
            i = self._ix(p.idx[0])
            ln = o.length
            if isinstance(ln, int):
                ln = self.sem.idx_const(ln)
            if self.sem.int_mode == 'bv':
                g = z3.And(i >= 0, i < ln) if True else None
            else:
                g = z3.And(i >= 0, i < ln)
            g = simp(g)
            if not z3.is_true(g):
                self.emit('%s/bounds(%s)@%s' % (self.fn_stack[-1], o.name, self._loc(n)), g, st, kind='bounds')
        # embedded array dims
        dims = self.dims_of(o, p.path)
        for k in range(1, min(len(dims), len(p.idx))):
            if dims[k] is not None:
                i = p.idx[k]
                if isinstance(i, int):
                    if not (0 <= i < dims[k]):
                        self.emit('%s/bounds(%s.%s)@%s' % (self.fn_stack[-1], o.name, '.'.join(p.path), self._loc(n)), False, st, kind='bounds')
                else:
                    g = simp(z3.And(i >= 0, i < self.sem.idx_const(dims[k])))
                    if not z3.is_true(g):
                        self.emit('%s/bounds(%s.%s)@%s' % (self.fn_stack[-1], o.name, '.'.join(p.path), self._loc(n)), g, st, kind='bounds')

    # -- loads / stores of typed values --------------------------------------------------
    def load(self, p, st, n=None):
        ct = p.ct
        self._check_deref(p, st, n)
        if isinstance(ct, TStruct) or isinstance(ct, TArr):
            return p           # aggregate rvalue == its address (copied on assignment)
        self.bounds_check(p, st, n)
        p = self._normalize(p)
        v = st.load(p)
        if self.axioms:
            for a in self.axioms:
                st.assume(a)
            del self.axioms[:]
        return v

    def _normalize(self, p):
        """make len(idx) match the store's dims (pad trailing zero for scalar-through-pointer)."""
        if p.obj is RAW or p.obj is None:
            return p
        nd = len(self.dims_of(p.obj, p.path))
        if len(p.idx) < nd:
            p = p.with_(idx=p.idx + (0,) * (nd - len(p.idx)))
        elif len(p.idx) > nd:
            raise FrontEndError('too many indices for %s.%s' % (p.obj.name, '.'.join(p.path)))
        # storage type mismatch (e.g. reading an int through a char*) is outside the subset
        return p

    def store(self, p, v, st, n=None):
        self._check_deref(p, st, n)
        ct = p.ct
        if isinstance(ct, (TStruct, TArr)):
            return self.copy_aggregate(p, v, ct, st)
        self.bounds_check(p, st, n)
        p = self._normalize(p)
        if isinstance(v, Ptr) and not isinstance(ct, TPtr):
            raise FrontEndError('storing pointer into non-pointer cell')
        self.on_store(p, v, st)
        st.store(p, v)

    def on_store(self, p, v, st):
        pass

    def copy_aggregate(self, dst, src, ct, st):
        if not isinstance(src, Ptr):
            raise FrontEndError('aggregate copy from non-aggregate')
        if isinstance(ct, TStruct) and ct.is_union:
            # a union is copied as one opaque blob (member access into unions is outside the subset)
            bt = ct.field('$blob')
            d2 = dst.with_(path=dst.path + ('$blob',), ct=bt)
            s2 = src.with_(path=src.path + ('$blob',), ct=bt)
            st.store(self._normalize(d2), st.load(self._normalize(s2)))
            return
        if isinstance(ct, TStruct):
            for fname, ft in ct.fields:
                d2 = dst.with_(path=dst.path + (fname,), ct=ft)
                s2 = src.with_(path=src.path + (fname,), ct=ft)
                if isinstance(ft, (TStruct, TArr)):
                    self.copy_aggregate(d2, s2, ft, st)
                else:
                    st.store(self._normalize(d2), st.load(self._normalize(s2)))
            return
        if isinstance(ct, TArr):
            if ct.n is None:
                raise FrontEndError('copy of unsized array')
            for i in range(ct.n):
                d2 = dst.with_(idx=dst.idx + (i,), ct=ct.of)
                s2 = src.with_(idx=src.idx + (i,), ct=ct.of)
                if isinstance(ct.of, (TStruct, TArr)):
                    self.copy_aggregate(d2, s2, ct.of, st)
                else:
                    st.store(self._normalize(d2), st.load(self._normalize(s2)))

    def init_from(self, p, init, st, const_global=False):
        """initialise location p (type p.ct) from initialiser node."""
        ct = p.ct
        k = init['kind']
        if k == 'InitListExpr':
            items = init.get('inner', [])
            filler = None
            if 'array_filler' in init:
                af = init['array_filler']
                filler = af[0] if af and af[0]['kind'] == 'ImplicitValueInitExpr' else None
                items = [x for x in af[1:]] if af else items
            if isinstance(ct, TStruct):
                fields = ct.fields
                rec = self.tu.records.get(ct.name, {})
                if rec.get('tagUsed') == 'union':
                    fields = fields[:1]
                for (fname, ft), it in zip(fields, items):
                    self.init_from(p.with_(path=p.path + (fname,), ct=ft), it, st)
                for (fname, ft) in fields[len(items):]:
                    self.zero_init(p.with_(path=p.path + (fname,), ct=ft), st)
                return
            if isinstance(ct, TArr):
                for i in range(ct.n):
                    q = p.with_(idx=p.idx + (i,), ct=ct.of)
                    if i < len(items):
                        self.init_from(q, items[i], st)
                    else:
                        self.zero_init(q, st)
                return
            if items:
                return self.init_from(p, items[0], st)
            return self.zero_init(p, st)
        if k == 'ImplicitValueInitExpr':
            return self.zero_init(p, st)
        if k == 'StringLiteral' and isinstance(ct, TArr):
            return   # char buffers initialised from literals: contents not tracked
        v = self.ev(init, st)
        self.store(p, v, st)
        self.transfer_tag(p, init, st)

    # -- ghost element labels ("tagged elements") -------------------------------------------------------
    ghost_tags = False

    def tag_loc(self, p):
        q = self._normalize(p)
        return q.with_(path=q.path + ('$tag',), ct=T_INT)

    def transfer_tag(self, dst, rhs_node, st):
        """dst = <rhs>: if <rhs> is a direct read of an element its label travels with the value, otherwise the label is unknown."""
        if not self.ghost_tags or dst.obj is None or dst.obj is RAW or isinstance(dst.ct, (TStruct, TArr, TPtr)):
            return
        n = rhs_node
        while n.get('kind') in ('ParenExpr',) or (n.get('kind') == 'ImplicitCastExpr' and n.get('castKind') in ('NoOp',)):
            n = n['inner'][0]
        tag = None
        if n.get('kind') == 'ImplicitCastExpr' and n.get('castKind') == 'LValueToRValue':
            e = n['inner'][0]
            if not self._impure(e):
                src = self.lval(e, st)
                if src.obj is not None and src.obj is not RAW and not isinstance(src.ct, (TStruct, TArr, TPtr)):
                    tag = st.load(self.tag_loc(src))
        if tag is None:
            self.nsym += 1
            tag = z3.Const('tag?#%d' % self.nsym, self.sem.sort_of(T_INT))
        tl = self.tag_loc(dst)
        self.on_store(tl, tag, st)
        st.store(tl, tag)

    def _decl_type(self, obj):
        d = obj.meta.get('decl')
        return self.tu.ctype(d['type']) if d else None

    def zero_init(self, p, st):
        ct = p.ct
        if isinstance(ct, TStruct):
            for fname, ft in ct.fields:
                self.zero_init(p.with_(path=p.path + (fname,), ct=ft), st)
        elif isinstance(ct, TArr):
            if ct.n is None or ct.n > 64:
                return    # large buffers: contents not tracked
            for i in range(ct.n):
                self.zero_init(p.with_(idx=p.idx + (i,), ct=ct.of), st)
        elif isinstance(ct, TPtr):
            st.store(self._normalize(p), NULLP(ct.to))
        elif isinstance(ct, TFloat):
            st.store(self._normalize(p), self.sem.fconst(0.0, ct))
        else:
            st.store(self._normalize(p), self.sem.const(0, ct))

    # -- main expression evaluator ------------------------------------------------------------
    def _ev(self, n, st):
        k = n['kind']
        m = getattr(self, '_ev_' + k, None)
        if m is None:
            raise FrontEndError('unsupported expression kind %s in %s' % (k, self.fn_stack[-1] if self.fn_stack else '?'))
        return m(n, st)

    def _ev_ParenExpr(self, n, st):
        return self._ev(n['inner'][0], st)

    def _ev_ConstantExpr(self, n, st):
        if 'value' in n and isinstance(self.ctype(n), TInt):
            return self.sem.const(int(n['value']), self.ctype(n))
        return self._ev(n['inner'][0], st)

    def _ev_IntegerLiteral(self, n, st):
        return self.sem.const(int(n['value']), self.ctype(n))

    def _ev_CharacterLiteral(self, n, st):
        return self.sem.const(int(n['value']), self.ctype(n))

    def _ev_FloatingLiteral(self, n, st):
        return self.sem.fconst(n['value'], self.ctype(n))

    def _ev_StringLiteral(self, n, st):
        return self.string_ptr(n)

    def _ev_PredefinedExpr(self, n, st):
        return self.string_ptr({'value': '__func__', 'type': n['type']})

    def _ev_GenericSelectionExpr(self, n, st):
        # clang marks the chosen association
        for c in n['inner'][1:]:
            if c.get('selected'):
                e = [x for x in c.get('inner', []) if 'Type' not in x['kind']]
                return self._ev(e[-1], st)
        raise FrontEndError('_Generic without selected branch')

    def _ev_DeclRefExpr(self, n, st):
        rd = n['referencedDecl']
        if rd['kind'] == 'EnumConstantDecl':
            v = self.tu.enum_by_id.get(rd['id'], self.tu.enum_consts.get(rd['name']))
            return self.sem.const(v, self.ctype(n))
        if rd['kind'] == 'FunctionDecl':
            return ('fn', rd['name'])
        return self.lval(n, st)

    def _ev_MemberExpr(self, n, st):
        return self.lval(n, st)

    def _ev_ArraySubscriptExpr(self, n, st):
        return self.lval(n, st)

    def _ev_CompoundLiteralExpr(self, n, st):
        return self.lval(n, st)

    def _ev_UnaryExprOrTypeTraitExpr(self, n, st):
        if 'argType' in n:
            t = self.tu.ctype(n['argType'])
        else:
            t = self.ctype(n['inner'][0])
        nm = n['name']
        if nm == 'sizeof':
            v = self.tu.sizeof(t)
        elif nm in ('alignof', '_Alignof', '__alignof'):
            v = self.tu.alignof(t)
        else:
            raise FrontEndError('type trait ' + nm)
        self.layout_facts = getattr(self, 'layout_facts', set())
        self.layout_facts.add((nm, n.get('argType', n['inner'][0]['type'] if 'inner' in n else {}).get('qualType'), v))
        return self.sem.const(v, self.ctype(n))

    def _ev_ImplicitCastExpr(self, n, st):
        return self._cast(n, st)

    def _ev_CStyleCastExpr(self, n, st):
        return self._cast(n, st)

    def _cast(self, n, st):
        ck = n['castKind']
        inner = n['inner'][0]
        dst = self.ctype(n)
        if ck == 'LValueToRValue':
            p = self._ev(inner, st)
            if not isinstance(p, Ptr):
                raise FrontEndError('LValueToRValue of non-lvalue')
            self.site = self._loc(n)
            return self.load(p, st, n)
        if ck == 'ToVoid':
            self._ev(inner, st) if inner['kind'] != 'DeclRefExpr' else None
            return None
        v = self._ev(inner, st)
        src = self.ctype(inner)
        if ck in ('NoOp', 'FunctionToPointerDecay', 'BuiltinFnToFnPtr', 'AtomicToNonAtomic', 'NonAtomicToAtomic'):
            if ck == 'NoOp' and isinstance(v, Ptr) and isinstance(dst, TPtr):
                return v.with_(ct=dst.to) if not isinstance(v.ct, (TStruct, TArr)) or isinstance(dst.to, (TStruct, TArr)) else v
            return v
        if ck == 'ArrayToPointerDecay':
            if not isinstance(v, Ptr):
                raise FrontEndError('decay of non-lvalue')
            at = v.ct
            if not isinstance(at, TArr):
                return v
            if v.obj.kind == 'string':
                return v.with_(ct=at.of)
            return v.with_(idx=v.idx + (0,), ct=at.of)
        if ck == 'NullToPointer':
            return NULLP(dst.to if isinstance(dst, TPtr) else None)
        if ck == 'BitCast':
            if isinstance(v, Ptr) and isinstance(dst, TPtr):
                return self._ptr_retarget(v, dst.to)
            raise FrontEndError('BitCast of non-pointer')
        if ck == 'IntegralCast':
            return self.sem.cast_int(v, src, dst, what='@' + self._loc(n))
        if ck == 'IntegralToBoolean':
            return self.sem.from_bool(self.sem.to_bool(v, src), dst)
        if ck == 'PointerToBoolean':
            return self.sem.from_bool(self.truth(v, src), dst)
        if ck == 'FloatingToBoolean':
            return self.sem.from_bool(self.sem.to_bool(v, src), dst)
        if ck == 'IntegralToFloating':
            return self.sem.int_to_float(v, src, dst)
        if ck == 'FloatingToIntegral':
            self.site = self._loc(n)
            return self.sem.float_to_int(v, src, dst)
        if ck == 'FloatingCast':
            if src.width == dst.width or self.sem.num_mode in ('real', 'opaque'):
                return v
            return z3.fpToFP(z3.RNE(), v, z3.Float64() if dst.width == 64 else z3.Float32())
        if ck == 'PointerToIntegral':
            r = self.ptr_to_int(v)
            if self.axioms:
                for a in self.axioms:
                    st.assume(a)
                del self.axioms[:]
            if self.sem.int_mode != 'bv':
                return self.sem.cast_int(r, T_SIZE, dst)
            return r if dst.width == 64 else z3.Extract(dst.width - 1, 0, r)
        if ck == 'IntegralToPointer':
            if self.sem.int_mode != 'bv':
                v = self.sem.cast_int(v, src, T_SIZE)
                sv = simp(v)
                if z3.is_int_value(sv) and sv.as_long() == 0:
                    return NULLP(dst.to)
                return Ptr(RAW, (v,), (), dst.to, isnull=(v == 0))
            if v.size() != 64:
                v = z3.SignExt(64 - v.size(), v) if src.signed else z3.ZeroExt(64 - v.size(), v)
            sv = simp(v)
            if z3.is_bv_value(sv) and sv.as_long() == 0:
                return NULLP(dst.to)
            return Ptr(RAW, (v,), (), dst.to, isnull=(v == 0))
        raise FrontEndError('unsupported cast kind %s' % ck)

    def _ptr_retarget(self, v, to):
        """(T*)p: reinterpret pointee type; storage stays typed (component model)."""
        if v.obj is None or v.obj is RAW or isinstance(to, (TVoid, TFn)):
            return v.with_(ct=to)
        o = v.obj
        if o.meta.get('untyped') and not (isinstance(to, TInt) and to.width == 8):
            # fresh allocation returned as void*: it gets the type it is first cast to; length = bytes / sizeof(T)
            o.meta['untyped'] = False
            o.ct = to
            b = o.meta.get('bytes')
            if b is not None:
                sz = self.tu.sizeof(to)
                o.length = (b / sz) if self.sem.int_mode != 'bv' else z3.UDiv(b, z3.BitVecVal(sz, 64))
            return v.with_(ct=to)
        byteobj = isinstance(o.ct, TInt) and o.ct.width == 8 and not v.path
        if byteobj and getattr(self, 'keep_byte_offsets', False):
            return v.with_(ct=to)      # layout-only functions: the pointer keeps its byte offset in the buffer (never dereferenced there)
        if byteobj and not (isinstance(to, TInt) and to.width == 8):
            # a byte buffer (the arena) viewed at type T: a separate typed component, memoised per (buffer, T).
            # Assumption (listed): regions of the buffer used at different types are disjoint (proved for the
            # allocator under C19).
            ci = _conc_idx(v.idx)
            if ci is None or any(ci):
                raise FrontEndError('typed view of a byte buffer at a non-zero / symbolic offset')
            key = (o.id, to.cstr())
            if key not in self.children:
                c = self.new_obj('%s as %s[]' % (o.name, to.cstr()), to, n=None)
                c.meta['view_of_pre'] = True
                self.children[key] = c
                self.assumed.add('byte buffer %s viewed as %s[]: typed regions of the buffer do not overlap' % (o.name, to.cstr()))
            return Ptr(self.children[key], (0,), (), to, isnull=v.isnull)
        return v.with_(ct=to)

    def _ev_UnaryOperator(self, n, st):
        op = n['opcode']
        e = n['inner'][0]
        ct = self.ctype(n)
        if op == '&':
            return self.lval(e, st)
        if op == '__extension__':
            return self._ev(e, st)
        if op == '*':
            return self.lval(n, st)
        if op == '!':
            return self.sem.from_bool(z3.Not(self.cond(e, st)), ct)
        if op in ('++', '--'):
            p = self.lval(e, st)
            self.site = self._loc(n)
            old = self.load(p, st, n)
            et = self.ctype(e)
            if isinstance(old, Ptr):
                new = self.ptr_add(old, 1 if op == '++' else -1)
            elif isinstance(et, TFloat):
                new = self.sem._fbin('+' if op == '++' else '-', old, self.sem.fconst(1.0))
            else:
                new = self._arith('+' if op == '++' else '-', old, self.sem.const(1, et), et, et, et, n)
            self.store(p, new, st, n)
            return old if n.get('isPostfix') else new
        v = self._ev(e, st)
        self.site = self._loc(n)
        return self.sem.unop(op, v, ct)

    def _arith(self, op, a, b, ct, at, bt, n):
        self.site = self._loc(n)
        if op in ('<<', '>>') and self.sem.int_mode == 'bv':
            # shift amount converted to the width of the left operand
            if b.size() != a.size():
                b = z3.ZeroExt(a.size() - b.size(), b) if b.size() < a.size() else z3.Extract(a.size() - 1, 0, b)
            if self.check_arith:
                self._arith_ob('shift_range', z3.ULT(b, z3.BitVecVal(a.size(), a.size())))
            if op == '<<' and ct.signed and self.check_arith:
                self._arith_ob('signed_shl', z3.And(a >= 0, z3.LShR(a << b, b) == a, (a << b) >= 0))
        return self.sem.binop(op, a, b, ct, what='')

    def _ev_BinaryOperator(self, n, st):
        op = n['opcode']
        a_n, b_n = n['inner']
        ct = self.ctype(n)
        if op == '=':
            rhs = self._ev(b_n, st)
            p = self.lval(a_n, st)
            self.site = self._loc(n)
            self.store(p, rhs, st, n)
            self.transfer_tag(p, b_n, st)
            return rhs
        if op == ',':
            self._ev(a_n, st)
            return self._ev(b_n, st)
        if op in ('&&', '||', '==', '!=', '<', '<=', '>', '>='):
            return self.sem.from_bool(self.cond(n, st), ct)
        a = self._ev(a_n, st)
        b = self._ev(b_n, st)
        at, bt = self.ctype(a_n), self.ctype(b_n)
        if isinstance(a, Ptr) or isinstance(b, Ptr):
            return self._ptr_arith(op, a, b, at, bt, ct)
        return self._arith(op, a, b, ct, at, bt, n)

    def _ptr_arith(self, op, a, b, at, bt, ct):
        if isinstance(a, Ptr) and isinstance(b, Ptr):
            if op != '-':
                raise FrontEndError('pointer op ' + op)
            if a.obj is RAW or b.obj is RAW or a.obj is not b.obj:
                d = self.ptr_to_int(a) - self.ptr_to_int(b)
                sz = self.tu.sizeof(a.ct) if not isinstance(a.ct, TVoid) else 1
                if self.sem.int_mode != 'bv':
                    return d / sz if sz != 1 else d
                return d / z3.BitVecVal(sz, 64) if sz != 1 else d
            x, y = self._ix(a.idx[-1]), self._ix(b.idx[-1])
            return x - y
        if isinstance(b, Ptr):
            a, b, at, bt = b, a, bt, at
            if op == '-':
                raise FrontEndError('int - pointer')
        i = self.sem.idx(b, bt)
        if op == '-':
            i = -i
        elif op != '+':
            raise FrontEndError('pointer op ' + op)
        return self.ptr_add(a, i)

    def _ev_CompoundAssignOperator(self, n, st):
        op = n['opcode'][:-1]
        a_n, b_n = n['inner']
        b = self._ev(b_n, st)
        p = self.lval(a_n, st)
        self.site = self._loc(n)
        old = self.load(p, st, n)
        lt, bt = self.ctype(a_n), self.ctype(b_n)
        if isinstance(old, Ptr):
            i = self.sem.idx(b, bt)
            new = self.ptr_add(old, i if op == '+' else -i)
        else:
            comp = self.tu.ctype(n['computeResultType']) if 'computeResultType' in n else lt
            clhs = self.tu.ctype(n['computeLHSType']) if 'computeLHSType' in n else lt
            x = self._convert(old, lt, clhs, n)
            r = self._arith(op, x, b, comp, clhs, bt, n) if not isinstance(comp, TFloat) else self.sem._fbin(op, x, b)
            new = self._convert(r, comp, lt, n)
        self.store(p, new, st, n)
        return new

    def _convert(self, v, src, dst, n=None):
        if src == dst:
            return v
        if isinstance(src, TInt) and isinstance(dst, TInt):
            return self.sem.cast_int(v, src, dst)
        if isinstance(src, TInt) and isinstance(dst, TFloat):
            return self.sem.int_to_float(v, src, dst)
        if isinstance(src, TFloat) and isinstance(dst, TInt):
            return self.sem.float_to_int(v, src, dst)
        if isinstance(src, TFloat) and isinstance(dst, TFloat):
            return v
        raise FrontEndError('convert %r -> %r' % (src, dst))

    def _ev_ConditionalOperator(self, n, st):
        c_n, a_n, b_n = n['inner']
        c = simp(self.cond(c_n, st))
        if z3.is_true(c):
            return self._ev(a_n, st)
        if z3.is_false(c):
            return self._ev(b_n, st)
        a = self._guarded(a_n, st, c)
        b = self._guarded(b_n, st, z3.Not(c))
        try:
            return merge_vals(c, a, b) if not (a is None and b is None) else None
        except CannotMerge:
            raise FrontEndError('?: over unmergeable pointers in %s' % self.fn_stack[-1])

    def _ev_AtomicExpr(self, n, st):
        # __atomic_fetch_add(ptr, val, order): modelled by its contract (assumed: linearizable)
        nm = self.tu.atomic_name(n['id'])
        if nm not in ('__atomic_fetch_add', '__atomic_add_fetch', '__atomic_load_n', '__c11_atomic_fetch_add', '__c11_atomic_load'):
            raise FrontEndError('atomic builtin %s is not modelled' % nm)
        ops = n['inner']
        self.assumed.add('__atomic builtins are linearizable read-modify-write')
        p = self._ev(ops[0], st)
        tgt = p.with_(ct=p.ct)
        # clang orders operands (ptr, order, val) for fetch_add
        vals = [self._ev(o, st) for o in ops[1:]]
        old = self.load(tgt, st, n)
        if len(vals) == 2:      # fetch_add style (ptr, order, val)
            hook = self.hooks.get('__atomic_fetch_add')
            if hook:
                return hook(self, st, n, tgt, old, vals[1])
            new = self.sem.binop('+', old, vals[1], tgt.ct)
            self.store(tgt, new, st, n)
            return new if nm == '__atomic_add_fetch' else old
        if len(vals) == 1:      # load
            return old
        raise FrontEndError('atomic expression shape')

    def _ev_StmtExpr(self, n, st):
        """GNU statement expression ({ ... }) (e.g. the expansion of assert): executed in place; value of the last expression."""
        from .flow import ErrorExit
        body = n['inner'][0]
        outs = self.flow.exec_stmt(body, st.fork())
        nxt = [o for o in outs if o.kind == 'next']
        for o in outs:
            if o.kind == 'error':
                self.errors.append(o.st)
            elif o.kind != 'next':
                raise FrontEndError('control flow leaves a statement expression')
        if not nxt:
            raise PathDead()
        from .flow import merge_outcomes
        nxt = merge_outcomes(nxt, force=True)
        if len(nxt) != 1:
            raise FrontEndError('statement expression with unmergeable paths')
        r = nxt[0].st
        st.pc, st.heap, st.ghost = r.pc, r.heap, r.ghost
        return None

    def _ev_InitListExpr(self, n, st):
        tmp = self.new_obj('initlist', self.ctype(n), n=1, kind='local')
        ct = self.ctype(n)
        p = Ptr(tmp, (0,), (), ct)
        self.init_from(p, n, st)
        return p

    def _ev_ImplicitValueInitExpr(self, n, st):
        ct = self.ctype(n)
        if isinstance(ct, TFloat):
            return self.sem.fconst(0.0, ct)
        if isinstance(ct, TInt):
            return self.sem.const(0, ct)
        if isinstance(ct, TPtr):
            return NULLP(ct.to)
        raise FrontEndError('implicit value init of aggregate rvalue')

    def _ev_VAArgExpr(self, n, st):
        raise FrontEndError('variadic')

    def _ev_OffsetOfExpr(self, n, st):
        raise FrontEndError('offsetof')

    # -- calls --------------------------------------------------------------------------------
    def _ev_CallExpr(self, n, st):
        from .calls import do_call
        return do_call(self, n, st)


class _AxiomList(list):
    """pending axioms; everything ever appended is also kept in exe.all_axioms."""

    def __init__(self, exe):
        super().__init__()
        self.exe = exe

    def append(self, x):
        self.exe.all_axioms.append(x)
        super().append(x)


class PathDead(Exception):
    """current path cannot continue (definite NULL dereference already reported)."""
