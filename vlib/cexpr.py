"""Contract expression language.

Contracts are Python-syntax expression strings. They are parsed with `ast`, the boolean
connectives / chained comparisons / conditional expressions are rewritten into calls,
`old(e)` / `entry(e)` switch the state the names inside are read from, and the result is
evaluated over *views* of the symbolic state. Integers are mathematical in specifications:
in bv mode every program integer is widened (by its C signedness) to 136 bits before any
specification arithmetic, so specification sums/products never wrap although the code's do.
"""
import ast
import re
import z3
from .cast import FrontEndError, TInt, TFloat, TPtr, TArr, TStruct, TVoid, fn_params, fn_body, walk
from .sem import simp
from .state import Ptr, NULLP, RAW, State

WIDE = 72      # spec integers: 64-bit program values widened; sums of a few terms and products by small constants cannot wrap


class SpecError(FrontEndError):
    pass


# ------------------------------------------------------------------------------------
# views
# ------------------------------------------------------------------------------------
class NullConst:
    pass


NULL = NullConst()


def widen(exe, v, ct):
    if exe.sem.int_mode == 'bv' and z3.is_bv(v) and isinstance(ct, TInt):
        if v.size() >= WIDE:
            return v
        return z3.SignExt(WIDE - v.size(), v) if ct.signed and not ct.is_bool else z3.ZeroExt(WIDE - v.size(), v)
    return v


class PtrView:
    def __init__(self, exe, st, p):
        object.__setattr__(self, '_exe', exe)
        object.__setattr__(self, '_st', st)
        object.__setattr__(self, '_p', p)

    def _deref(self, q):
        exe, st = self._exe, self._st
        ct = q.ct
        if isinstance(ct, (TStruct, TArr)):
            return PtrView(exe, st, q)
        if q.obj is None:
            raise SpecError('spec dereferences NULL')
        v = st.load(exe._normalize(q)) if q.obj is not RAW else exe.raw_load(st, q)
        if exe.axioms:
            for a in exe.axioms:
                st.assume(a)
            del exe.axioms[:]
        if isinstance(v, Ptr):
            return PtrView(exe, st, v)
        if exe.sem.int_mode == 'math' and isinstance(ct, TInt) and not z3.is_int_value(v):
            pass
        return widen(exe, v, ct)

    def __getattr__(self, name):
        p = self._p
        ct = p.ct
        if isinstance(ct, TPtr):    # view of a pointer-typed location? (not used)
            raise SpecError('field of pointer')
        if not isinstance(ct, TStruct):
            raise SpecError('field %s of non-struct %r' % (name, ct))
        if p.obj is RAW:
            off = self._exe.tu.field_offset(ct, name)
            q = p.with_(idx=(p.idx[0] + (z3.BitVecVal(off, 64) if self._exe.sem.int_mode == 'bv' else off),), ct=ct.field(name))
        else:
            q = p.with_(path=p.path + (name,), ct=ct.field(name))
        return self._deref(q)

    def __getitem__(self, k):
        exe = self._exe
        p = self._p
        if isinstance(p.ct, TArr):
            p = p.with_(idx=p.idx + (0,), ct=p.ct.of)
        k = narrow_idx(exe, k)
        return self._deref(exe.ptr_add(p, k))

    def __eq__(self, o):
        return ptr_eq(self, o)

    def __ne__(self, o):
        return z3.Not(ptr_eq(self, o))

    def __hash__(self):
        return id(self)


def narrow_idx(exe, k):
    if isinstance(k, int):
        return k
    if exe.sem.int_mode == 'bv' and z3.is_bv(k):
        if k.size() > 64:
            return z3.Extract(63, 0, k)
        if k.size() < 64:
            return z3.SignExt(64 - k.size(), k)
    return k


def ptr_eq(a, b):
    if isinstance(a, NullConst):
        a, b = b, a
    if isinstance(b, NullConst):
        if isinstance(a, NullConst):
            return z3.BoolVal(True)
        p = a._p
        if p.obj is RAW:
            return p.idx[0] == 0
        return p.isnull
    if isinstance(a, PtrView) and isinstance(b, PtrView):
        return a._exe._ptr_compare('==', a._p, b._p)
    raise SpecError('comparison of pointer view with non-pointer')


def view(exe, st, v, ct):
    if isinstance(v, Ptr):
        return PtrView(exe, st, v)
    if v is None:
        return None
    return widen(exe, v, ct)


# ------------------------------------------------------------------------------------
# helpers available in contract expressions
# ------------------------------------------------------------------------------------
def _b(x):
    if isinstance(x, bool):
        return z3.BoolVal(x)
    return x


def h_and(*xs):
    return z3.And(*[_b(x) for x in xs])


def h_or(*xs):
    return z3.Or(*[_b(x) for x in xs])


def h_not(x):
    return z3.Not(_b(x))


def h_implies(a, b):
    return z3.Implies(_b(a), _b(b))


def h_ite(c, a, b):
    if isinstance(a, int) and isinstance(b, int):
        a = z3.IntVal(a)
    return z3.If(_b(c), a, b)


def h_iff(a, b):
    return _b(a) == _b(b)


def make_helpers(exe):
    sem = exe.sem
    isbv = sem.int_mode == 'bv'

    def mkvar(name):
        return z3.BitVec(name, WIDE) if isbv else z3.Int(name)

    def forall(f, *pats):
        import inspect
        names = list(inspect.signature(f).parameters)
        vs = [z3.FreshConst(z3.BitVecSort(WIDE) if isbv else z3.IntSort(), n) for n in names]
        body = _b(f(*vs))
        return z3.ForAll(vs, body)

    def exists(f):
        import inspect
        names = list(inspect.signature(f).parameters)
        vs = [z3.FreshConst(z3.BitVecSort(WIDE) if isbv else z3.IntSort(), n) for n in names]
        return z3.Exists(vs, _b(f(*vs)))

    def forall_real(f):
        import inspect
        vs = [z3.FreshConst(z3.RealSort(), n) for n in inspect.signature(f).parameters]
        return z3.ForAll(vs, _b(f(*vs)))

    def exists_real(f):
        import inspect
        vs = [z3.FreshConst(z3.RealSort(), n) for n in inspect.signature(f).parameters]
        return z3.Exists(vs, _b(f(*vs)))

    def u64(x):
        if isinstance(x, PtrView):
            a = exe.ptr_to_int(x._p)
            if exe.axioms:
                for ax in exe.axioms:
                    x._st.assume(ax)
                del exe.axioms[:]
            return z3.ZeroExt(WIDE - 64, a) if isbv else a
        if isinstance(x, NullConst):
            return z3.BitVecVal(0, WIDE) if isbv else z3.IntVal(0)
        return x

    def is_pow2(a):
        if isbv:
            return z3.And(a != 0, (a & (a - 1)) == 0)
        sa = simp(a) if not isinstance(a, int) else z3.IntVal(a)
        if z3.is_int_value(sa):
            v = sa.as_long()
            return z3.BoolVal(v > 0 and (v & (v - 1)) == 0)
        # symbolic in math mode: an uninterpreted predicate (nothing is assumed about it)
        return z3.Function('is_pow2', z3.IntSort(), z3.BoolSort())(a)

    def arr(x):
        """whole-array term of the object a pointer view points into."""
        p = x._p
        return x._st.array_term(p.obj, p.path)

    def off(x):
        """element offset of a pointer view inside its object."""
        if x._p.obj is None or not x._p.idx:
            return exe.sem.idx_const(0)          # the NULL constant has no offset (callers guard with != NULL)
        i = x._p.idx[-1]
        return exe._ix(i)

    def pmod(x, al):
        """x mod al for a power-of-two al and x >= 0 (mask form: cheap for the bit-vector solver)."""
        if isbv:
            return x & (al - 1)
        return x % al

    def elem(x, j):
        """element at ABSOLUTE index j of the array the pointer view x points into (trigger-friendly: Select(arr, j))."""
        p = x._p
        if isinstance(p.ct, TArr):
            p = p.with_(idx=p.idx + (0,), ct=p.ct.of)
        return x._deref(exe._normalize(p).with_(idx=exe._normalize(p).idx[:-1] + (narrow_idx(exe, j),)))

    def at(x, j):
        """the struct element at ABSOLUTE index j of the array x points into (a view; use .field on it)."""
        p = x._p
        return PtrView(exe, x._st, p.with_(idx=p.idx[:-1] + (narrow_idx(exe, j),)))

    def tagat(x, j):
        """ghost label of element j (relative to the pointer view x)."""
        p = x._p
        if isinstance(p.ct, TArr):
            p = p.with_(idx=p.idx + (0,), ct=p.ct.of)
        q = exe.ptr_add(p, narrow_idx(exe, j))
        return x._st.load(exe.tag_loc(q))

    def imin(a, b):
        return z3.If(a <= b, a, b)

    def imax(a, b):
        return z3.If(a >= b, a, b)

    def iabs(a):
        return z3.If(a >= 0, a, -a)

    def lit(v):
        return z3.BitVecVal(v, WIDE) if isbv else z3.IntVal(v)

    def trunc(x, w):
        """value of x reduced modulo 2**w (specification of unsigned wrap-around)."""
        if isbv:
            return z3.ZeroExt(WIDE - w, z3.Extract(w - 1, 0, x))
        return x % (1 << w)

    def isnan(x):
        return z3.fpIsNaN(x)

    def fp(v):
        return z3.FPVal(float(v), z3.Float64())

    def real(v):
        return z3.RealVal(str(v))

    def dbl(v):
        """the exact real value of the C double literal v (specifications compare against the same constant as the code)."""
        from fractions import Fraction
        return z3.RealVal(str(Fraction(float(v))))

    def num_of_int(x):
        """the mjtNum an integer converts to (same function the executor uses in opaque mode)."""
        from .sem import OpaqueNum
        if exe.sem.num_mode == 'opaque':
            return z3.Function('opq_of_int', z3.IntSort(), OpaqueNum)(x)
        if exe.sem.num_mode == 'real':
            return z3.ToReal(x)
        return z3.fpRealToFP(z3.RNE(), z3.ToReal(x), z3.Float64())

    def byte_of_num(v):
        from .sem import OpaqueNum
        return z3.Function('opq_to_unsigned_char', OpaqueNum, z3.IntSort())(v)

    def bool_of_num(v):
        """C conversion mjtNum -> bool: 1 unless the value compares equal to zero."""
        from .sem import _opq_zero
        if exe.sem.num_mode == 'opaque':
            return z3.If(v == _opq_zero, 0, 1)
        if exe.sem.num_mode == 'real':
            return z3.If(v == 0, 0, 1)
        return z3.If(z3.fpIsZero(v), 0, 1)

    def num_zero():
        from .sem import _opq_zero
        return _opq_zero if exe.sem.num_mode == 'opaque' else (z3.RealVal(0) if exe.sem.num_mode == 'real' else z3.FPVal(0.0, z3.Float64()))

    def sizeof(tname):
        return exe.tu.sizeof(exe.tu.ctype(tname))

    def strncmp_of(a, b, n):
        """the term the executor produces for strncmp(a, b, n) (same uninterpreted function, same arguments)"""
        from .libc import strncmp_fn, _str_term
        ta, oa = _str_term(exe, a._st, a._p)
        tb, ob = _str_term(exe, b._st, b._p)
        return strncmp_fn(exe)(ta, oa, tb, ob, n)

    def same_obj(a, b):
        if isinstance(a, NullConst) or isinstance(b, NullConst):
            return z3.BoolVal(False)
        return z3.BoolVal(a._p.obj is b._p.obj and a._p.obj is not None)

    def sqrt_of(x):
        """the real square root of x as the executed code sees it: the same memoised symbol t (t >= 0, t*t == x) the sqrt hook
        introduces for a syntactically equal argument (real mode only)"""
        from .libc import _memo
        if sem.num_mode != 'real':
            raise SpecError('sqrt_of outside real mode')

        def mk():
            exe.nsym += 1
            t = z3.Real('sqrt#%d' % exe.nsym)
            exe.axioms.append(z3.And(t >= 0, t * t == x))
            exe.__dict__.setdefault('sqrt_defs', {})[t.get_id()] = (t, x)
            return t
        return _memo(exe, 'sqrt', x, mk)

    return dict(sqrt_of=sqrt_of, And=h_and, Or=h_or, Not=h_not, implies=h_implies, ite=h_ite, iff=h_iff, forall=forall,
                exists=exists, forall_real=forall_real, exists_real=exists_real, u64=u64, is_pow2=is_pow2, arr=arr, off=off, NULL=NULL, pmod=pmod, elem=elem, tagat=tagat, at=at, imin=imin, imax=imax,
                iabs=iabs, lit=lit, sizeof=sizeof, num_of_int=num_of_int, byte_of_num=byte_of_num, bool_of_num=bool_of_num, num_zero=num_zero, trunc=trunc, isnan=isnan, fp=fp, real=real, dbl=dbl, same_obj=same_obj,
                strncmp_of=strncmp_of, true=z3.BoolVal(True), false=z3.BoolVal(False), z3=z3, Select=z3.Select, Store=z3.Store,
                fpLT=z3.fpLT, fpLEQ=z3.fpLEQ, fpGT=z3.fpGT, fpGEQ=z3.fpGEQ, fpEQ=z3.fpEQ, fpAbs=z3.fpAbs,
                fpIsInf=z3.fpIsInf, fpNeg=z3.fpNeg, ToReal=z3.ToReal, ToInt=z3.ToInt, Sum=z3.Sum)


# ------------------------------------------------------------------------------------
# AST rewriting
# ------------------------------------------------------------------------------------
class _Rewrite(ast.NodeTransformer):
    def __init__(self):
        self.mode = ['cur']
        self.bound = [set()]
        self.free = set()

    def visit_Lambda(self, node):
        self.bound.append(self.bound[-1] | {a.arg for a in node.args.args})
        node.body = self.visit(node.body)
        self.bound.pop()
        return node

    def _comp(self, node, fields):
        names = set()
        for g in node.generators:
            for t in ast.walk(g.target):
                if isinstance(t, ast.Name):
                    names.add(t.id)
        for g in node.generators:
            g.iter = self.visit(g.iter)
        self.bound.append(self.bound[-1] | names)
        for f in fields:
            setattr(node, f, self.visit(getattr(node, f)))
        for g in node.generators:
            g.ifs = [self.visit(i) for i in g.ifs]
        self.bound.pop()
        return node

    def visit_ListComp(self, node):
        return self._comp(node, ['elt'])

    def visit_GeneratorExp(self, node):
        return self._comp(node, ['elt'])

    def visit_Starred(self, node):
        node.value = self.visit(node.value)
        return node

    def visit_Name(self, node):
        if node.id in self.bound[-1]:
            return node
        nm = node.id if self.mode[-1] == 'cur' else '%s__%s' % (node.id, self.mode[-1])
        self.free.add((node.id, self.mode[-1]))
        return ast.copy_location(ast.Name(id=nm, ctx=node.ctx), node)

    def visit_Call(self, node):
        if isinstance(node.func, ast.Name) and node.func.id in ('old', 'entry') and node.func.id not in self.bound[-1]:
            self.mode.append(node.func.id)
            inner = self.visit(node.args[0])
            self.mode.pop()
            return inner
        node.func = self.visit(node.func) if not isinstance(node.func, ast.Name) else self._helper_name(node.func)
        node.args = [self.visit(a) for a in node.args]
        node.keywords = [ast.keyword(arg=k.arg, value=self.visit(k.value)) for k in node.keywords]
        return node

    def _helper_name(self, n):
        if n.id in self.bound[-1]:
            return n
        if self.mode[-1] != 'cur':
            # state-dependent helpers (raw64, rawmem, definitions) must be read in the selected state
            self.free.add((n.id, self.mode[-1]))
            return ast.copy_location(ast.Name(id='%s__%s' % (n.id, self.mode[-1]), ctx=n.ctx), n)
        self.free.add((n.id, 'fn'))
        return n

    def visit_BoolOp(self, node):
        fn = 'And' if isinstance(node.op, ast.And) else 'Or'
        self.free.add((fn, 'fn'))
        return ast.copy_location(ast.Call(func=ast.Name(id=fn, ctx=ast.Load()), args=[self.visit(v) for v in node.values], keywords=[]), node)

    def visit_UnaryOp(self, node):
        if isinstance(node.op, ast.Not):
            self.free.add(('Not', 'fn'))
            return ast.copy_location(ast.Call(func=ast.Name(id='Not', ctx=ast.Load()), args=[self.visit(node.operand)], keywords=[]), node)
        node.operand = self.visit(node.operand)
        return node

    def visit_IfExp(self, node):
        self.free.add(('ite', 'fn'))
        return ast.copy_location(ast.Call(func=ast.Name(id='ite', ctx=ast.Load()),
                                          args=[self.visit(node.test), self.visit(node.body), self.visit(node.orelse)], keywords=[]), node)

    def visit_Compare(self, node):
        left = self.visit(node.left)
        comps = [self.visit(c) for c in node.comparators]
        if len(comps) == 1:
            node.left, node.comparators = left, comps
            return node
        parts = []
        cur = left
        for op, c in zip(node.ops, comps):
            parts.append(ast.Compare(left=cur, ops=[op], comparators=[c]))
            cur = c
        self.free.add(('And', 'fn'))
        return ast.copy_location(ast.Call(func=ast.Name(id='And', ctx=ast.Load()), args=parts, keywords=[]), node)


_compiled = {}


def compile_expr(src):
    if src not in _compiled:
        tree = ast.parse(src.strip(), mode='eval')
        rw = _Rewrite()
        tree = rw.visit(tree)
        ast.fix_missing_locations(tree)
        _compiled[src] = (compile(tree, '<contract:%s>' % src[:40], 'eval'), rw.free)
    return _compiled[src]


# ------------------------------------------------------------------------------------
# environments
# ------------------------------------------------------------------------------------
class Env:
    """resolves the free names of a contract expression."""

    def __init__(self, exe, defs, states, resolver, extra=None):
        self.exe, self.defs, self.states, self.resolver = exe, defs or {}, states, resolver
        self.extra = extra or {}
        self.helpers = exe.__dict__.setdefault('_helpers', None) or make_helpers(exe)
        exe._helpers = self.helpers
        self._active = set()

    def eval(self, src, mode='cur'):
        code, free = compile_expr(src)
        g = {'__builtins__': {'len': len, 'range': range, 'abs': abs, 'min': min, 'max': max, 'int': int, 'sum': sum, 'all': all, 'any': any, 'True': True, 'False': False}}
        for name, which in free:
            w = which
            if which == 'fn' or which == 'cur':
                w = mode if which == 'cur' else 'fn'
            key = name if which in ('cur', 'fn') else '%s__%s' % (name, which)
            if key in g:
                continue
            g[key] = self.lookup(name, w if w != 'fn' else mode, is_fn=(which == 'fn'))
        return eval(code, g)

    def lookup(self, name, mode, is_fn=False):
        if name in self.extra and not (mode != 'cur' and (name + '__' + mode) in self.extra):
            v = self.extra[name]
            return v(mode) if callable(v) and getattr(v, '_per_mode', False) else v
        if (name + '__' + mode) in self.extra:
            return self.extra[name + '__' + mode]
        if name not in self.defs:
            st0 = self.states.get(mode)
            if st0 is not None:
                r0 = self.resolver(name, st0)
                if r0 is not _MISSING:
                    return r0        # parameters / locals of the function shadow generic helper names (not contract definitions)
        if name in self.defs:
            if (name, mode) in self._active:
                raise SpecError('recursive definition ' + name)
            self._active.add((name, mode))
            try:
                return self.eval(self.defs[name], mode)
            finally:
                self._active.discard((name, mode))
        if name in STATE_HELPERS:
            st = self.states.get(mode)
            if st is None:
                raise SpecError('%s(...) not available here' % mode)
            return STATE_HELPERS[name](self.exe, st)
        if name in self.helpers:
            return self.helpers[name]
        if name in ('range', 'len', 'min', 'max', 'abs', 'sum', 'all', 'any', 'int'):
            return {'range': range, 'len': len, 'min': min, 'max': max, 'abs': abs, 'sum': sum, 'all': all, 'any': any, 'int': int}[name]
        st = self.states.get(mode)
        if st is None:
            raise SpecError('%s(...) not available here' % mode)
        r = self.resolver(name, st)
        if r is _MISSING:
            raise SpecError('unknown name %r in contract expression' % name)
        return r


_MISSING = object()


def _h_raw64(exe, st):
    def raw64(addr):
        """little-endian 64-bit word of integer-addressed memory at addr (specification view)."""
        a = exe._rawarr(st).arr
        if exe.sem.int_mode != 'bv':
            return z3.Select(a, addr)       # math mode: memory of aligned 64-bit words
        ad = z3.Extract(63, 0, addr) if addr.size() > 64 else addr
        v = z3.Concat(*reversed([z3.Select(a, ad + k) for k in range(8)]))
        return z3.ZeroExt(WIDE - 64, v)
    return raw64


def _h_rawmem(exe, st):
    return lambda: exe._rawarr(st).arr


def _h_raw8(exe, st):
    def raw8(addr):
        a = exe._rawarr(st).arr
        if exe.sem.int_mode != 'bv':
            raise SpecError('raw8 needs bv mode')
        ad = z3.Extract(63, 0, addr) if addr.size() > 64 else addr
        return z3.ZeroExt(WIDE - 8, z3.Select(a, ad))
    return raw8


def _h_now(exe, st):
    def now(v):
        """the pointer value v (typically old(p)) viewed in this state"""
        return PtrView(exe, st, v._p)
    return now


def _h_sin(exe, st):
    from .libc import _sincos
    return lambda x: _sincos(exe, st, x)[0]


def _h_cos(exe, st):
    from .libc import _sincos
    return lambda x: _sincos(exe, st, x)[1]


STATE_HELPERS = {'sin_of': _h_sin, 'cos_of': _h_cos, 'raw64': _h_raw64, 'rawmem': _h_rawmem, 'raw8': _h_raw8, 'now': _h_now}


def fn_resolver(exe, fn_name):
    """names = parameters and locals of the function (read from the state's cells)."""
    fn = exe.tu.functions[fn_name]
    cache = exe.__dict__.setdefault('_resolver_tables', {})
    if fn_name not in cache:
        decls = {}
        by_id = {}
        for pd in fn_params(fn):
            decls.setdefault(pd.get('name'), pd)
        for c in walk(fn_body(fn)):
            if c['kind'] == 'VarDecl' and c.get('name'):
                decls.setdefault(c['name'], c)
                by_id[c['id']] = c
        cache[fn_name] = (decls, by_id)
    decls, by_id = cache[fn_name]

    def resolve(name, st):
        d = decls.get(name)
        live = st.ghost.get('$decl:' + name)
        if live in by_id:
            d = by_id[live]       # the same-named local most recently declared on this path
        if d is None:
            if name in exe.tu.enum_consts:
                return exe.tu.enum_consts[name]
            if name in exe.tu.globals:          # a file-scope variable of the translation unit, read like the code reads it
                p = exe.global_ptr(exe.tu.globals[name])
                if isinstance(p.ct, (TStruct, TArr)):
                    return PtrView(exe, st, p)
                return view(exe, st, st.load(exe._normalize(p)), p.ct)
            return _MISSING
        p = exe.local_ptr(d)
        if isinstance(p.ct, (TStruct, TArr)):
            return PtrView(exe, st, p)
        v = st.load(exe._normalize(p))
        return view(exe, st, v, p.ct)
    return resolve


def eval_clauses(exe, clauses, st, fn_name, loop_entry=None, raw=False, pre=None, extra=None):
    """evaluate named clauses over state st (old = function pre-state, entry = loop-entry state)."""
    con = exe.contracts.get(fn_name, {})
    defs = dict(exe.contracts.get('__defs__', {}))
    defs.update(con.get('defs', {}))
    states = {'cur': st, 'old': pre or exe.__dict__.get('pre_states', {}).get(fn_name), 'entry': loop_entry}
    gh = exe.__dict__.get('ghosts', {}).get(fn_name)
    if gh:
        extra = dict(gh, **(extra or {}))       # logical (ghost) parameters of the function under verification
    env = Env(exe, defs, states, fn_resolver(exe, fn_name), extra=extra)
    items = clauses.items() if isinstance(clauses, dict) else [('c%d' % i, c) for i, c in enumerate(clauses)]
    out = []
    for name, src in items:
        if callable(src):
            t = src(env)
        else:
            t = env.eval(src)
        if not raw:
            t = _b(t)
        out.append((name, t))
    return out


# ------------------------------------------------------------------------------------
# modular calls
# ------------------------------------------------------------------------------------
def eval_call_contract(exe, name, con, node, args, st):
    """assert requires, havoc assigns, assume ensures. `old` = state before the call."""
    fnd = exe.tu.fn_decls.get(name)
    if fnd is None:
        raise FrontEndError('no declaration for ' + name)
    params = fn_params(fnd)
    pnames = [p.get('name') or 'arg%d' % i for i, p in enumerate(params)]
    if con.get('param_names'):
        pnames = con['param_names']
    ptypes = [exe.tu.ctype(p['type']) for p in params]
    pre = st.fork()
    caller = exe.fn_stack[-1]
    site = '%s/call(%s)@%s' % (caller, name, exe._loc(node))

    # logical (ghost) parameters of the callee: the caller's contract names the terms it instantiates them with,
    # per call ordinal; they are evaluated in the caller's state before the call
    gvals = {}
    if con.get('ghost_params'):
        key = '$gcall:%s:%s' % (caller, name)
        k = st.ghost.get(key, 0)
        st.ghost[key] = k + 1
        ga = exe.contracts.get(caller, {}).get('ghost_args', {}).get(name)
        if ga is None:
            raise FrontEndError('call to %s from %s: the callee has logical parameters %s and the caller\'s contract gives no ghost_args' % (name, caller, list(con['ghost_params'])))
        ga = ga[k] if isinstance(ga, (list, tuple)) else ga
        for gname, term in eval_clauses(exe, {g: ga[g] for g in con['ghost_params']}, pre, caller, raw=True):
            gvals[gname] = term

    def resolver_for(state):
        def resolve(nm, s):
            if nm in gvals:
                return gvals[nm]
            if nm in pnames:
                i = pnames.index(nm)
                return view(exe, s, args[i], ptypes[i])
            if nm in exe.tu.enum_consts:
                return exe.tu.enum_consts[nm]
            return _MISSING
        return resolve
    defs = dict(exe.contracts.get('__defs__', {}))
    defs.update(con.get('defs', {}))
    if con.get('assumed'):
        exe.assumed.add('contract of %s is assumed (body not verified)' % name)
    env_pre = Env(exe, defs, {'cur': pre, 'old': pre}, resolver_for(pre))
    for cname, src in _items(con.get('requires', {})):
        t = _b(src(env_pre) if callable(src) else env_pre.eval(src))
        exe.emit('%s/requires/%s' % (site, cname), t, st, kind='pre')
        st.assume(t)
    # havoc frame
    for tgt in con.get('assigns', []):
        havoc_target(exe, st, tgt, env_pre, name)
    # result
    rt = exe.tu.ctype(fnd['type']['qualType'].split('(')[0].strip())
    res = None
    exe.nsym += 1
    if 'result' in con and callable(con['result']):
        res = con['result'](exe, st, args, node)
    elif isinstance(rt, TPtr):
        spec = con.get('result_obj', {})
        o = exe.new_obj('%s()#%d' % (name, exe.nsym), spec.get('ct') or (rt.to if not isinstance(rt.to, TVoid) else TInt(8, False, 'unsigned char')),
                        n=spec.get('n'))
        isn = z3.Bool('isnull(%s()#%d)' % (name, exe.nsym)) if con.get('nullable_result', True) else z3.BoolVal(False)
        if isinstance(rt.to, TVoid):
            o.meta['untyped'] = True
            if con.get('result_bytes'):
                from .cexpr import narrow_idx as _ni
                o.meta['bytes'] = _ni(exe, env_pre.eval(con['result_bytes']))
        res = Ptr(o, (0,), (), rt.to, isnull=isn)
    elif isinstance(rt, (TInt, TFloat)):
        res = exe.sem.fresh('%s()#%d' % (name, exe.nsym), rt)
        rf = exe.sem.range_fact(res, rt)
        if rf is not None:
            st.assume(rf)
    elif isinstance(rt, TVoid):
        res = None
    else:
        raise FrontEndError('contract call returning %r' % rt)
    extra = {'result': view(exe, st, res, rt)} if not isinstance(rt, TVoid) else {}
    env_post = Env(exe, defs, {'cur': st, 'old': pre}, resolver_for(st), extra=extra)
    for cname, src in _items(con.get('ensures', {})):
        t = _b(src(env_post) if callable(src) else env_post.eval(src))
        st.assume(t)
    if con.get('post_hook'):
        con['post_hook'](exe, st, pre, args, res, node)
    if con.get('noreturn_if') is not None:
        pass
    return res


def _items(c):
    return c.items() if isinstance(c, dict) else [('c%d' % i, x) for i, x in enumerate(c)]


def havoc_target(exe, st, tgt, env, callee):
    """havoc one assigns target; locations are resolved in env's (pre-call) state."""
    if callable(tgt):
        return tgt(exe, st, env)
    for (oid, key) in sorted(frame_targets(exe, env.states['cur'], [tgt], env, callee), key=lambda x: (x[0], x[1])):
        obj = exe.obj_by_id[oid]
        exe.flow._havoc_one(st, obj, key, 'call_' + callee)
        if exe.flow.write_log is not None:
            exe.flow.write_log.add((oid, key))
        if exe.flow.discovery:
            st.ghost['$w'] = st.ghost.get('$w', frozenset()) | {(oid, key)}


_TYPED_RE = re.compile(r'^typed\((.+),\s*["\'](.+)["\']\)\[\*\]$')


def frame_targets(exe, st, tgts, env, fn):
    """set of (objid, path) a contract's assigns clause allows."""
    out = set()
    for tgt in tgts:
        if callable(tgt):
            continue
        if tgt == 'RAW':
            out.add((RAW.id, ()))
            continue
        mt = _TYPED_RE.match(tgt)
        if mt:
            # the byte buffer <expr> viewed as an array of <type>
            v = env.eval(mt.group(1))
            q = exe._ptr_retarget(v._p, exe.tu.ctype(mt.group(2)))
            for key in _paths_of(exe, q.obj, ()):
                out.add((q.obj.id, key))
            continue
        nonptr = tgt.endswith('.*nonptr')
        if nonptr:
            tgt = tgt[:-len('.*nonptr')] + '[*]'
        if tgt.endswith('.*'):
            tgt = tgt[:-2] + '[*]'
        whole = tgt.endswith('[*]')
        expr = tgt[:-3] if whole else tgt
        parts = expr.split('.')
        v = env.eval(parts[0])
        p = v._p
        for f in parts[1:-1] if not whole else parts[1:]:
            p = getattr(PtrView(exe, st, p), f)._p
        if p.obj is None:
            continue
        path = p.path if whole else p.path + (parts[-1],)
        for key in _paths_of(exe, p.obj, path):
            if nonptr and isinstance(exe.leaf_type(p.obj, key), TPtr):
                continue
            out.add((p.obj.id, key))
    return out


def _paths_of(exe, obj, path):
    """all leaf store paths below (obj, path)."""
    ct = exe.type_at(obj, path)
    while isinstance(ct, TArr):
        ct = ct.of
    if isinstance(ct, TStruct):
        out = []
        for fname, ft in ct.fields:
            out += _paths_of(exe, obj, path + (fname,))
        return out
    return [path]


# ------------------------------------------------------------------------------------
# concrete interpretation (oracle for native replay): same expressions, Python values
# ------------------------------------------------------------------------------------
class ConcreteUnsupported(Exception):
    pass


class NS:
    """attribute bag for concrete struct snapshots."""

    def __init__(self, **kw):
        self.__dict__.update(kw)


def concrete_eval(defs, src, states, extra=None):
    """states: {'cur': {name: value}, 'old': {...}} ; values are ints / NS / callables."""
    extra = extra or {}

    def unsup(*a, **k):
        raise ConcreteUnsupported()
    helpers = dict(And=lambda *xs: all(xs), Or=lambda *xs: any(xs), Not=lambda x: not x,
                   implies=lambda a, b: (not a) or b, ite=lambda c, a, b: a if c else b, iff=lambda a, b: bool(a) == bool(b),
                   forall=unsup, exists=unsup, u64=lambda x: x, NULL=0,
                   is_pow2=lambda a: a > 0 and (a & (a - 1)) == 0, pmod=lambda x, al: x % al,
                   imin=min, imax=max, iabs=abs, lit=lambda v: v, trunc=lambda x, w: x % (1 << w),
                   true=True, false=False)
    active = set()

    def ev(s, mode):
        code, free = compile_expr(s)
        g = {'__builtins__': {'len': len, 'range': range, 'abs': abs, 'min': min, 'max': max, 'int': int, 'True': True, 'False': False}}
        for name, which in free:
            w = mode if which in ('cur', 'fn') else which
            key = name if which in ('cur', 'fn') else '%s__%s' % (name, which)
            if key in g:
                continue
            g[key] = lookup(name, w)
        return eval(code, g)

    def lookup(name, mode):
        if name in extra:
            v = extra[name]
            return v(mode) if getattr(v, '_per_mode', False) else v
        if name in helpers:
            return helpers[name]
        if name in defs:
            if (name, mode) in active:
                raise ConcreteUnsupported()
            active.add((name, mode))
            try:
                return ev(defs[name], mode)
            finally:
                active.discard((name, mode))
        st = states.get(mode)
        if st is None or name not in st:
            raise ConcreteUnsupported('name %s in mode %s' % (name, mode))
        return st[name]
    return ev(src, 'cur')
