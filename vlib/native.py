"""Native replay: the real C file from /repo's working tree is compiled by gcc into a
shared object (the harness TU #includes the .c file, so statics are reachable); undefined
externals get abort-stubs generated from `nm -u`; mju_error is a longjmp recorder."""
import ctypes
import hashlib
import os
import re
import subprocess
import tempfile
from .cast import REPO, VERIF

WORK = os.path.join(VERIF, '.work')

HARNESS_PRE = r'''
#include <setjmp.h>
#include <stdarg.h>
#include <stdio.h>
#include <string.h>
#include <stdint.h>
#include <stdlib.h>
static jmp_buf vf_jmp; static int vf_armed = 0; int vf_error_flag = 0; char vf_error_msg[1024];
'''

HARNESS_ERR = r'''
void mju_error(const char* msg, ...) {
  va_list ap; va_start(ap, msg); vsnprintf(vf_error_msg, sizeof vf_error_msg, msg, ap); va_end(ap);
  vf_error_flag = 1; if (vf_armed) longjmp(vf_jmp, 1); abort(); }
void mju_message(const mjLogMessage* m) {
  if (m->level == mjLOG_ERROR) { snprintf(vf_error_msg, sizeof vf_error_msg, "%s", m->subject);
    vf_error_flag = 1; if (vf_armed) longjmp(vf_jmp, 1); abort(); } }
#define VF_TRY(stmt) do { vf_error_flag = 0; vf_armed = 1; if (!setjmp(vf_jmp)) { stmt; } vf_armed = 0; } while (0)
'''


def build_so(name, c_files, body, extra_cflags=(), define_err=True):
    """c_files: repo-relative .c files #included into the harness TU. body: harness C code."""
    os.makedirs(WORK, exist_ok=True)
    src = HARNESS_PRE
    for f in c_files:
        src += '#include "%s"\n' % os.path.join(REPO, f)
    if define_err:
        src += HARNESS_ERR
    src += body
    d = tempfile.mkdtemp(prefix=name + '_', dir=WORK)
    cpath, opath, so = os.path.join(d, 'h.c'), os.path.join(d, 'h.o'), os.path.join(d, 'h.so')
    open(cpath, 'w').write(src)
    flags = ['-O0', '-g', '-fPIC', '-w', '-I%s/include' % REPO, '-I%s/src' % REPO, '-I%s/stubs' % VERIF] + list(extra_cflags)
    p = subprocess.run(['gcc', '-c', cpath, '-o', opath] + flags, capture_output=True, text=True)
    if p.returncode != 0:
        raise RuntimeError('native harness does not compile: ' + p.stderr[-3000:])
    und = subprocess.run(['nm', '-u', opath], capture_output=True, text=True).stdout.split()
    und = [u for u in und if re.match(r'^[A-Za-z_]\w*$', u)]
    libc = ctypes.CDLL(None)
    stubs = ''
    for u in und:
        if u in ('U', 'w', '_GLOBAL_OFFSET_TABLE_'):
            continue
        try:
            getattr(libc, u)
            continue
        except AttributeError:
            pass
        libm_ok = False
        try:
            getattr(ctypes.CDLL('libm.so.6'), u)
            libm_ok = True
        except Exception:   # noqa
            pass
        if libm_ok:
            continue
        stubs += 'void %s(void) { fprintf(stderr, "verif: unexpected call to stubbed external %s\\n"); __builtin_trap(); }\n' % (u, u)
    spath = os.path.join(d, 'stubs.c')
    open(spath, 'w').write('#include <stdio.h>\n' + stubs)
    p = subprocess.run(['gcc', '-shared', '-o', so, opath, spath, '-lm', '-w', '-fPIC'], capture_output=True, text=True)
    if p.returncode != 0:
        raise RuntimeError('native harness does not link: ' + p.stderr[-3000:])
    return ctypes.CDLL(so), d


def cleanup(d):
    import shutil
    shutil.rmtree(d, ignore_errors=True)
