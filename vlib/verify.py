"""Function-level verification driver: builds the symbolic pre-state from the contract,
runs the body, turns ensures / error clauses into obligations."""
import time
import z3
from .cast import FrontEndError, TInt, TFloat, TPtr, TArr, TStruct, TVoid, fn_params, load_tu
from .sem import simp
from .state import State, Ptr, NULLP, RAW
from .symex import Exe, Obligation
from .flow import Flow, dead
from .cexpr import eval_clauses, view, Env, fn_resolver, _b


class FnResult:
    def __init__(self, fn):
        self.fn = fn
        self.obligations = []
        self.n_return_paths = 0
        self.n_error_paths = 0
        self.assumed = set()
        self.layout_facts = set()
        self.time_s = 0.0
        self.exe = None
        self.pre = None
        self.params = {}


def make_param(exe, st, pd, spec):
    """symbolic value for one parameter according to its contract spec."""
    name = pd.get('name') or 'arg'
    ct = exe.tu.ctype(pd['type'])
    spec = spec or {}
    if 'value' in spec:
        return exe.sem.const(spec['value'], ct)
    if isinstance(ct, TPtr):
        to = ct.to
        if spec.get('null'):
            return NULLP(to)
        if spec.get('raw'):
            a = z3.BitVec(name, 64)
            return Ptr(RAW, (a,), (), to, isnull=(a == 0))
        if 'alias' in spec:
            return spec['alias']
        ect = spec.get('ct') or (to if not isinstance(to, TVoid) else TInt(8, False, 'unsigned char'))
        if isinstance(ect, str):
            ect = exe.tu.ctype(ect)
        n = spec.get('n', 1 if isinstance(ect, TStruct) else None)
        o = exe.new_obj(name, ect, n=n)
        o.meta['ptrfields'] = spec.get('ptrfields', {})
        o.meta['len_spec'] = spec.get('len')
        if spec.get('blob_buffer'):
            o.meta['blob_buffer'] = True
        p = Ptr(o, (0,), (), to if not isinstance(to, TVoid) else ect)
        if spec.get('init') is not None:
            for k, v in enumerate(spec['init']):
                st.store(Ptr(o, (k,), (), ect), exe.sem.const(v, ect))
        if spec.get('offset'):
            p = p.with_(idx=(z3.Const(name + '.off', exe.sem.idx_sort()),))
        if spec.get('nullable'):
            p = p.with_(isnull=z3.Bool('isnull(%s)' % name))
        return p
    if isinstance(ct, (TInt, TFloat)):
        v = exe.sem.fresh(name, ct)
        rf = exe.sem.range_fact(v, ct)
        if rf is not None:
            st.assume(rf)
        return v
    if isinstance(ct, TStruct):
        o = exe.new_obj(name, ct, n=1)
        return Ptr(o, (0,), (), ct)
    raise FrontEndError('parameter type %r' % ct)


def verify_function(tu, fn_name, contracts, int_mode='bv', num_mode='real', prefix='', check_arith=True,
                    ob_filter=None, setup=None, hooks=None, fixed=None):
    t0 = time.time()
    if fn_name not in tu.functions:
        raise FrontEndError('function %s not found in %s (contract cannot be bound)' % (fn_name, tu.relpath))
    fn = tu.functions[fn_name]
    con = contracts.get(fn_name, {})
    exe = Exe(tu, int_mode, num_mode, contracts, prefix)
    exe.check_arith = check_arith
    exe.sem.strict = bool(con.get('strict_unsigned'))
    exe.keep_byte_offsets = bool(con.get('keep_byte_offsets'))
    if con.get('prune_ms') is not None:
        exe.prune_ms = con['prune_ms']      # solver-based pruning of infeasible branches during VC generation
    exe.drop_dead_ptr_locals = bool(con.get('drop_dead_ptr_locals'))
    exe.ghost_tags = bool(con.get('ghost_tags'))
    import vlib.flow as _flow
    _flow.NO_MERGE = bool(con.get('no_merge') or contracts.get('__no_merge__'))
    exe.ob_filter = ob_filter
    if hooks:
        exe.hooks.update(hooks)
    flow = Flow(exe)
    st = State(exe)
    res = FnResult(fn_name)
    res.exe = exe
    args = []
    pspecs = dict(con.get('params', {}))
    for k, v in (fixed or {}).items():
        pspecs[k] = dict(pspecs.get(k) or {}, value=v)
    for pd in fn_params(fn):
        a = make_param(exe, st, pd, pspecs.get(pd.get('name')))
        args.append(a)
        res.params[pd.get('name')] = a
    # bind parameters first so that requires can talk about them
    for pd, a in zip(fn_params(fn), args):
        p = exe.local_ptr(pd)
        if isinstance(p.ct, (TStruct, TArr)):
            exe.copy_aggregate(p, a, p.ct, st)
        else:
            st.store(exe._normalize(p), a)
    # logical (ghost) parameters: fresh constants the contract may mention (ghost arrays, sizes that are not C parameters)
    gh = {}
    for gname, gsort in (con.get('ghost_params') or {}).items():
        if gsort == 'array':
            gh[gname] = z3.Array(gname, exe.sem.idx_sort(), exe.sem.idx_sort())
        elif gsort == 'int':
            gh[gname] = z3.Const(gname, exe.sem.idx_sort())
        elif gsort == 'real' and exe.sem.num_mode == 'real':
            gh[gname] = z3.Real(gname)
        else:
            raise FrontEndError('ghost parameter sort ' + str(gsort))
    exe.__dict__.setdefault('ghosts', {})[fn_name] = gh
    # ghost definitions: named abbreviations (fresh constants with a defining equation, evaluated in order in the entry
    # state) - a definitional extension, so assuming the equations is sound; they keep long specification sums out of the VCs
    if con.get('ghost_defs'):
        exe.fn_stack.append(fn_name)
        exe.pre_states = {fn_name: st}
        for gname, gexpr in con['ghost_defs']:
            term = eval_clauses(exe, {gname: gexpr}, st, fn_name, raw=True, pre=st)[0][1]
            c = z3.Const(gname, exe.sem.idx_sort())
            st.assume(c == term)
            gh[gname] = c
        exe.fn_stack.pop()
    if setup:
        setup(exe, st, res)
    exe.pre_states = {fn_name: st}
    exe.fn_stack.append(fn_name)       # so spec evaluation can name a function
    # object lengths for bounds obligations
    for pd, a in zip(fn_params(fn), args):
        sp = pspecs.get(pd.get('name')) or {}
        if isinstance(a, Ptr) and a.obj is not None and sp.get('len') is not None:
            ln = eval_clauses(exe, {'len': sp['len']}, st, fn_name, raw=True, pre=st)[0][1]
            from .cexpr import narrow_idx
            a.obj.length = narrow_idx(exe, ln)
    # declared lengths of the arrays reached through pointer fields (model invariant: lengths per the X-macro table)
    from .cexpr import narrow_idx as _ni, PtrView as _PV
    for pd, a in zip(fn_params(fn), args):
        sp = pspecs.get(pd.get('name')) or {}
        for fld, fs in (sp.get('ptrfields') or {}).items():
            if isinstance(a, Ptr) and fs.get('len') is not None:
                pv = getattr(_PV(exe, st, a), fld)
                ln = eval_clauses(exe, {'len': fs['len']}, st, fn_name, raw=True, pre=st)[0][1]
                pv._p.obj.length = _ni(exe, ln)
    pre = st.fork()
    for cname, term in eval_clauses(exe, con.get('requires', {}), st, fn_name, pre=pre):
        st.assume(term)
    # lemmas: consequences of the precondition, proved once here and then available everywhere in the body
    for cname, term in eval_clauses(exe, con.get('lemmas', {}), st, fn_name, pre=pre):
        exe.emit('%s/lemma/%s' % (fn_name, cname), term, st, kind='lemma')
        st.assume(term)
    pre = st.fork()
    exe.pre_states = {fn_name: pre}
    res.pre = pre
    exe.fn_stack.pop()
    n_pre = len(st.pc)
    # vacuity guard: the precondition itself must be satisfiable
    exe.obligations.append(Obligation(prefix + fn_name + '/requires_satisfiable', list(st.pc), z3.BoolVal(False), kind='cover'))
    flow.write_log = set()
    from .state import _ids
    import itertools
    first_new_id = next(_ids)
    outs = flow.run_function(fn, args, st)
    writes, flow.write_log = flow.write_log, None
    errs = [o.st for o in outs if o.kind == 'error'] + exe.errors
    rets = [o.st for o in outs if o.kind == 'return']
    res.n_return_paths, res.n_error_paths = len(rets), len(errs)
    res.ret_states, res.err_states = rets, errs
    exe.fn_stack.append(fn_name)
    rt_s = fn['type']['qualType']
    rt = tu.ctype(rt_s[:rt_s.index('(')].strip())
    for i, s in enumerate(rets):
        if dead(s):
            continue
        rv = s.ghost.get('$ret')
        extra = {'result': view(exe, s, rv, rt)} if not isinstance(rt, TVoid) else {}      # a void function may have a parameter called result
        suffix = '' if len(rets) == 1 else '#%d' % i
        ens = {}
        for cname, src in (con.get('ensures', {}).items() if isinstance(con.get('ensures', {}), dict) else enumerate(con.get('ensures', []))):
            if isinstance(src, tuple):
                # (guard, body): the body is only evaluated on paths where the guard can hold (e.g. result != NULL)
                g = eval_clauses(exe, {'g': src[0]}, s, fn_name, pre=pre, extra=extra)[0][1]
                if z3.is_false(simp(g)):
                    continue
                ens[cname] = 'implies(%s, %s)' % (src[0], src[1])
            else:
                ens[cname] = src
        for cname, term in eval_clauses(exe, ens, s, fn_name, pre=pre, extra=extra):
            if con.get('quiet_trivial') and z3.is_true(simp(term)):
                continue       # e.g. `result == NULL implies ...` on a path that returns a string literal: not counted
            exe.emit('%s/ensures/%s%s' % (fn_name, cname, suffix), term, s, kind='post')
        if con.get('ensures_hook'):
            con['ensures_hook'](exe, s, pre, rv, suffix)
    for i, s in enumerate(errs):
        if dead(s):
            continue
        suffix = '' if len(errs) == 1 else '#%d' % i
        if 'error_only_if' in con:
            for cname, term in eval_clauses(exe, {'error_only_if': con['error_only_if']}, s, fn_name, pre=pre):
                exe.emit('%s/%s%s' % (fn_name, cname, suffix), term, s, kind='post')
        elif con.get('no_error'):
            exe.emit('%s/no_error%s' % (fn_name, suffix), z3.BoolVal(False), s, kind='post')
        if con.get('error_hook'):
            con['error_hook'](exe, s, pre, suffix)
    # frame: every store to a non-local object must be allowed by the assigns clause
    if 'assigns' in con:
        from .cexpr import frame_targets
        defs = dict(contracts.get('__defs__', {}))
        defs.update(con.get('defs', {}))
        env = Env(exe, defs, {'cur': pre, 'old': pre}, fn_resolver(exe, fn_name))
        allowed = frame_targets(exe, pre, con['assigns'], env, fn_name)
        bad = []
        for (oid, path) in writes:
            o = exe.obj_by_id.get(oid)
            if o is None or o.kind in ('local', 'string') or path is None or '$tag' in path:
                continue
            if oid > first_new_id and not o.meta.get('view_of_pre'):
                continue      # object first reached through a location this function (re)assigned
            if (oid, path) not in allowed:
                bad.append('%s%s' % (o.name, ''.join('.' + x for x in path)))
        exe.obligations.append(Obligation(prefix + fn_name + '/frame(assigns)', [],
                                          z3.BoolVal(not bad), kind='frame', meta={'extra_writes': sorted(bad)}))
    exe.fn_stack.pop()
    res.obligations = exe.obligations
    res.assumed = exe.assumed
    res.layout_facts = getattr(exe, 'layout_facts', set())
    res.time_s = time.time() - t0
    return res
