"""clang JSON AST front end: loads the *preprocessed, typed* AST of a real C file
of /repo on every run and exposes functions, records, typedefs, enums, globals.

Nothing here is a model of the code: every node comes from
  clang -fsyntax-only -Xclang -ast-dump=json <file>
run on /repo's current working tree.
"""
import hashlib
import json
import os
import re
import subprocess

REPO = os.environ.get('VERIF_REPO', '/repo')
VERIF = os.path.dirname(os.path.dirname(os.path.abspath(__file__)))
CLANG_FLAGS = ['-I%s/include' % REPO, '-I%s/src' % REPO, '-I%s/stubs' % VERIF]


class FrontEndError(Exception):
    """contract cannot be bound / construct outside the accepted subset (exit 2)."""


# ----------------------------------------------------------------------------
# C types
# ----------------------------------------------------------------------------
class CType:
    kind = '?'

    def __repr__(self):
        return self.cstr()

    def __eq__(self, o):
        return isinstance(o, CType) and self.cstr() == o.cstr()

    def __hash__(self):
        return hash(self.cstr())


class TInt(CType):
    kind = 'int'

    def __init__(self, width, signed, name, is_bool=False):
        self.width, self.signed, self.name, self.is_bool = width, signed, name, is_bool

    def cstr(self):
        return self.name

    @property
    def size(self):
        return self.width // 8

    @property
    def lo(self):
        return -(1 << (self.width - 1)) if self.signed else 0

    @property
    def hi(self):
        if self.is_bool:
            return 1
        return (1 << (self.width - 1)) - 1 if self.signed else (1 << self.width) - 1


class TFloat(CType):
    kind = 'float'

    def __init__(self, width):
        self.width = width

    def cstr(self):
        return 'double' if self.width == 64 else 'float'

    @property
    def size(self):
        return self.width // 8


class TVoid(CType):
    kind = 'void'
    size = 1

    def cstr(self):
        return 'void'


class TPtr(CType):
    kind = 'ptr'
    size = 8

    def __init__(self, to):
        self.to = to

    def cstr(self):
        return self.to.cstr() + ' *'


class TArr(CType):
    kind = 'arr'

    def __init__(self, of, n):
        self.of, self.n = of, n

    def cstr(self):
        return '%s[%s]' % (self.of.cstr(), self.n)


class TStruct(CType):
    kind = 'struct'

    def __init__(self, name, tu):
        self.name, self.tu = name, tu

    def cstr(self):
        return 'struct ' + self.name

    @property
    def fields(self):
        return self.tu.record_fields(self.name)

    @property
    def is_union(self):
        r = self.tu.records.get(self.name)
        return r is not None and r.get('tagUsed') == 'union'

    def field(self, fname):
        if fname == '$blob':
            return TInt(64, False, 'unsigned long')
        for n, t in self.fields:
            if n == fname:
                return t
        raise FrontEndError('no field %s in %s' % (fname, self.name))


class TFn(CType):
    kind = 'fn'
    size = 1

    def __init__(self, s):
        self.s = s

    def cstr(self):
        return 'fn<%s>' % self.s


_BASE = {
    'char': (8, True), 'signed char': (8, True), 'unsigned char': (8, False),
    'short': (16, True), 'unsigned short': (16, False),
    'int': (32, True), 'unsigned int': (32, False), 'unsigned': (32, False),
    'long': (64, True), 'unsigned long': (64, False),
    'long long': (64, True), 'unsigned long long': (64, False),
    '__int128': (128, True), 'unsigned __int128': (128, False),
}


class TU:
    """one translation unit (one real .c file of /repo) as clang sees it."""

    def __init__(self, relpath, extra_flags=(), abspath=None, keep=None):
        self.relpath = relpath
        self.path = abspath or os.path.join(REPO, relpath)
        cmd = ['clang', '-fsyntax-only', '-Xclang', '-ast-dump=json'] + CLANG_FLAGS + list(extra_flags) + [self.path]
        p = subprocess.run(cmd, capture_output=True)
        if p.returncode != 0:
            raise FrontEndError('clang failed on %s: %s' % (self.path, p.stderr.decode()[-2000:]))
        self.source_sha = hashlib.sha256(open(self.path, 'rb').read()).hexdigest()
        root = json.loads(p.stdout)
        del p
        self.functions = {}     # name -> FunctionDecl node with a body
        self.fn_decls = {}      # name -> any FunctionDecl (for param types)
        self.fn_by_id = {}
        self.records = {}       # key -> RecordDecl
        self.record_by_id = {}
        self.typedefs = {}      # name -> type dict
        self.enum_consts = {}   # name -> int
        self.enum_by_id = {}
        self.globals = {}       # name -> VarDecl
        self.global_by_id = {}
        self._fields_cache = {}
        self._type_cache = {}
        for n in root['inner']:
            k = n['kind']
            if k == 'FunctionDecl':
                name = n.get('name')
                self.fn_by_id[n['id']] = n
                self.fn_decls.setdefault(name, n)
                if any(c['kind'] == 'CompoundStmt' for c in n.get('inner', [])):
                    if keep is None or name in keep:
                        self.functions[name] = n
                    self.fn_decls[name] = n
            elif k == 'RecordDecl':
                self._reg_record(n)
            elif k == 'TypedefDecl':
                self.typedefs[n['name']] = n
            elif k == 'EnumDecl':
                self._reg_enum(n)
            elif k == 'VarDecl':
                self.globals[n['name']] = n
                self.global_by_id[n['id']] = n
        # file-local scalars that are only ever READ in this translation unit keep their initial value for the whole run:
        # a `static` variable is invisible to other units, and a use that is not the direct operand of an lvalue-to-rvalue
        # conversion (assignment, ++/--, address-of, array decay ...) is counted as a possible write
        self.non_read_uses = set()
        self.atomic_ids = []        # AtomicExpr nodes in source order (the JSON dump does not name the builtin; see atomic_name)
        self._atomic_names = None
        self._cmd_flags = list(CLANG_FLAGS) + list(extra_flags)
        for n in root['inner']:
            if n['kind'] == 'FunctionDecl':
                self._scan_uses(n, False)

    def _scan_uses(self, n, under_load):
        k = n.get('kind')
        if k == 'DeclRefExpr':
            if not under_load:
                self.non_read_uses.add(n.get('referencedDecl', {}).get('id'))
            return
        if k == 'AtomicExpr':
            self.atomic_ids.append(n['id'])
        load = k == 'ImplicitCastExpr' and n.get('castKind') == 'LValueToRValue'
        for c in n.get('inner', []) or ():
            if c and 'kind' in c:
                self._scan_uses(c, load)

    _ATOMIC_RE = re.compile(r'\b(__atomic_(?:load|store|exchange|compare_exchange)(?:_n)?|__atomic_fetch_(?:add|sub|and|or|xor|nand|min|max)|'
                            r'__atomic_(?:add|sub|and|or|xor|nand|min|max)_fetch|'
                            r'__c11_atomic_(?:init|load|store|exchange|compare_exchange_strong|compare_exchange_weak|fetch_(?:add|sub|and|or|xor|nand|min|max)))\s*\(')

    def atomic_name(self, node_id):
        """which atomic builtin an AtomicExpr node is.  clang's JSON dump omits the name, so the k-th AtomicExpr of the unit (AST order
        == source order, nested operands after their parent) is matched with the k-th atomic builtin token of the preprocessed text; a
        count mismatch refuses the unit rather than guessing."""
        if self._atomic_names is None:
            p = subprocess.run(['clang', '-E', '-P'] + self._cmd_flags + [self.path], capture_output=True)
            if p.returncode != 0:
                raise FrontEndError('clang -E failed on %s' % self.path)
            names = self._ATOMIC_RE.findall(p.stdout.decode(errors='replace'))
            if len(names) != len(self.atomic_ids):
                raise FrontEndError('atomic builtins: %d AtomicExpr nodes but %d builtin tokens in the preprocessed text of %s'
                                    % (len(self.atomic_ids), len(names), self.relpath))
            self._atomic_names = dict(zip(self.atomic_ids, names))
        if node_id not in self._atomic_names:
            raise FrontEndError('atomic expression outside any function')
        return self._atomic_names[node_id]

    def read_only_static(self, decl):
        qt = decl.get('type', {}).get('qualType', '')
        return (decl.get('storageClass') == 'static' and 'inner' in decl and decl['id'] not in self.non_read_uses
                and '*' not in qt and '[' not in qt and 'struct' not in qt)

    # -- records -------------------------------------------------------------
    def _reg_record(self, n):
        self.record_by_id[n['id']] = n
        if 'inner' in n or n.get('completeDefinition'):
            name = n.get('name')
            if name:
                self.records[name] = n
            for c in n.get('inner', []):
                if c['kind'] == 'RecordDecl':
                    self._reg_record(c)

    def _reg_enum(self, n):
        val = -1
        for c in n.get('inner', []):
            if c['kind'] == 'EnumConstantDecl':
                v = self._const_value(c)
                val = v if v is not None else val + 1
                self.enum_consts[c['name']] = val
                self.enum_by_id[c['id']] = val

    def _const_value(self, n):
        for c in n.get('inner', []):
            if c['kind'] == 'ConstantExpr' and 'value' in c:
                return int(c['value'])
            if c['kind'] == 'IntegerLiteral':
                return int(c['value'])
            v = self._const_value(c)
            if v is not None:
                return v
        return None

    def record_fields(self, name):
        if name in self._fields_cache:
            return self._fields_cache[name]
        n = self.records.get(name)
        if n is None:
            raise FrontEndError('incomplete struct ' + name)
        out = []
        for c in n.get('inner', []):
            if c['kind'] == 'FieldDecl':
                out.append((c.get('name', '<anon%d>' % len(out)), self.ctype(c['type'])))
        self._fields_cache[name] = out
        return out

    # -- types ---------------------------------------------------------------
    def ctype(self, t):
        """t: clang JSON type dict or a type string."""
        s = t['qualType'] if isinstance(t, dict) else t
        if s in self._type_cache:
            return self._type_cache[s]
        r = self._parse_type(s)
        self._type_cache[s] = r
        return r

    def _parse_type(self, s):
        s = s.strip()
        m0 = re.match(r'^(?:const\s+|volatile\s+)*(enum|struct|union)\s+(?:\w+::)*\((?:unnamed|anonymous)[^)]*\)\s*$', s)
        if m0:
            if m0.group(1) == 'enum':
                return TInt(32, False, 'unsigned int')
            return self._anon_record(s)
        # function pointer / function types
        if '(*' in s or re.search(r'\)\s*\(', s) or (s.endswith(')') and '(' in s):
            if '(*' in s:
                return TPtr(TFn(s))
            return TFn(s)
        # array suffix
        m = re.match(r'^(.*?)((?:\[\d*\])+)$', s)
        if m:
            base = self._parse_type(m.group(1))
            dims = re.findall(r'\[(\d*)\]', m.group(2))
            for d in reversed(dims):
                base = TArr(base, int(d) if d else None)
            return base
        # pointer suffix (with qualifiers after *)
        m = re.match(r'^(.*)\*\s*(?:const|restrict|volatile|__restrict|\s)*$', s)
        if m:
            return TPtr(self._parse_type(m.group(1)))
        # strip qualifiers
        toks = [w for w in s.split() if w not in ('const', 'volatile', 'restrict', '__restrict', '_Atomic')]
        s2 = ' '.join(toks)
        if s2 == 'void':
            return TVoid()
        if s2 in ('_Bool', 'bool'):
            return TInt(8, False, '_Bool', is_bool=True)
        if s2 in _BASE:
            w, sg = _BASE[s2]
            return TInt(w, sg, s2)
        if s2 == 'double' or s2 == 'long double':
            return TFloat(64)
        if s2 == 'float':
            return TFloat(32)
        if s2.startswith('struct ') or s2.startswith('union '):
            nm = s2.split(' ', 1)[1]
            if nm.startswith('(unnamed') or nm.startswith('(anonymous'):
                return self._anon_record(s2)
            return TStruct(nm, self)
        if s2.startswith('enum '):
            return TInt(32, False, 'unsigned int') if self._enum_unsigned(s2) else TInt(32, True, 'int')
        if s2 in self.typedefs:
            td = self.typedefs[s2]
            # typedef of an anonymous struct: find the RecordDecl it owns
            for c in td.get('inner', []):
                r = self._typedef_record(c)
                if r is not None:
                    key = 'typedef:' + s2
                    self.records[key] = r
                    return TStruct(key, self)
            return self._parse_type(td['type']['qualType'])
        raise FrontEndError('unparsed C type: %r' % s)

    def _enum_unsigned(self, s):
        return True   # clang: enums without negative constants have unsigned underlying type in C (gcc/clang)

    def _typedef_record(self, c):
        if c['kind'] == 'ElaboratedType':
            od = c.get('ownedTagDecl')
            if od and od['id'] in self.record_by_id and not od.get('name'):
                r = self.record_by_id[od['id']]
                if r.get('tagUsed') in ('struct', 'union'):
                    return r
            for cc in c.get('inner', []):
                r = self._typedef_record(cc)
                if r is not None:
                    return r
        if c['kind'] == 'RecordType':
            d = c.get('decl')
            if d and d['id'] in self.record_by_id and not d.get('name'):
                return self.record_by_id[d['id']]
        return None

    def _anon_record(self, s):
        # "struct (unnamed struct at file:line:col)"
        m = re.search(r':(\d+):(\d+)\)', s)
        if m:
            line, col = int(m.group(1)), int(m.group(2))
            for rid, r in self.record_by_id.items():
                loc = r.get('loc', {})
                if loc.get('line') == line and loc.get('col') == col:
                    key = 'anon:%d:%d' % (line, col)
                    self.records[key] = r
                    return TStruct(key, self)
        key = 'anon:' + s
        raise FrontEndError('anonymous record not resolved: ' + s)

    # -- layout (LP64) ---------------------------------------------------------
    def sizeof(self, t):
        return self._layout(t)[0]

    def alignof(self, t):
        return self._layout(t)[1]

    def _layout(self, t):
        if isinstance(t, (TInt, TFloat)):
            return t.size, min(t.size, 16)
        if isinstance(t, TPtr):
            return 8, 8
        if isinstance(t, TArr):
            s, a = self._layout(t.of)
            if t.n is None:
                raise FrontEndError('sizeof incomplete array')
            return s * t.n, a
        if isinstance(t, TStruct):
            n = self.records.get(t.name)
            is_union = n is not None and n.get('tagUsed') == 'union'
            off, al = 0, 1
            for _, ft in t.fields:
                s, a = self._layout(ft)
                al = max(al, a)
                if is_union:
                    off = max(off, s)
                else:
                    off = (off + a - 1) // a * a + s
            return (off + al - 1) // al * al, al
        if isinstance(t, TVoid) or isinstance(t, TFn):
            return 1, 1
        raise FrontEndError('sizeof %r' % t)

    def field_offset(self, t, fname):
        off = 0
        for n, ft in t.fields:
            s, a = self._layout(ft)
            off = (off + a - 1) // a * a
            if n == fname:
                return off
            off += s
        raise FrontEndError('no field ' + fname)


_TU_CACHE = {}


def load_tu(relpath, extra_flags=(), abspath=None):
    key = (relpath, tuple(extra_flags), abspath)
    if key not in _TU_CACHE:
        _TU_CACHE[key] = TU(relpath, extra_flags, abspath)
    return _TU_CACHE[key]


def walk(n):
    if not n or 'kind' not in n:
        return
    yield n
    for c in n.get('inner', []):
        yield from walk(c)


def fn_body(fn):
    for c in fn.get('inner', []):
        if c['kind'] == 'CompoundStmt':
            return c
    return None


def fn_params(fn):
    return [c for c in fn.get('inner', []) if c['kind'] == 'ParmVarDecl']
