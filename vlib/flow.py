"""Statement-level symbolic execution: branching with state merging, loops as cut points
(contract invariant) or full unrolling (constant trip count), switch, inline calls."""
import z3
from .cast import FrontEndError, TInt, TFloat, TPtr, TArr, TStruct, fn_body, fn_params, walk
from .sem import simp
from .state import State, Ptr, NULLP, RAW, merge_states, merge_vals, CannotMerge
from .symex import Outcome, PathDead, Exe

MAX_UNROLL = 4096


class ErrorExit(Exception):
    def __init__(self, callee, node=None):
        self.callee, self.node = callee, node


def common_prefix(a, b):
    k = 0
    for x, y in zip(a, b):
        if x is y or x.eq(y):
            k += 1
        else:
            break
    return k


NO_MERGE = False


def merge_outcomes(outs, force=False):
    """merge outcomes of equal kind where possible."""
    if NO_MERGE and not force:
        return list(outs)
    res = []
    by = {}
    for o in outs:
        by.setdefault(o.kind, []).append(o)
    for kind, lst in by.items():
        acc = []
        for o in lst:
            merged = False
            for i, a in enumerate(acc):
                try:
                    k = common_prefix(a.st.pc, o.st.pc)
                    acc[i] = Outcome(kind, merge_states(a.st, o.st, k))
                    merged = True
                    break
                except CannotMerge:
                    continue
            if not merged:
                acc.append(o)
        res.extend(acc)
    return res


def _has_quantifier(t, _cache={}):
    k = t.get_id()
    if k in _cache:
        return _cache[k]
    r = z3.is_quantifier(t) or any(_has_quantifier(c) for c in t.children())
    _cache[k] = r
    return r


def _consts_of(terms, _cache={}):
    """names of the uninterpreted symbols occurring in a list of terms."""
    out = set()
    seen = set()
    stack = list(terms)
    while stack:
        t = stack.pop()
        i = t.get_id()
        if i in seen:
            continue
        seen.add(i)
        if z3.is_quantifier(t):
            stack.append(t.body())
            continue
        if z3.is_app(t):
            if t.decl().kind() == z3.Z3_OP_UNINTERPRETED:
                out.add(t.decl().name())
            stack.extend(t.children())
    return out


def _fresh_symbols(term, known, k):
    """constants / functions of `term` created while the loop body ran (names carry '#') that the head state does not know."""
    consts, fns = {}, {}
    seen = set()
    stack = [term]
    while stack:
        t = stack.pop()
        i = t.get_id()
        if i in seen:
            continue
        seen.add(i)
        if z3.is_quantifier(t):
            stack.append(t.body())
            continue
        if z3.is_app(t):
            d = t.decl()
            if d.kind() == z3.Z3_OP_UNINTERPRETED and '#' in d.name() and d.name() not in known and not t.eq(k):
                if d.arity() == 0:
                    consts[d.name()] = t
                else:
                    fns[d.name()] = d
            stack.extend(t.children())
    return list(consts.values()), fns


def dead(st):
    return any(z3.is_false(c) for c in st.pc)


class Flow:
    def __init__(self, exe):
        self.exe = exe
        exe.flow = self
        self.discovery = 0
        self.write_log = None
        exe.on_store = self._on_store
        self._orig_emit = exe.emit
        exe.emit = self._emit

    def _emit(self, *a, **k):
        if self.discovery:
            return
        return self._orig_emit(*a, **k)

    def _on_store(self, p, v, st):
        if self.write_log is not None and p.obj is not None:
            self.write_log.add((p.obj.id, p.path))
        if self.discovery and p.obj is not None and st is not None:
            st.ghost['$w'] = st.ghost.get('$w', frozenset()) | {(p.obj.id, p.path)}

    # ------------------------------------------------------------------------------
    def run_function(self, fn, args, st):
        """execute fn's body with args bound; returns outcomes of kind 'return' / 'error'."""
        exe = self.exe
        name = fn['name']
        if name in exe.fn_stack:
            raise FrontEndError('recursion: ' + name)
        params = fn_params(fn)
        if len(params) != len(args):
            raise FrontEndError('arity mismatch calling ' + name)
        for pd, a in zip(params, args):
            p = exe.local_ptr(pd)
            if isinstance(p.ct, (TStruct, TArr)):
                exe.copy_aggregate(p, a, p.ct, st)
            else:
                st.store(exe._normalize(p), a)
        if name not in exe.loop_ord:
            k = 0
            d = {}
            for c in walk(fn_body(fn)):
                if c['kind'] in ('ForStmt', 'WhileStmt', 'DoStmt'):
                    d[c['id']] = k
                    k += 1
            exe.loop_ord[name] = d
        exe.fn_stack.append(name)
        try:
            outs = self.exec_stmt(fn_body(fn), st)
        finally:
            exe.fn_stack.pop()
        res = []
        for o in outs:
            if o.kind == 'next':
                o = Outcome('return', o.st)
                o.st.ghost['$ret'] = None
            if o.kind in ('break', 'continue'):
                raise FrontEndError('stray break/continue in ' + name)
            res.append(o)
        return res

    # ------------------------------------------------------------------------------
    def exec_stmt(self, n, st):
        if dead(st):
            return []
        k = n['kind']
        m = getattr(self, 's_' + k, None)
        exe = self.exe
        try:
            if m is not None:
                return m(n, st)
            # expression statement
            if k == 'CallExpr' and NO_MERGE:
                r = self.call_stmt(n, st)
                if r is not None:
                    return r
            exe.ev(n, st)
            return [Outcome('next', st)]
        except PathDead:
            return []
        except ErrorExit as e:
            st.ghost['$err'] = (e.callee, exe._loc(e.node) if e.node else '')
            return [Outcome('error', st)]

    def call_stmt(self, n, st):
        """a call statement to an inlined callee, without merging its return paths (each path continues on its own)."""
        exe = self.exe
        name = exe._callee_name(n)
        con = exe.contracts.get(name)
        inl = (con is not None and con.get('inline')) or (con is None and exe.contracts.get('__auto_inline__'))
        if name is None or name in exe.hooks or not inl or name not in exe.tu.functions:
            return None
        prev, exe.cur = exe.cur, st
        try:
            args = [exe._ev(a, st) for a in n['inner'][1:]]
        finally:
            exe.cur = prev
        outs = self.run_function(exe.tu.functions[name], args, st)
        res = []
        for o in outs:
            if o.kind == 'error':
                res.append(o)
            else:
                o.st.ghost.pop('$ret', None)
                res.append(Outcome('next', o.st))
        return res

    def s_NullStmt(self, n, st):
        return [Outcome('next', st)]

    def s_AttributedStmt(self, n, st):
        # `__attribute__((fallthrough));` and friends: the attribute has no semantics, the wrapped statement is executed
        inner = [c for c in n.get('inner', []) if 'Attr' not in c['kind']]
        return self.exec_stmt(inner[0], st) if inner else [Outcome('next', st)]

    def s_CompoundStmt(self, n, st):
        cur = [st]
        done = []
        for c in n.get('inner', []):
            nxt = []
            for s in cur:
                for o in self.exec_stmt(c, s):
                    (nxt if o.kind == 'next' else done).append(o)
            if len(nxt) > 1:
                nxt = merge_outcomes(nxt)
            cur = [o.st for o in nxt]
            if not cur:
                break
        return done + [Outcome('next', s) for s in cur]

    def s_DeclStmt(self, n, st):
        exe = self.exe
        for d in n.get('inner', []):
            if d['kind'] == 'VarDecl':
                init = [c for c in d.get('inner', []) if 'Attr' not in c['kind'] and c['kind'] != 'FullComment']
                if d.get('storageClass') == 'static':
                    exe.tu.global_by_id.setdefault(d['id'], d)
                    continue
                p = exe.local_ptr(d)
                if d.get('name'):
                    st.ghost['$decl:' + d['name']] = d['id']      # which same-named local is in scope (for specifications)
                # forget stale cells of a re-entered declaration
                for key in [k for k in st.heap if k[0] == p.obj.id]:
                    del st.heap[key]
                if self.write_log is not None:
                    self.write_log.add((p.obj.id, None))
                if init:
                    exe.site = exe._loc(d)
                    prev, exe.cur = exe.cur, st
                    try:
                        exe.init_from(p, init[0], st)
                    finally:
                        exe.cur = prev
            elif d['kind'] in ('RecordDecl', 'TypedefDecl', 'EnumDecl', 'StaticAssertDecl'):
                continue
            else:
                raise FrontEndError('declaration kind ' + d['kind'])
        return [Outcome('next', st)]

    def s_ReturnStmt(self, n, st):
        exe = self.exe
        v = None
        if n.get('inner'):
            v = exe.ev(n['inner'][0], st)
        st.ghost['$ret'] = v
        return [Outcome('return', st)]

    def s_BreakStmt(self, n, st):
        return [Outcome('break', st)]

    def s_ContinueStmt(self, n, st):
        return [Outcome('continue', st)]

    def s_GotoStmt(self, n, st):
        raise FrontEndError('goto')

    def s_LabelStmt(self, n, st):
        raise FrontEndError('label')

    def s_IfStmt(self, n, st):
        exe = self.exe
        inner = n['inner']
        c = simp(exe.cond(inner[0], st))
        then = inner[1]
        els = inner[2] if len(inner) > 2 else None
        if z3.is_true(c):
            return self.exec_stmt(then, st)
        if z3.is_false(c):
            return self.exec_stmt(els, st) if els else [Outcome('next', st)]
        if exe.prune_ms and not self.discovery:
            ft, ff = self.feasible(st, c), self.feasible(st, z3.Not(c))
            if not ff and ft:
                st.assume(c)
                return self.exec_stmt(then, st)
            if not ft and ff:
                st.assume(z3.Not(c))
                return self.exec_stmt(els, st) if els else [Outcome('next', st)]
        st_t, st_f = st.fork(), st
        st_t.assume(c)
        st_f.assume(z3.Not(c))
        outs = self.exec_stmt(then, st_t)
        outs += self.exec_stmt(els, st_f) if els else [Outcome('next', st_f)]
        return merge_outcomes(outs)

    def feasible_qf(self, st, c, ms=2000):
        """feasibility from the quantifier-free part of the context only ('unknown' counts as feasible)."""
        s = z3.Solver()
        s.set('timeout', ms)
        for t in st.pc:
            if not _has_quantifier(t):
                s.add(t)
        s.add(c)
        return s.check() != z3.unsat

    def feasible(self, st, c):
        """cheap solver check used only to prune: 'unknown' counts as feasible."""
        s = z3.Solver()
        s.set('timeout', self.exe.prune_ms)
        s.add(*st.pc)
        s.add(c)
        return s.check() != z3.unsat

    # -- switch -------------------------------------------------------------------------
    def s_SwitchStmt(self, n, st):
        exe = self.exe
        cond_n, body = n['inner'][0], n['inner'][-1]
        v = exe.ev(cond_n, st)
        vt = exe.ctype(cond_n)
        items = []   # (labels:list[int|'default'], stmt)
        pend = []

        def flatten(s):
            nonlocal pend
            if s['kind'] == 'CaseStmt':
                cv = simp(exe.ev(s['inner'][0], st))
                val = cv.as_signed_long() if z3.is_bv_value(cv) else cv.as_long()
                pend.append(val)
                flatten(s['inner'][-1])
            elif s['kind'] == 'DefaultStmt':
                pend.append('default')
                flatten(s['inner'][-1])
            else:
                items.append((pend, s))
                pend = []
        if body['kind'] != 'CompoundStmt':
            raise FrontEndError('switch body shape')
        for s in body.get('inner', []):
            flatten(s)
        all_labels = [l for labs, _ in items for l in labs if l != 'default']
        outs = []
        entries = [(i, labs) for i, (labs, _) in enumerate(items) if labs]
        has_default = any('default' in labs for _, labs in entries)
        for i, labs in entries:
            conds = []
            for l in labs:
                if l == 'default':
                    conds.append(z3.And(*[v != exe.sem.const(x, vt) for x in all_labels]) if all_labels else z3.BoolVal(True))
                else:
                    conds.append(v == exe.sem.const(l, vt))
            c = simp(z3.Or(*conds))
            if z3.is_false(c):
                continue
            s = st.fork()
            s.assume(c)
            cur = [s]
            for _, stmt in items[i:]:
                nxt = []
                for s2 in cur:
                    for o in self.exec_stmt(stmt, s2):
                        if o.kind == 'next':
                            nxt.append(o.st)
                        elif o.kind == 'break':
                            outs.append(Outcome('next', o.st))
                        else:
                            outs.append(o)
                cur = nxt
                if not cur:
                    break
            outs += [Outcome('next', s2) for s2 in cur]
            if z3.is_true(c):
                break
        if not has_default:
            s = st.fork()
            s.assume(z3.And(*[v != exe.sem.const(x, vt) for x in all_labels]) if all_labels else z3.BoolVal(True))
            if not dead(s):
                outs.append(Outcome('next', s))
        return merge_outcomes(outs)

    # -- loops ----------------------------------------------------------------------------
    def _loop_contract(self, n):
        exe = self.exe
        fn = exe.fn_stack[-1]
        ordn = exe.loop_ord[fn].get(n['id'])
        con = exe.contracts.get(fn, {}).get('loops', {})
        lc = con.get(ordn)
        if lc is None and n['kind'] == 'ForStmt':
            # loops may also be keyed by the name of the variable their init statement declares ('ivar:b'), which survives
            # the insertion of other loops before them
            init = n['inner'][0]
            if init and init.get('kind') == 'DeclStmt':
                for d in init.get('inner', []):
                    if d['kind'] == 'VarDecl' and ('ivar:' + d.get('name', '')) in con:
                        lc = con['ivar:' + d['name']]
        if isinstance(lc, (list, tuple)):
            # alternative formulations of the same abstraction: the first one whose names bind to the current code
            from .cexpr import eval_clauses, SpecError
            st = self._cur_state_for_binding
            for cand in lc:
                try:
                    if st is not None and 'invariant' in cand:
                        self.discovery += 1
                        try:
                            eval_clauses(exe, cand['invariant'], st.fork(), fn, loop_entry=st)
                        finally:
                            self.discovery -= 1
                    return ordn, cand
                except SpecError:
                    continue
            raise FrontEndError('no loop invariant formulation binds to loop %d of %s' % (ordn, fn))
        return ordn, lc

    def s_ForStmt(self, n, st):
        init, _, cond, inc, body = n['inner']
        outs0 = []
        if init and init.get('kind'):
            r = self.exec_stmt(init, st)
            if len(r) != 1 or r[0].kind != 'next':
                raise FrontEndError('for-init shape')
            st = r[0].st
        return self._loop(n, st, cond if cond and cond.get('kind') else None, body, inc if inc and inc.get('kind') else None, False)

    def s_WhileStmt(self, n, st):
        cond, body = n['inner'][0], n['inner'][-1]
        return self._loop(n, st, cond, body, None, False)

    def s_DoStmt(self, n, st):
        body, cond = n['inner'][0], n['inner'][1]
        return self._loop(n, st, cond, body, None, True)

    _cur_state_for_binding = None

    def _loop(self, n, st, cond, body, inc, is_do):
        ordn, lc = self._loop_contract(n)
        entry_st = st.fork() if (lc is not None and not isinstance(lc, (list, tuple)) and lc.get('stop_after')) else None
        outs = self._loop_inner(n, st, cond, body, inc, is_do)
        if entry_st is not None and not self.discovery:
            # PREFIX contract: the clauses are proved on every state that leaves this loop normally and the path ends there; the rest
            # of the function is not part of the verified text (the unit is reported as a prefix)
            from .cexpr import eval_clauses
            exe = self.exe
            fn = exe.fn_stack[-1]
            kept = []
            for o in outs:
                if o.kind != 'next':
                    kept.append(o)
                    continue
                for cname, term in eval_clauses(exe, lc['stop_after'], o.st, fn, loop_entry=entry_st):
                    exe.emit('%s/after_loop%d/%s' % (fn, ordn, cname), term, o.st, kind='post')
            exe.__dict__.setdefault('prefix_units', set()).add((fn, ordn))
            return kept
        return outs

    def _loop_inner(self, n, st, cond, body, inc, is_do):
        exe = self.exe
        self._cur_state_for_binding = st
        ordn, lc = self._loop_contract(n)
        if lc is not None and lc.get('cut_unroll'):
            return self._unroll(n, st, cond, body, inc, is_do, lc.get('unroll', MAX_UNROLL), cut=lc, ordn=ordn)
        if lc is not None and lc.get('search'):
            return self._search(n, st, cond, body, inc, is_do, ordn, lc)
        if lc is None and exe.contracts.get(exe.fn_stack[-1], {}).get('auto_search'):
            return self._search(n, st, cond, body, inc, is_do, ordn, {})
        if lc is None or lc.get('unroll'):
            return self._unroll(n, st, cond, body, inc, is_do, (lc or {}).get('unroll', MAX_UNROLL))
        return self._cutpoint(n, st, cond, body, inc, is_do, ordn, lc)

    def _cut(self, st, cut, ordn, it, entry, written):
        """constant-trip-count loop with a cut point at the head of every unrolled iteration:
        assert I(it); forget everything the loop has written so far; assume I(it)."""
        from .cexpr import eval_clauses
        exe = self.exe
        fn = exe.fn_stack[-1]
        inv = cut['invariant_at'](it)
        if not self.discovery:
            for cname, term in eval_clauses(exe, inv, st, fn, loop_entry=entry):
                exe.emit('%s/loop%d/iter%d/%s' % (fn, ordn, it, cname), term, st, kind='inv')
        keep = set()
        for nm in cut.get('keep', ()):       # induction variables stay concrete
            from .cexpr import fn_resolver
            for d in exe.local_objs.values():
                if d.name == nm and d.kind == 'local':
                    keep.add(d.id)
        H = {(oid, path) for (oid, path) in written if path is not None and oid not in keep}
        self._havoc_set(st, H, 'cut%d_%d' % (ordn, it))
        if self.discovery:
            st.ghost['$w'] = st.ghost.get('$w', frozenset()) | frozenset(H)
        if cut.get('forget_pc'):
            # weaken the context to: function precondition + merge definitions + the invariant (dropping facts is sound)
            base = exe.pre_states.get(fn)
            keep_n = len(base.pc) if base is not None else 0
            def is_def(t):
                return z3.is_eq(t) and z3.is_const(t.arg(0)) and t.arg(0).decl().name().startswith(('phi#', 'sel#'))
            st.pc = list(st.pc[:keep_n]) + [t for t in st.pc[keep_n:] if is_def(t)]
        for cname, term in eval_clauses(exe, inv, st, fn, loop_entry=entry):
            st.assume(term)

    def _unroll(self, n, st, cond, body, inc, is_do, bound, cut=None, ordn=None):
        exe = self.exe
        exits = []
        cur = [st]
        it = 0
        first = is_do
        entry = st.fork() if cut else None
        prev_log = self.write_log
        if cut:
            self.write_log = set()
        try:
            return self._unroll_body(n, cur, cond, body, inc, is_do, bound, cut, ordn, entry, exits, first)
        finally:
            if cut:
                if prev_log is not None:
                    prev_log |= self.write_log
                self.write_log = prev_log

    def _unroll_body(self, n, cur, cond, body, inc, is_do, bound, cut, ordn, entry, exits, first):
        exe = self.exe
        it = 0
        while cur:
            if cut:
                if len(cur) != 1:
                    raise FrontEndError('cut_unroll needs a single state at each loop head')
                self._cut(cur[0], cut, ordn, it, entry, set(self.write_log))
            if it > bound:
                raise FrontEndError('loop %s in %s needs an invariant (not a constant trip count within %d)' % (exe._loc(n), exe.fn_stack[-1], bound))
            nxt = []
            for s in cur:
                if cond is not None and not first:
                    c = simp(exe.cond(cond, s))
                    if z3.is_false(c):
                        exits.append(Outcome('next', s))
                        continue
                    if not z3.is_true(c):
                        if cut and cut.get('symbolic_exit'):
                            # bounded number of iterations with a data-dependent exit (e.g. len = 32,64,...,2^30 while len < n):
                            # the exit branch leaves the loop, the loop continues under the condition
                            sf = s.fork()
                            sf.assume(z3.Not(c))
                            if not dead(sf):
                                exits.append(Outcome('next', sf))
                            if not self.feasible_qf(s, c):
                                continue
                            s.assume(c)
                            if dead(s):
                                continue
                        else:
                            raise FrontEndError('loop at %s in %s needs an invariant (condition not constant when unrolling: %s)' % (exe._loc(n), exe.fn_stack[-1], str(c)[:120]))
                for o in self.exec_stmt(body, s):
                    if o.kind in ('next', 'continue'):
                        s2 = o.st
                        if inc is not None:
                            try:
                                exe.ev(inc, s2)
                            except PathDead:
                                continue
                        nxt.append(s2)
                    elif o.kind == 'break':
                        exits.append(Outcome('next', o.st))
                    else:
                        exits.append(o)
            first = False
            if is_do:
                # do-while: condition after body
                nn = []
                for s in nxt:
                    c = simp(exe.cond(cond, s))
                    if z3.is_false(c):
                        exits.append(Outcome('next', s))
                    elif z3.is_true(c):
                        nn.append(s)
                    else:
                        raise FrontEndError('do-while at %s in %s needs an invariant' % (exe._loc(n), exe.fn_stack[-1]))
                nxt = nn
            if len(nxt) > 1:
                nxt = [o.st for o in merge_outcomes([Outcome('next', s) for s in nxt])]
            cur = nxt
            it += 1
        return merge_outcomes(exits)

    def _discover_writes(self, st, cond, body, inc, is_do):
        """fixpoint of the set of (object, path) stores one iteration can perform."""
        exe = self.exe
        H = set()
        self.discovery += 1
        saved_errors = list(exe.errors)
        try:
            for _ in range(8):
                s = st.fork()
                self._havoc_set(s, H, 'disc')
                s.ghost['$w'] = frozenset()
                prev_log, self.write_log = self.write_log, set()
                try:
                    if not is_do and cond is not None:
                        exe.cond(cond, s)
                    outs = self.exec_stmt(body, s)
                    W = set()
                    for o in outs:
                        if o.kind in ('next', 'continue'):
                            if inc is not None:
                                try:
                                    exe.ev(inc, o.st)
                                except PathDead:
                                    pass
                            if is_do and cond is not None:
                                try:
                                    exe.cond(cond, o.st)
                                except PathDead:
                                    pass
                            # only what is written on a path that comes back to the loop head needs forgetting there;
                            # stores made on the way out (return / break / error) are seen exactly by the exit states
                            W |= set(o.st.ghost.get('$w', ()))
                finally:
                    if prev_log is not None:
                        prev_log |= self.write_log
                    self.write_log = prev_log
                if W <= H:
                    return H
                last_new = W - H
                H |= W
            raise FrontEndError('loop frame discovery did not converge: still growing by %s' % sorted((exe.obj_by_id[o].name, k) for (o, k) in last_new)[:6])
        finally:
            self.discovery -= 1
            exe.errors = saved_errors

    def _havoc_set(self, st, H, tag):
        exe = self.exe
        for (oid, path) in sorted(H, key=lambda x: (x[0], x[1] or ())):
            obj = exe.obj_by_id[oid]
            if path is None:
                continue
            self._havoc_one(st, obj, path, tag)

    def _havoc_one(self, st, obj, path, tag):
        exe = self.exe
        if obj is RAW:
            s0 = exe._rawarr(st).copy()
            exe.nsym += 1
            s0.arr = z3.Array('RAWMEM@%s#%d' % (tag, exe.nsym), *exe._rawsort())
            st.heap[(RAW.id, ())] = s0
            return
        lt = exe.leaf_type(obj, path)
        s0 = st._store(obj, path)
        if s0.zmode and not isinstance(lt, TPtr):
            st.set_array(obj, path, exe.fresh_array(obj, path, tag))
            return
        s1 = st._store(obj, path, True)
        exe.nsym += 1
        old = s1.conc
        s1.conc = {}
        s1.gen = '%s#%d' % (tag, exe.nsym)
        for k, v in old.items():
            if isinstance(v, Ptr):
                if v.obj is None:
                    s1.conc[k] = v
                elif v.obj is RAW:
                    s1.conc[k] = Ptr(RAW, (z3.Const('%s@%s' % (obj.name, s1.gen), exe._rawsort()[0]),), (), v.ct)
                else:
                    nidx = z3.Const('%s.idx@%s' % (obj.name, s1.gen), exe.sem.idx_sort())
                    sn = simp(v.isnull)
                    if obj.kind == 'local' and (z3.is_false(sn) or z3.is_true(sn)):
                        isn = v.isnull      # pointer arithmetic on a local never produces NULL
                    else:
                        isn = z3.Bool('%s%s.isnull@%s' % (obj.name, ''.join('.' + x for x in path), s1.gen))
                    s1.conc[k] = v.with_(idx=v.idx[:-1] + (nidx,), isnull=isn)

    def _iterate(self, s, cond, body, inc, is_do):
        """one arbitrary iteration from the (havocked, invariant-assuming) head state: (exit outcomes, continuing states)."""
        exe = self.exe
        exits = []
        conts = []
        if not is_do and cond is not None:
            c = simp(exe.cond(cond, s))
            if not z3.is_true(c):
                sf = s.fork()
                sf.assume(z3.Not(c))
                if not dead(sf):
                    exits.append(Outcome('next', sf))
            s.assume(c)
        if not dead(s):
            for o in self.exec_stmt(body, s):
                if o.kind in ('next', 'continue'):
                    s2 = o.st
                    if inc is not None:
                        try:
                            exe.ev(inc, s2)
                        except PathDead:
                            continue
                    if is_do and cond is not None:
                        c = simp(exe.cond(cond, s2))
                        if not z3.is_true(c):
                            sf = s2.fork()
                            sf.assume(z3.Not(c))
                            if not dead(sf):
                                exits.append(Outcome('next', sf))
                        s2.assume(c)
                    if not dead(s2):
                        conts.append(s2)
                elif o.kind == 'break':
                    exits.append(Outcome('next', o.st))
                else:
                    exits.append(o)
        return exits, conts

    # -- search-loop template ---------------------------------------------------------------
    def _search(self, n, st, cond, body, inc, is_do, ordn, lc):
        """Loops of the shape `for (i = lo; cond(i); i++) { reads; locals; return/break on a condition }`.
        The inductive invariant is generated, not written:  lo <= i  and  forall k in [lo, i): C(k), where C(k) is the
        condition, obtained by executing the body once at a symbolic index k, under which iteration k reaches the loop
        head again.  It holds on entry (empty range) and is preserved by construction (an iteration that continues has
        satisfied C(i)); the shape conditions that make this sound are checked mechanically here: the increment is
        `i++`, the body does not write i, and everything an iteration writes is a local declared inside the body.
        Values that are fresh per iteration (merge nodes, callee results) become Skolem functions of k."""
        exe = self.exe
        fn = exe.fn_stack[-1]
        if exe.sem.int_mode != 'math' or is_do or cond is None or inc is None:
            raise FrontEndError('search-loop template needs a for/while loop with condition and increment in math mode (loop %d of %s)' % (ordn, fn))
        e = inc
        while e['kind'] in ('ParenExpr', 'ImplicitCastExpr'):
            e = e['inner'][0]
        if not (e['kind'] == 'UnaryOperator' and e.get('opcode') == '++' and e['inner'][0]['kind'] == 'DeclRefExpr'):
            raise FrontEndError('search-loop template: increment of loop %d in %s is not i++' % (ordn, fn))
        ivd = e['inner'][0]['referencedDecl']['id']
        iobj = exe.local_objs.get(ivd)
        if iobj is None:
            raise FrontEndError('search-loop template: induction variable of loop %d in %s is not a local' % (ordn, fn))
        iptr = Ptr(iobj, (0,), (), iobj.ct)
        body_decls = {c['id'] for c in walk(body) if c['kind'] == 'VarDecl'}
        H = self._discover_writes(st, cond, body, inc, False)
        Hb = self._discover_writes(st, cond, body, None, False)
        for (oid, path) in H:
            o = exe.obj_by_id[oid]
            if o is iobj:
                continue
            if path is not None and not (o.kind == 'local' and o.meta.get('decl', {}).get('id') in body_decls):
                raise FrontEndError('loop %d of %s is not a pure search loop (an iteration writes %s%s): it needs a written invariant'
                                    % (ordn, fn, o.name, ''.join('.' + x for x in path)))
        if any(oid == iobj.id and path is not None for (oid, path) in Hb):
            raise FrontEndError('search-loop template: body of loop %d in %s writes its induction variable' % (ordn, fn))
        lo = st.load(iptr)
        head = st.fork()
        self._havoc_set(head, H, 'L%d' % ordn)
        if self.discovery:
            head.ghost['$w'] = head.ghost.get('$w', frozenset()) | frozenset(h for h in H if h[1] is not None)
        # pass 1: C(k)
        exe.nsym += 1
        k = z3.Int('k!L%d#%d' % (ordn, exe.nsym))
        s1 = head.fork()
        s1.store(iptr, k)
        n0 = len(s1.pc)
        s1.assume(lo <= k)
        self.discovery += 1
        saved_errors = list(exe.errors)
        prev_log, self.write_log = self.write_log, set()
        try:
            c = simp(exe.cond(cond, s1))
            s1.assume(c)
            conts = [o.st for o in self.exec_stmt(body, s1) if o.kind in ('next', 'continue')] if not dead(s1) else []
        finally:
            self.discovery -= 1
            exe.errors = saved_errors
            self.write_log = prev_log
        Ck = simp(z3.Or(*[z3.And(*s.pc[n0:]) for s in conts])) if conts else z3.BoolVal(False)
        known = _consts_of(head.pc)
        fresh, fresh_fns = _fresh_symbols(Ck, known, k)
        if fresh_fns:
            # Skolem functions of a generated invariant nested in this body depend on this loop's index as well:
            # F(j) becomes F'(j, k)
            subs = []
            for d in fresh_fns.values():
                dom = [d.domain(i) for i in range(d.arity())]
                g = z3.Function('%s~L%d' % (d.name(), ordn), *(dom + [z3.IntSort(), d.range()]))
                subs.append((d, g(*([z3.Var(i, dom[i]) for i in range(d.arity())] + [k]))))
            Ck = z3.substitute_funs(Ck, *subs)
        if fresh:
            Ck = z3.substitute(Ck, *[(f, z3.Function('sk(%s)' % f.decl().name(), z3.IntSort(), f.sort())(k)) for f in fresh])
        kb = z3.Int('kq!L%d' % ordn)
        i_val = head.load(iptr)
        head.assume(lo <= i_val)
        if not z3.is_false(Ck):
            head.assume(z3.ForAll([kb], z3.Implies(z3.And(lo <= kb, kb < i_val), z3.substitute(Ck, (k, kb)))))
        else:
            head.assume(i_val == lo)
        # pass 2: one arbitrary iteration under the generated invariant (obligations inside the body are emitted here)
        exits, conts2 = self._iterate(head, cond, body, inc, False)
        return merge_outcomes(exits)

    def _cutpoint(self, n, st, cond, body, inc, is_do, ordn, lc):
        from .cexpr import eval_clauses
        exe = self.exe
        fn = exe.fn_stack[-1]
        tag = 'L%d' % ordn
        base = '%s/loop%d' % (fn, ordn)
        inv = lc.get('invariant', {})
        # 1. invariant on entry
        if not self.discovery:
            for cname, term in eval_clauses(exe, inv, st, fn, loop_entry=st):
                exe.emit('%s/entry/%s' % (base, cname), term, st, kind='inv')
        # 2. frame + havoc
        H = self._discover_writes(st, cond, body, inc, is_do)
        entry = st
        head = st.fork()
        self._havoc_set(head, H, tag)
        if self.discovery:
            # an enclosing loop's frame discovery must see what this loop may write (its iterations end at the cut point)
            head.ghost['$w'] = head.ghost.get('$w', frozenset()) | frozenset(h for h in H if h[1] is not None)
        for cname, term in eval_clauses(exe, inv, head, fn, loop_entry=entry):
            head.assume(term)
        var0 = None
        if lc.get('variant') is not None:
            var0 = eval_clauses(exe, {'v': lc['variant']}, head, fn, loop_entry=entry, raw=True)[0][1]
        # 3. one arbitrary iteration
        exits, conts = self._iterate(head, cond, body, inc, is_do)
        if not self.discovery:
            for i, s2 in enumerate(conts):
                for cname, term in eval_clauses(exe, inv, s2, fn, loop_entry=entry):
                    exe.emit('%s/preserved/%s%s' % (base, cname, '' if len(conts) == 1 else '#%d' % i), term, s2, kind='inv')
                if var0 is not None:
                    v1 = eval_clauses(exe, {'v': lc['variant']}, s2, fn, loop_entry=entry, raw=True)[0][1]
                    exe.emit('%s/variant_decreases%s' % (base, '' if len(conts) == 1 else '#%d' % i),
                             z3.And(v1 < var0, var0 >= 0) if not z3.is_bv(var0) else z3.ULT(v1, var0), s2, kind='inv')
        return merge_outcomes(exits)
