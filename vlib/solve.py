"""Discharging obligations: z3 (python API, in worker processes) first, cvc5 CLI on what z3 leaves open."""
import multiprocessing as mp
import os
import re
import subprocess
import tempfile
import time
import z3

NPROC = int(os.environ.get('VERIF_NPROC', '12'))


def to_smt2(ob):
    s = z3.Solver()
    for a in ob.assumptions:
        s.add(a)
    s.add(z3.Not(ob.goal))
    return s.to_smt2()


def _symbols(t, cache):
    """(uninterpreted constants and functions) occurring in t, as a frozenset of (name, is_array_or_function)."""
    i = t.get_id()
    if i in cache:
        return cache[i]
    out = set()
    seen = set()
    stack = [t]
    while stack:
        x = stack.pop()
        j = x.get_id()
        if j in seen:
            continue
        seen.add(j)
        if z3.is_quantifier(x):
            stack.append(x.body())
            continue
        if z3.is_app(x):
            d = x.decl()
            if d.kind() == z3.Z3_OP_SELECT:
                a, ix = x.arg(0), x.arg(1)
                if z3.is_const(a) and a.decl().kind() == z3.Z3_OP_UNINTERPRETED and z3.is_int_value(ix):
                    out.add(('%s[%s]' % (a.decl().name(), ix.as_long()), False))     # one cell of a small array: its own symbol
                    continue
            if d.kind() == z3.Z3_OP_UNINTERPRETED:
                out.add((d.name(), d.arity() > 0 or z3.is_array(x)))
            stack.extend(x.children())
    cache[i] = frozenset(out)
    return cache[i]


_SYMCACHE = {}
_QCACHE = {}


def _is_q(t):
    i = t.get_id()
    if i not in _QCACHE:
        _QCACHE[i] = ('forall' in t.sexpr()[:12] or 'exists' in t.sexpr()[:12]) if z3.is_quantifier(t) else _has_q(t)
    return _QCACHE[i]


def _has_q(t):
    seen = set()
    stack = [t]
    while stack:
        x = stack.pop()
        j = x.get_id()
        if j in seen:
            continue
        seen.add(j)
        if z3.is_quantifier(x):
            return True
        stack.extend(x.children())
    return False


_INDEX = {}        # symbol -> set of assumption term ids mentioning it (grows as assumptions are seen)
_TERMS = {}        # term id -> (term, symbols)


def _register(a):
    i = a.get_id()
    if i not in _TERMS:
        sy = _symbols(a, _SYMCACHE)
        _TERMS[i] = (a, sy)
        for sym in sy:
            _INDEX.setdefault(sym, set()).add(i)
    return i


def relevant_assumptions(ob, depth, min_size=40, strict=False):
    """A sound weakening used as an EARLY attempt only (unsat of a query with fewer assumptions implies unsat of the
    full one; any other answer falls through to a larger subset and finally to the full query).
    Assumptions are selected by `depth` rounds of symbol sharing starting from the goal; symbols that occur in very many
    assumptions (sizes, the buffer length) do not propagate relevance, but a small assumption all of whose symbols are
    already relevant is always taken (range facts, preconditions)."""
    asm = ob.assumptions
    if len(asm) < min_size:
        return None
    ids = [_register(a) for a in asm]
    aset = set(ids)
    lim = max(12, len(asm) // 50)
    rel = set(_symbols(ob.goal, _SYMCACHE))
    used = set()
    if not rel:
        # unreachability obligations (goal False): the refuting facts are about the branch just taken
        npc = ob.meta.get('n_pc', len(asm))
        for a in asm[max(0, npc - 3):npc]:
            rel |= _symbols(a, _SYMCACHE)
            used.add(a.get_id())
    frontier = set(rel)
    for rnd in range(depth):
        new = set()
        for sym in frontier:
            lst = _INDEX.get(sym, ())
            if (rnd > 0 or strict) and len(lst) > lim and len(lst & aset) > lim:
                continue        # ubiquitous symbol: does not propagate (the goal's own symbols always do)
            for tid in lst:
                if tid in aset and tid not in used:
                    used.add(tid)
                    new |= _TERMS[tid][1]
        frontier = new - rel
        rel |= new
        if not frontier:
            break
    for sym in rel:        # closed small facts about relevant symbols
        for tid in _INDEX.get(sym, ()):
            if tid in aset and tid not in used:
                sy = _TERMS[tid][1]
                if len(sy) <= 3 and sy <= rel:
                    used.add(tid)
    if len(used) * 10 > len(asm) * 9:
        return None
    return [_TERMS[tid][0] for tid in ids if tid in used]


def to_smt2_pruned(ob, depth=2):
    asm = relevant_assumptions(ob, depth)
    if asm is None:
        return None
    s = z3.Solver()
    for a in asm:
        s.add(a)
    s.add(z3.Not(ob.goal))
    return s.to_smt2()


_SHARED_OBS = None      # obligations visible to forked workers (set by discharge before the pool is created)


def _direct_worker(job):
    """solve one obligation on a relevant subset of its assumptions, directly on the inherited z3 terms (forked child:
    no SMT-LIB round trip).  Only 'unsat' is used by the caller."""
    i, depth, timeout_ms = job
    ob = _SHARED_OBS[i]
    t0 = time.time()
    try:
        asm = relevant_assumptions(ob, abs(depth), strict=depth < 0)
        if asm is None:
            return i, 'skip', 0.0
        s = z3.Solver()
        s.set('timeout', int(timeout_ms))
        for a in asm:
            s.add(a)
        s.add(z3.Not(ob.goal))
        r = str(s.check())
    except Exception as e:   # noqa
        r = 'unknown'
    return i, r, time.time() - t0


def _pruned_worker(job):
    name, smt2, timeout_ms = job
    r, t, model, reason = _z3_try(smt2, timeout_ms, False)
    return name, r, t


def _model_dict(m):
    out = {}
    for d in m.decls():
        try:
            v = m[d]
            if d.arity() == 0 and (z3.is_bv_value(v) or z3.is_int_value(v)):
                out[d.name()] = v.as_long()
            elif d.arity() == 0 and z3.is_true(v):
                out[d.name()] = True
            elif d.arity() == 0 and z3.is_false(v):
                out[d.name()] = False
            elif d.arity() == 0 and z3.is_fp_value(v):
                out[d.name()] = str(v)
            elif d.arity() == 0 and z3.is_rational_value(v):
                out[d.name()] = str(v)
            elif d.arity() == 0 and z3.is_algebraic_value(v):
                out[d.name()] = str(v.approx(12))
            else:
                out[d.name()] = str(v)[:2000]
        except Exception as e:      # noqa
            out[d.name()] = '?'
    return out


def _z3_try(smt2, timeout_ms, want_model, tactic=None):
    t0 = time.time()
    try:
        ctx = z3.Context()
        fs = z3.parse_smt2_string(smt2, ctx=ctx)
        s = z3.Tactic(tactic, ctx=ctx).solver() if tactic else z3.Solver(ctx=ctx)
        s.set('timeout', int(timeout_ms))
        s.add(fs)
        r = s.check()
        model, reason = None, ''
        if r == z3.sat and want_model:
            model = _model_dict(s.model())
        if r == z3.unknown:
            reason = s.reason_unknown()
        return str(r), time.time() - t0, model, reason
    except Exception as e:    # noqa
        return 'unknown', time.time() - t0, None, 'z3 error ' + repr(e)[:300]


_CVC5_MODEL_RE = re.compile(r'\(define-fun\s+(\|[^|]*\||\S+)\s+\(\)\s+(\([^)]*\)|\S+)\s+(.*?)\)\s*$')


def _parse_cvc5_model(txt):
    out = {}
    for line in txt.split('\n'):
        m = _CVC5_MODEL_RE.match(line.strip())
        if not m:
            continue
        name, sort, val = m.group(1).strip('|'), m.group(2), m.group(3).strip()
        if val.startswith('#x'):
            out[name] = int(val[2:], 16)
        elif val.startswith('#b'):
            out[name] = int(val[2:], 2)
        elif val in ('true', 'false'):
            out[name] = val == 'true'
        elif re.match(r'^\(- (\d+)\)$', val):
            out[name] = -int(val[3:-1])
        elif val.isdigit():
            out[name] = int(val)
        else:
            out[name] = val[:500]
    return out


def run_cvc5(smt2, timeout_s, want_model=False, extra=()):
    t0 = time.time()
    with tempfile.NamedTemporaryFile('w', suffix='.smt2', delete=False, dir='/dev/shm') as f:
        txt = smt2
        if '(set-logic' not in txt:
            txt = '(set-logic ALL)\n' + txt
        if want_model:
            txt = '(set-option :produce-models true)\n' + txt
        f.write(txt)
        if '(check-sat)' not in txt:
            f.write('\n(check-sat)\n')
        if want_model:
            f.write('(get-model)\n')
        path = f.name
    try:
        p = subprocess.run(['/usr/bin/cvc5', '--tlimit=%d' % int(timeout_s * 1000)] + list(extra) + [path],
                           capture_output=True, text=True, timeout=timeout_s + 10)
        out = p.stdout.strip().split('\n')
        res = out[0].strip() if out else 'unknown'
        if res not in ('sat', 'unsat', 'unknown'):
            res = 'unknown'
        model = _parse_cvc5_model('\n'.join(out[1:])) if (want_model and res == 'sat') else None
        return res, time.time() - t0, model
    except subprocess.TimeoutExpired:
        return 'unknown', time.time() - t0, None
    finally:
        os.unlink(path)


def _portfolio_worker(job):
    """z3 (short) -> cvc5 int-blasting (bit-vector queries) -> cvc5 -> z3 (long). First definite answer wins."""
    name, smt2, timeout_s, use_cvc5 = job[:4]
    pruned = job[4] if len(job) > 4 else None
    t0 = time.time()
    if pruned:
        r, t, model, reason = _z3_try(pruned, max(2000, timeout_s * 250), False)
        if r == 'unsat':
            return name, r, time.time() - t0, None, 'z3(relevant assumptions)', ['z3-pruned:unsat:%.1fs' % t]
    has_bv = '_ BitVec' in smt2
    has_q = '(forall' in smt2 or '(exists' in smt2
    tried = []
    r, t, model, reason = _z3_try(smt2, max(2000, timeout_s * 250), True)
    tried.append('z3:%s:%.1fs' % (r, t))
    if r in ('sat', 'unsat'):
        return name, r, time.time() - t0, model, 'z3', tried
    if use_cvc5:
        if has_bv and not has_q:
            r, t, model = run_cvc5(smt2, max(2, timeout_s / 2), True, ['--solve-bv-as-int=iand'])
            tried.append('cvc5-intblast:%s:%.1fs' % (r, t))
            if r in ('sat', 'unsat'):
                return name, r, time.time() - t0, model, 'cvc5(int-blast)', tried
        r, t, model = run_cvc5(smt2, max(2, timeout_s / 2), True, ['--strings-exp'] if 'String' in smt2 else [])
        tried.append('cvc5:%s:%.1fs' % (r, t))
        if r in ('sat', 'unsat'):
            return name, r, time.time() - t0, model, 'cvc5', tried
    r, t, model, reason = _z3_try(smt2, timeout_s * 1000, True)
    tried.append('z3-long:%s:%.1fs' % (r, t))
    if r in ('sat', 'unsat'):
        return name, r, time.time() - t0, model, 'z3', tried
    return name, 'unknown', time.time() - t0, None, reason or 'timeout', tried


class Verdict:
    def __init__(self, ob):
        self.ob = ob
        self.name = ob.name
        self.status = 'unknown'      # unsat | sat | unknown
        self.backend = ''
        self.time_s = 0.0
        self.model = None
        self.reason = ''
        self.tried = []


def discharge(obs, timeout_s=10, use_cvc5=True, tactic=None, nproc=None):
    """returns list of Verdicts (same order). kind=='cover' obligations are expected sat."""
    verdicts = [Verdict(o) for o in obs]
    jobs = []
    for i, o in enumerate(obs):
        g = o.goal
        if z3.is_true(g) and o.kind != 'cover':
            verdicts[i].status, verdicts[i].backend = 'unsat', 'simplifier'
            continue
        f = z3.simplify(o.formula()) if len(o.assumptions) < 300 else None
        if f is not None and z3.is_false(f):
            verdicts[i].status, verdicts[i].backend = 'unsat', 'simplifier'
            continue
        jobs.append(i)
    n_workers = nproc or NPROC
    timing = os.environ.get('VERIF_TIMING')
    t_start = time.time()
    # obligations with literally the same assumptions (straight-line arithmetic under one path condition) are first tried
    # as one query  assumptions => goal_1 and ... and goal_n ; unsat discharges all of them, anything else falls
    # through to the per-obligation route, so a failure is still reported by name
    groups = {}
    for i in jobs:
        o = obs[i]
        if o.kind == 'cover':
            continue
        key = (len(o.assumptions), hash(tuple(a.get_id() for a in o.assumptions)))
        groups.setdefault(key, []).append(i)
    batch = []
    for key, members in groups.items():
        if len(members) >= 40 and len(obs[members[0]].assumptions) <= 400:
            for c in range(0, len(members), 400):
                chunk = members[c:c + 400]
                sol = z3.Solver()
                for a in obs[chunk[0]].assumptions:
                    sol.add(a)
                sol.add(z3.Not(z3.And(*[obs[i].goal for i in chunk])))
                batch.append((','.join(map(str, chunk)), sol.to_smt2(), max(5000, timeout_s * 1000)))
    if batch:
        if len(batch) > 1 and n_workers > 1:
            with mp.get_context('fork').Pool(min(n_workers, len(batch))) as pool:
                br = pool.map(_pruned_worker, batch, chunksize=1)
        else:
            br = [_pruned_worker(w) for w in batch]
        done = set()
        for nm, r, t in br:
            ids = [int(x) for x in nm.split(',')]
            if r == 'unsat':
                for i in ids:
                    v = verdicts[i]
                    v.status, v.backend, v.time_s = 'unsat', 'z3(batch of %d with identical assumptions)' % len(ids), t / len(ids)
                    done.add(i)
        jobs = [i for i in jobs if i not in done]
        if timing:
            print('[discharge] batches: %d, discharged %d, left %d, %.1fs' % (len(batch), len(done), len(jobs), time.time() - t_start), flush=True)
    # early attempts on small, relevant subsets of the assumptions (cheap to serialise and to solve)
    global _SHARED_OBS
    _SHARED_OBS = obs
    for depth in (1, 3):         # (a negative depth selects the strict variant: ubiquitous symbols never propagate, not even from the goal)
        todo = [(i, depth, max(1500, timeout_s * (60 if depth < 0 else 150))) for i in jobs if obs[i].kind != 'cover' and len(obs[i].assumptions) >= 40]
        if not todo:
            continue
        if len(todo) > 1 and n_workers > 1:
            with mp.get_context('fork').Pool(min(n_workers, len(todo))) as pool:
                early = pool.map(_direct_worker, todo, chunksize=max(1, len(todo) // (8 * n_workers)))
        else:
            early = [_direct_worker(w) for w in todo]
        early = [(str(i), r, t) for (i, r, t) in early]
        done = set()
        for nm, r, t in early:
            v = verdicts[int(nm)]
            v.time_s += t
            if r == 'unsat':
                v.status, v.backend = 'unsat', 'z3(relevant assumptions, depth %d)' % depth
                v.tried = ['z3-pruned%d:unsat:%.1fs' % (depth, t)]
                done.add(int(nm))
        jobs = [i for i in jobs if i not in done]
        if timing:
            print('[discharge] depth %d: %d queries, %d discharged, %d left, %.1fs' % (depth, len(todo), len(done), len(jobs), time.time() - t_start), flush=True)
    jobs = [(i, to_smt2(obs[i]), None) for i in jobs]
    if jobs:
        work = [(str(i), smt, timeout_s, use_cvc5, pr) for i, smt, pr in jobs]
        n = min(nproc or NPROC, len(work))
        if n > 1:
            with mp.get_context('fork').Pool(n) as pool:
                results = pool.map(_portfolio_worker, work, chunksize=1)
        else:
            results = [_portfolio_worker(w) for w in work]
        for (nm, res, t, model, backend, tried) in results:
            v = verdicts[int(nm)]
            v.time_s, v.tried = v.time_s + t, tried
            if res in ('sat', 'unsat'):
                v.status, v.model, v.backend = res, model, backend
            else:
                v.status, v.reason, v.backend = 'unknown', '%s (%s)' % (backend, ' '.join(tried)), 'none'
    return verdicts
