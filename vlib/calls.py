"""Call handling: builtins, inline callees (body executed in place), contract callees
(assert requires / havoc assigns / assume ensures), effect-free and no-return functions."""
import z3
from .cast import FrontEndError, TInt, TFloat, TPtr, TArr, TStruct, TVoid, fn_params
from .sem import simp
from .state import Ptr, NULLP, RAW, merge_states, CannotMerge
from .symex import NORETURN, EFFECT_FREE, PathDead, Outcome


def do_call(exe, n, st):
    from .flow import ErrorExit, merge_outcomes, common_prefix
    name = exe._callee_name(n)
    argn = n['inner'][1:]
    via_global = name is not None and name in exe.tu.globals and name not in exe.tu.fn_decls
    if name is None or via_global:
        # call through a function pointer stored in a struct member (plugin callbacks) or in a global variable (user
        # callbacks mjcb_*): only when the contract file declares it as an effect-free callback; the result is an arbitrary
        # value of the call's type
        f = n['inner'][0]
        while f['kind'] in ('ImplicitCastExpr', 'ParenExpr'):
            f = f['inner'][0]
        member = name if via_global else (f.get('name') if f['kind'] == 'MemberExpr' else None)
        if member is None or member not in exe.contracts.get('__callbacks__', ()):
            raise FrontEndError('indirect call in %s' % exe.fn_stack[-1])
        p = exe._ev(f, st)
        if isinstance(p, Ptr):
            exe._check_deref(p, st, n)
        for a in argn:
            exe._ev(a, st)
        exe.assumed.add('callback %s (function pointer) has no effect on verified state and returns an arbitrary value' % member)
        rt = exe.ctype(n)
        if isinstance(rt, TVoid):
            return None
        if not isinstance(rt, (TInt, TFloat)):
            raise FrontEndError('callback %s returns %r' % (member, rt))
        exe.nsym += 1
        v = exe.sem.fresh('%s()#%d' % (member, exe.nsym), rt)
        rf = exe.sem.range_fact(v, rt)
        if rf is not None:
            st.assume(rf)
        return v
    if name == '__builtin_expect':
        return exe._ev(argn[0], st)
    if name in exe.hooks:
        args = [exe._ev(a, st) for a in argn]
        return exe.hooks[name](exe, st, n, args)
    con = exe.contracts.get(name)
    if name in NORETURN and not (con and con.get('returns')):
        for a in argn:
            try:
                exe._ev(a, st)
            except (FrontEndError, PathDead):
                pass
        raise ErrorExit(name, n)
    if name == 'mju_message':
        # mjERROR(...) expands to a local mjLogMessage with .level = mjLOG_ERROR passed here
        a = exe._ev(argn[0], st)
        lv = simp(st.load(exe._normalize(a.with_(path=a.path + ('level',), ct=a.ct.field('level')))))
        err = exe.tu.enum_consts.get('mjLOG_ERROR')
        val = lv.as_long() if (z3.is_bv_value(lv) or z3.is_int_value(lv)) else None
        if val is None:
            raise FrontEndError('mju_message with symbolic level')
        if val == err:
            raise ErrorExit('mjERROR', n)
        return None
    if con is not None and con.get('inline') and name in exe.tu.functions:
        r = inline_call(exe, name, n, argn, st)
        caller = exe.fn_stack[-1]
        cut = exe.contracts.get(caller, {}).get('cut_after_call', {}).get(name)
        if cut is not None:
            sequence_cut(exe, st, caller, name, cut, n)
        return r
    if con is not None and not con.get('inline'):
        return contract_call(exe, name, con, n, argn, st)
    if name in EFFECT_FREE or name in exe.contracts.get('__effect_free__', ()):
        for a in argn:
            try:
                exe._ev(a, st)
            except FrontEndError:
                pass
        exe.assumed.add('call to %s has no effect on verified state' % name)
        rt = exe.ctype(n)
        if isinstance(rt, TVoid):
            return None
        exe.nsym += 1
        if isinstance(rt, TPtr):
            raise FrontEndError('effect-free callee %s returns a pointer' % name)
        return exe.sem.fresh('%s()#%d' % (name, exe.nsym), rt)
    if name in exe.tu.functions and exe.contracts.get('__auto_inline__'):
        return inline_call(exe, name, n, argn, st)
    raise FrontEndError('call to %s from %s: no contract, not inline (callee must be under contract or listed as assumed)' % (name, exe.fn_stack[-1]))


def inline_call(exe, name, n, argn, st):
    from .flow import merge_outcomes
    fn = exe.tu.functions[name]
    args = [exe._ev(a, st) for a in argn]
    site = exe.site
    s0 = st.fork()
    outs = exe.flow.run_function(fn, args, s0)
    exe.site = site
    rets = []
    for o in outs:
        if o.kind == 'error':
            exe.errors.append(o.st)
        else:
            rets.append(o)
    if not rets:
        raise PathDead()
    rets = merge_outcomes(rets, force=True)
    if len(rets) != 1:
        raise FrontEndError('inline call to %s returns unmergeable states' % name)
    r = rets[0].st
    st.pc, st.heap, st.ghost = r.pc, r.heap, r.ghost
    return st.ghost.pop('$ret', None)


def contract_call(exe, name, con, n, argn, st):
    """modular call: only the callee's contract is visible."""
    from .cexpr import eval_call_contract
    args = [exe._ev(a, st) for a in argn]
    return eval_call_contract(exe, name, con, n, args, st)


def sequence_cut(exe, st, caller, callee, cut, node):
    """cut point in straight-line code after the k-th inlined call to `callee` (the macro-expanded save / load / size
    sequences): assert I(k); forget the listed locals; assume I(k).  The same soundness argument as a loop cut point:
    what follows is verified for every state satisfying I(k), and the state reached here has been shown to satisfy it."""
    from .cexpr import eval_clauses
    from .state import Ptr
    key = '$cut:%s:%s' % (caller, callee)
    k = st.ghost.get(key, 0)
    st.ghost[key] = k + 1
    if cut.get('sequential'):
        # gap-free layout: the position after the call is the position of the last recorded copy plus its length
        ev = (st.ghost.get('$blob') or (None,))[-1]
        pos = eval_clauses(exe, {'p': cut['sequential']}, st, caller, raw=True)[0][1]
        if ev is None:
            raise FrontEndError('sequence cut in %s: no copy recorded before the cut' % caller)
        exe.emit('%s/cut(%s)#%d/advances_by_bytes_copied' % (caller, callee, k), pos == ev['buf_off'] + ev['nbytes'], st, kind='inv')
    inv = cut['invariant_at'](k) if 'invariant_at' in cut else cut.get('invariant', {})
    if inv is None:
        return
    for cname, term in eval_clauses(exe, inv, st, caller):
        exe.emit('%s/cut(%s)#%d/%s' % (caller, callee, k, cname), term, st, kind='inv')
    fn = exe.tu.functions[caller]
    from .cast import walk, fn_body
    for nm in cut.get('havoc', ()):
        did = st.ghost.get('$decl:' + nm)
        obj = exe.local_objs.get(did)
        if obj is None:
            raise FrontEndError('sequence cut in %s: no local %s in scope' % (caller, nm))
        exe.flow._havoc_one(st, obj, (), 'cut_%s%d' % (callee, k))
        if exe.flow.write_log is not None:
            exe.flow.write_log.add((obj.id, ()))
    for cname, term in eval_clauses(exe, inv, st, caller):
        st.assume(term)
