"""Call handling: builtins, inline callees (body executed in place), contract callees
(assert requires / havoc assigns / assume ensures), effect-free and no-return functions."""
import z3
from .cast import FrontEndError, TInt, TFloat, TPtr, TArr, TStruct, TVoid, fn_params
from .sem import simp
from .state import Ptr, NULLP, RAW, merge_states, CannotMerge
from .symex import NORETURN, EFFECT_FREE, PathDead, Outcome


def do_call(exe, n, st):
    from .flow import ErrorExit, merge_outcomes, common_prefix
    name = exe._callee_name(n)
    argn = n['inner'][1:]
    if name is None:
        raise FrontEndError('indirect call in %s' % exe.fn_stack[-1])
    if name == '__builtin_expect':
        return exe._ev(argn[0], st)
    if name in exe.hooks:
        args = [exe._ev(a, st) for a in argn]
        return exe.hooks[name](exe, st, n, args)
    con = exe.contracts.get(name)
    if name in NORETURN and not (con and con.get('returns')):
        for a in argn:
            try:
                exe._ev(a, st)
            except (FrontEndError, PathDead):
                pass
        raise ErrorExit(name, n)
    if name == 'mju_message':
        # mjERROR(...) expands to a local mjLogMessage with .level = mjLOG_ERROR passed here
        a = exe._ev(argn[0], st)
        lv = simp(st.load(exe._normalize(a.with_(path=a.path + ('level',), ct=a.ct.field('level')))))
        err = exe.tu.enum_consts.get('mjLOG_ERROR')
        val = lv.as_long() if (z3.is_bv_value(lv) or z3.is_int_value(lv)) else None
        if val is None:
            raise FrontEndError('mju_message with symbolic level')
        if val == err:
            raise ErrorExit('mjERROR', n)
        return None
    if con is not None and con.get('inline') and name in exe.tu.functions:
        return inline_call(exe, name, n, argn, st)
    if con is not None and not con.get('inline'):
        return contract_call(exe, name, con, n, argn, st)
    if name in EFFECT_FREE or name in exe.contracts.get('__effect_free__', ()):
        for a in argn:
            try:
                exe._ev(a, st)
            except FrontEndError:
                pass
        exe.assumed.add('call to %s has no effect on verified state' % name)
        rt = exe.ctype(n)
        if isinstance(rt, TVoid):
            return None
        exe.nsym += 1
        if isinstance(rt, TPtr):
            raise FrontEndError('effect-free callee %s returns a pointer' % name)
        return exe.sem.fresh('%s()#%d' % (name, exe.nsym), rt)
    if name in exe.tu.functions and exe.contracts.get('__auto_inline__'):
        return inline_call(exe, name, n, argn, st)
    raise FrontEndError('call to %s from %s: no contract, not inline (callee must be under contract or listed as assumed)' % (name, exe.fn_stack[-1]))


def inline_call(exe, name, n, argn, st):
    from .flow import merge_outcomes
    fn = exe.tu.functions[name]
    args = [exe._ev(a, st) for a in argn]
    site = exe.site
    s0 = st.fork()
    outs = exe.flow.run_function(fn, args, s0)
    exe.site = site
    rets = []
    for o in outs:
        if o.kind == 'error':
            exe.errors.append(o.st)
        else:
            rets.append(o)
    if not rets:
        raise PathDead()
    rets = merge_outcomes(rets, force=True)
    if len(rets) != 1:
        raise FrontEndError('inline call to %s returns unmergeable states' % name)
    r = rets[0].st
    st.pc, st.heap, st.ghost = r.pc, r.heap, r.ghost
    return st.ghost.pop('$ret', None)


def contract_call(exe, name, con, n, argn, st):
    """modular call: only the callee's contract is visible."""
    from .cexpr import eval_call_contract
    args = [exe._ev(a, st) for a in argn]
    return eval_call_contract(exe, name, con, n, args, st)
