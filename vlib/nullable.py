"""Nullable-result discipline as a typestate VC (C20 / C50).

A call to a *source* function (mj_arenaAllocByte, acquireGeom) returns NULL or a valid block: that is
the callee's proved contract. For every function containing such a call, a ghost status per pointer
location (local variable or d->field) is propagated path-sensitively through the real AST:
    MAYBE  --(branch on !p / p / p==NULL / !a||!b / a&&b)-->  NULL | NONNULL
Obligations, one per source call site:
  * no path dereferences, indexes, offsets or passes to a callee a location whose status is MAYBE or NULL;
  * (failure shape) every path on which the result is NULL reaches a `report` call (mj_warning / error
    exit / status flag) before the function returns.
Loops are solved by fixpoint on the finite status lattice (no bound on iterations).
"""
from .cast import walk, fn_body
from .balance import callee, key_of, NORETURN

MAYBE, NONNULL, NULL = 'maybe', 'nonnull', 'null'


def strip(n):
    while n.get('kind') in ('ParenExpr', 'ImplicitCastExpr', 'CStyleCastExpr'):
        n = n['inner'][0]
    return n


def lkey(n):
    """canonical key of a trackable pointer location, else None."""
    n = strip(n)
    k = n.get('kind')
    if k == 'DeclRefExpr' and n['referencedDecl'].get('kind') in ('VarDecl', 'ParmVarDecl'):
        return key_of(n)
    if k == 'MemberExpr':
        base = lkey(n['inner'][0])
        if base is not None:
            return 'm:' + n.get('name', '?') + '(' + base + ')'
    return None


def is_ptr_type(n):
    t = n.get('type', {})
    q = t.get('desugaredQualType', t.get('qualType', ''))
    return q.rstrip().endswith('*') or '*' in q.split('(')[0]


class Nullable:
    def __init__(self, tu, fn, sources, reporters, on_null_flags=()):
        self.tu, self.fn = tu, fn
        self.sources, self.reporters = set(sources), set(reporters)
        self.on_null_flags = set(on_null_flags)     # member names whose assignment counts as reporting (e.g. scn->status)
        self.problems = {}        # site -> list of messages
        self.sites = []
        self.site_of = {}
        for c in walk(fn_body(fn)):
            if callee(c) in self.sources:
                self.site_of[c['id']] = 'site%d' % len(self.sites)
                self.sites.append('site%d' % len(self.sites))
        self.iter_guard = 0

    def loc(self, n):
        r = n.get('range', {}).get('begin', {})
        for k in ('expansionLoc', 'spellingLoc'):
            if k in r:
                r = r[k]
        ln = r.get('line')
        if ln is None:
            ln = getattr(self, '_last', '?')
        else:
            self._last = ln
        return 'L%s' % ln

    def problem(self, site, msg):
        self.problems.setdefault(site, [])
        if msg not in self.problems[site]:
            self.problems[site].append(msg)

    # state: frozenset of (key, status, site, reported)  -> dict key -> (status, site, reported)
    @staticmethod
    def freeze(d):
        return frozenset(d.items())

    def run(self):
        outs = self.stmt(fn_body(self.fn), {self.freeze({})})
        for kind, st, where in outs:
            if kind in ('return', 'next'):
                self.at_return(dict(st), where)
        return self.problems

    require_report = True

    def at_return(self, st, where):
        if not self.require_report:
            return
        for key, (status, site, reported) in st.items():
            if status == NULL and not reported:
                self.problem(site, 'path on which the result is NULL returns at %s without reporting (no %s)' % (where, '/'.join(sorted(self.reporters))))

    # -- expressions ----------------------------------------------------------------------
    def uses(self, n, st, where, as_value=False):
        """scan expression n for unsafe uses of tracked locations; returns updated state (assignments applied)."""
        n0 = n
        k = n.get('kind')
        if not k:
            return st
        if k in ('ParenExpr', 'ImplicitCastExpr', 'CStyleCastExpr'):
            return self.uses(n['inner'][0], st, where, as_value)
        if k == 'BinaryOperator' and n.get('opcode') == '=':
            lhs, rhs = n['inner']
            st = self.uses(rhs, st, where, as_value=True)
            lk = lkey(lhs)
            r = strip(rhs)
            if lk is not None and is_ptr_type(lhs):
                if callee(r) in self.sources:
                    st = dict(st)
                    st[lk] = (MAYBE, self.site_of.get(r['id'], '?'), False)
                    return st
                rk = lkey(r)
                st = dict(st)
                if rk is not None and rk in st:
                    st[lk] = st[rk]
                elif lk in st:
                    del st[lk]
                # writes through the lhs base (d->x = ...) need d non-null: base checked below
                base = strip(lhs)
                if base.get('kind') == 'MemberExpr':
                    st = self.deref(base['inner'][0], st, where)
                return st
            # store to a non-pointer / untracked location: the lhs itself may dereference
            st = self.uses(lhs, st, where)
            if lk is not None and lk in st:
                st = dict(st)
                del st[lk]
            fl = strip(lhs)
            if fl.get('kind') == 'MemberExpr' and fl.get('name') in self.on_null_flags:
                st = {k2: (s, site, True if s == NULL else rep) for k2, (s, site, rep) in st.items()}
            return st
        if k == 'UnaryOperator' and n.get('opcode') == '*':
            return self.deref(n['inner'][0], st, where)
        if k == 'MemberExpr':
            if n.get('isArrow'):
                return self.deref(n['inner'][0], st, where)
            return self.uses(n['inner'][0], st, where)
        if k == 'ArraySubscriptExpr':
            st = self.deref(n['inner'][0], st, where)
            return self.uses(n['inner'][1], st, where)
        if k == 'BinaryOperator' and n.get('opcode') in ('+', '-') and is_ptr_type(n):
            for c in n['inner']:
                if is_ptr_type(c):
                    st = self.deref(c, st, where, what='pointer arithmetic on')
                else:
                    st = self.uses(c, st, where)
            return st
        if k == 'CallExpr':
            nm = callee(n)
            args = n['inner'][1:]
            for a in args:
                ak = lkey(a)
                if ak is not None and ak in st and nm != '__builtin_expect':
                    status, site, rep = st[ak]
                    if status != NONNULL:
                        self.problem(site, 'result (%s) passed to %s at %s while it may be NULL' % (ak.split(':')[1].split('(')[0], nm, where))
                st = self.uses(a, st, where, as_value=True)
            if nm in self.reporters:
                st = {k2: (s, site, True if s in (NULL, MAYBE) else rep) for k2, (s, site, rep) in st.items()}
            return st
        if k == 'VarDecl':
            init = [c for c in n.get('inner', []) if c.get('kind') and 'Attr' not in c['kind']]
            if init:
                r = strip(init[0])
                st = self.uses(init[0], st, where, as_value=True)
                if is_ptr_type(n):
                    lk = 'v:' + n.get('name', '?') + ':' + n['id']
                    st = dict(st)
                    if callee(r) in self.sources:
                        st[lk] = (MAYBE, self.site_of.get(r['id'], '?'), False)
                    else:
                        rk = lkey(r)
                        if rk is not None and rk in st:
                            st[lk] = st[rk]
                        elif lk in st:
                            del st[lk]
            return st
        if k in ('UnaryExprOrTypeTraitExpr',):
            return st
        for c in n.get('inner', []):
            if c.get('kind'):
                st = self.uses(c, st, where)
        return st

    def deref(self, p, st, where, what='dereference of'):
        pk = lkey(p)
        if pk is not None and pk in st:
            status, site, rep = st[pk]
            if status != NONNULL:
                self.problem(site, '%s the result (%s) at %s while it %s' % (what, pk.split(':')[1].split('(')[0], where,
                                                                          'is NULL' if status == NULL else 'may be NULL'))
                st = dict(st)
                st[pk] = (NONNULL, site, rep)     # report once
            return st
        return self.uses(p, st, where)

    # -- conditions -------------------------------------------------------------------------
    def refine(self, cond, st, truth):
        """list of states consistent with cond == truth."""
        c = strip(cond)
        k = c.get('kind')
        if k == 'CallExpr' and callee(c) == '__builtin_expect':
            return self.refine(c['inner'][1], st, truth)
        if k == 'UnaryOperator' and c.get('opcode') == '!':
            return self.refine(c['inner'][0], st, not truth)
        if k == 'BinaryOperator' and c.get('opcode') in ('&&', '||'):
            a, b = c['inner']
            conj = (c['opcode'] == '&&') == truth
            if conj:       # both must have the value `truth`
                out = []
                for s1 in self.refine(a, st, truth):
                    out += self.refine(b, s1, truth)
                return out
            # disjunction of the two ways
            out = self.refine(a, st, truth)
            for s1 in self.refine(a, st, not truth):
                out += self.refine(b, s1, truth)
            return out
        if k == 'BinaryOperator' and c.get('opcode') in ('==', '!='):
            a, b = c['inner']
            for x, y in ((a, b), (b, a)):
                xk = lkey(x)
                ys = strip(y)
                isnull = ys.get('kind') == 'IntegerLiteral' and ys.get('value') == '0' or (y.get('castKind') == 'NullToPointer')
                if xk is not None and xk in st and isnull:
                    want_null = (c['opcode'] == '==') == truth
                    return self._set(st, xk, want_null)
        pk = lkey(c)
        if pk is not None and pk in st:
            return self._set(st, pk, not truth)
        return [st]

    def _set(self, st, key, want_null):
        status, site, rep = st[key]
        if status == NONNULL and want_null:
            return []
        if status == NULL and not want_null:
            return []
        st = dict(st)
        st[key] = (NULL if want_null else NONNULL, site, rep)
        return [st]

    # -- statements ---------------------------------------------------------------------------
    def is_mjerror_block(self, n):
        from .balance import is_mjerror_block
        return is_mjerror_block(n)

    def stmt(self, n, states):
        if not n or not n.get('kind') or not states:
            return [('next', s, '') for s in states]
        k = n['kind']
        where = self.loc(n)
        if k == 'CompoundStmt':
            if self.is_mjerror_block(n):
                return []
            cur = set(states)
            outs = []
            for c in n.get('inner', []):
                if not cur:
                    break
                nxt = set()
                for kind, s, w in self.stmt(c, cur):
                    (nxt.add(s) if kind == 'next' else outs.append((kind, s, w)))
                cur = nxt
            return outs + [('next', s, where) for s in cur]
        if k == 'IfStmt':
            inner = n['inner']
            cond, then = inner[0], inner[1]
            els = inner[2] if len(inner) > 2 else None
            outs = []
            for s in states:
                st = self.uses(cond, dict(s), where)
                t_states = {self.freeze(x) for x in self.refine(cond, st, True)}
                f_states = {self.freeze(x) for x in self.refine(cond, st, False)}
                outs += self.stmt(then, t_states)
                outs += self.stmt(els, f_states) if els else [('next', x, where) for x in f_states]
            return outs
        if k in ('ForStmt', 'WhileStmt', 'DoStmt'):
            if k == 'ForStmt':
                init, _, cond, inc, body = n['inner']
                if init and init.get('kind'):
                    states = {s for kind, s, w in self.stmt(init, states) if kind == 'next'}
            elif k == 'WhileStmt':
                cond, body, inc = n['inner'][0], n['inner'][-1], None
            else:
                body, cond, inc = n['inner'][0], n['inner'][1], None
            seen = set()
            work = set(states)
            outs, exits = [], set()
            while work:
                self.iter_guard += 1
                if self.iter_guard > 20000:
                    raise RuntimeError('nullable fixpoint did not converge')
                s = work.pop()
                if s in seen:
                    continue
                seen.add(s)
                st = dict(s)
                heads_t, heads_f = [st], [st]
                if cond and cond.get('kind') and k != 'DoStmt':
                    st = self.uses(cond, st, where)
                    heads_t, heads_f = self.refine(cond, st, True), self.refine(cond, st, False)
                    exits |= {self.freeze(x) for x in heads_f}
                for h in heads_t:
                    for kind, s2, w in self.stmt(body, {self.freeze(h)}):
                        if kind in ('next', 'continue'):
                            st2 = dict(s2)
                            if inc and inc.get('kind'):
                                st2 = self.uses(inc, st2, where)
                            if k == 'DoStmt' and cond and cond.get('kind'):
                                st2 = self.uses(cond, st2, where)
                                exits |= {self.freeze(x) for x in self.refine(cond, st2, False)}
                                for x in self.refine(cond, st2, True):
                                    work.add(self.freeze(x))
                            else:
                                work.add(self.freeze(st2))
                        elif kind == 'break':
                            exits.add(s2)
                        else:
                            outs.append((kind, s2, w))
            return outs + [('next', s, where) for s in exits]
        if k == 'SwitchStmt':
            body = n['inner'][-1]
            states = {self.freeze(self.uses(n['inner'][0], dict(s), where)) for s in states}
            items = []

            def flat(s):
                if s.get('kind') in ('CaseStmt', 'DefaultStmt'):
                    items.append(('label', s))
                    flat(s['inner'][-1])
                else:
                    items.append(('stmt', s))
            for s in body.get('inner', []):
                if s.get('kind'):
                    flat(s)
            outs = []
            has_default = any(t == 'label' and s['kind'] == 'DefaultStmt' for t, s in items)
            for i, (t, s) in enumerate(items):
                if t != 'label':
                    continue
                cur = set(states)
                for t2, s2 in items[i + 1:]:
                    if t2 != 'stmt' or not cur:
                        continue
                    nxt = set()
                    for kind, st, w in self.stmt(s2, cur):
                        if kind == 'next':
                            nxt.add(st)
                        elif kind == 'break':
                            outs.append(('next', st, w))
                        else:
                            outs.append((kind, st, w))
                    cur = nxt
                outs += [('next', st, where) for st in cur]
            if not has_default:
                outs += [('next', st, where) for st in states]
            return outs
        if k == 'ReturnStmt':
            res = []
            for s in states:
                st = dict(s)
                for c in n.get('inner', []):
                    st = self.uses(c, st, where, as_value=True)
                res.append(('return', self.freeze(st), where))
            return res
        if k == 'BreakStmt':
            return [('break', s, where) for s in states]
        if k == 'ContinueStmt':
            return [('continue', s, where) for s in states]
        if k in ('GotoStmt', 'LabelStmt'):
            raise RuntimeError('goto/label')
        if k == 'DeclStmt':
            res = set()
            for s in states:
                st = dict(s)
                for dcl in n.get('inner', []):
                    if dcl.get('kind') == 'VarDecl':
                        st = self.uses(dcl, st, where)
                res.add(self.freeze(st))
            return [('next', s, where) for s in res]
        if k in ('CaseStmt', 'DefaultStmt'):
            return self.stmt(n['inner'][-1], states)
        if k == 'NullStmt':
            return [('next', s, where) for s in states]
        # expression statement
        res = set()
        for s in states:
            nm = callee(strip(n)) if strip(n).get('kind') == 'CallExpr' else None
            st = self.uses(n, dict(s), where)
            if nm in NORETURN:
                continue
            res.add(self.freeze(st))
        return [('next', s, where) for s in res]


def check_function(tu, fn_name, sources, reporters, on_null_flags=(), require_report=True):
    fn = tu.functions[fn_name]
    a = Nullable(tu, fn, sources, reporters, on_null_flags)
    a.require_report = require_report
    problems = a.run()
    return a.sites, problems


def functions_with_source(tu, sources):
    out = []
    for name, fn in tu.functions.items():
        if any(callee(c) in sources for c in walk(fn_body(fn))):
            out.append(name)
    return out
