"""Symbolic state: component (Burstall) memory model.

Every C object is an array of elements of one C type; a struct is an array of
length 1 whose scalar leaves live in separate stores keyed by (object, field path).
A pointer is (object, index tuple, field path); distinct objects never alias
(the separation assumption printed in evidence). Integer-cast addresses are
supported through a per-object symbolic base and a byte-addressed RAW store.
"""
import itertools
import z3
from .cast import TInt, TFloat, TPtr, TArr, TStruct, TVoid, TFn, FrontEndError
from .sem import simp

_ids = itertools.count(1)


class Obj:
    def __init__(self, name, ct, n=None, kind='heap', length=None):
        self.id = next(_ids)
        self.name, self.ct, self.n, self.kind = name, ct, n, kind
        self.length = length        # symbolic/concrete element count for bounds obligations (None = undeclared)
        self.base = None            # BV64 address symbol (lazily)
        self.meta = {}

    def __repr__(self):
        return 'Obj(%s)' % self.name


RAW = Obj('RAW', TInt(8, False, 'unsigned char'), None, 'raw')


class Ptr:
    """pointer value == address of a location."""
    __slots__ = ('obj', 'idx', 'path', 'ct', 'isnull')

    def __init__(self, obj, idx, path, ct, isnull=None):
        self.obj, self.idx, self.path, self.ct = obj, tuple(idx), tuple(path), ct
        self.isnull = isnull if isnull is not None else z3.BoolVal(obj is None)

    def with_(self, **kw):
        d = dict(obj=self.obj, idx=self.idx, path=self.path, ct=self.ct, isnull=self.isnull)
        d.update(kw)
        return Ptr(**d)

    def __repr__(self):
        return 'Ptr(%s,%s,%s,%s)' % (self.obj.name if self.obj else 'NULL', self.idx, '.'.join(self.path), self.ct)


def NULLP(ct=None):
    return Ptr(None, (), (), ct or TVoid())


class Store:
    """contents of one (object, field path): persistent map index tuple -> value."""
    __slots__ = ('conc', 'arr', 'zmode', 'gen')

    def __init__(self, conc=None, arr=None, zmode=False, gen=''):
        self.conc, self.arr, self.zmode, self.gen = conc or {}, arr, zmode, gen

    def copy(self):
        return Store(dict(self.conc), self.arr, self.zmode, self.gen)


def _conc_idx(idx):
    out = []
    for i in idx:
        if isinstance(i, int):
            out.append(i)
            continue
        s = simp(i)
        if z3.is_int_value(s):
            out.append(s.as_long())
        elif z3.is_bv_value(s):
            out.append(s.as_signed_long())
        else:
            return None
    return tuple(out)


class State:
    def __init__(self, exe):
        self.exe = exe
        self.pc = []            # list of z3 Bool: path condition + assumed facts
        self.heap = {}          # (objid, path) -> Store
        self.ghost = {}         # ghost counters etc.

    def fork(self):
        s = State(self.exe)
        s.pc = list(self.pc)
        s.heap = dict(self.heap)     # Stores are copied on write
        s.ghost = dict(self.ghost)
        return s

    def assume(self, b):
        b = simp(b) if not isinstance(b, bool) else z3.BoolVal(b)
        if z3.is_true(b):
            return
        self.pc.append(b)

    # -- low-level cell access ---------------------------------------------------
    def _store(self, obj, path, for_write=False):
        key = (obj.id, path)
        st = self.heap.get(key)
        if st is None:
            st = self.exe.init_store(obj, path)
            self.heap[key] = st
        if for_write:
            st = st.copy()
            self.heap[key] = st
        return st

    def load(self, p):
        """load the scalar / pointer stored at location p."""
        exe = self.exe
        ct = p.ct
        if isinstance(ct, TFn):         # a cell of function type is a function pointer (views of pointer tables in contract expressions)
            ct = TPtr(ct)
        if p.obj is RAW:
            return exe.raw_load(self, p)
        if p.obj is None:
            raise FrontEndError('load through NULL constant')
        st = self._store(p.obj, p.path)
        cidx = _conc_idx(p.idx)
        if cidx is not None and cidx in st.conc:
            return st.conc[cidx]
        if not st.zmode:
            dims = exe.dims_of(p.obj, p.path)
            if cidx is not None:
                for k, (i, n) in enumerate(zip(cidx, dims)):
                    if n is not None and not (0 <= i < n):
                        raise FrontEndError('concrete index %s out of range in %s.%s' % (cidx, p.obj.name, '.'.join(p.path)))
                v = exe.init_cell(p.obj, p.path, cidx, ct, st.gen)
                st2 = self._store(p.obj, p.path, True)
                st2.conc[cidx] = v
                return v
            # symbolic index into a small cells-mode store: ite chain
            if any(n is None for n in dims):
                raise FrontEndError('symbolic index into cells-mode object of unknown size: %s' % p.obj.name)
            res = None
            if isinstance(ct, TPtr) and isinstance(ct.to, TFn):
                # a table of function pointers read at a symbolic index: the value is only ever tested against NULL (an
                # indirect call through it is refused by the front end), so it is an opaque pointer whose null-ness is that
                # of the selected cell
                nul = None
                for combo in itertools.product(*[range(n) for n in dims]):
                    v = self.load(p.with_(idx=combo))
                    cond = z3.And(*[i == exe.sem.idx_const(c) if not isinstance(i, int) else z3.BoolVal(i == c) for i, c in zip(p.idx, combo)])
                    if nul is None:
                        exe.nsym += 1
                        nul = z3.Bool('isnull(oob %s #%d)' % (p.obj.name, exe.nsym))
                    nul = z3.If(cond, v.isnull, nul)
                o = exe.new_obj('fn@%s#%d' % (p.obj.name, exe.nsym), TInt(8, False, 'unsigned char'), n=1)
                return Ptr(o, (0,), (), ct.to, isnull=nul)
            for combo in itertools.product(*[range(n) for n in dims]):
                v = self.load(p.with_(idx=combo))
                if isinstance(v, Ptr):
                    raise FrontEndError('symbolic index into pointer array %s' % p.obj.name)
                if res is None:
                    # an index outside the object denotes no cell: an unconstrained value (executable accesses carry a
                    # bounds obligation; in specifications this keeps quantified clauses from holding vacuously)
                    ixs = [exe.sem.idx_const(i) if isinstance(i, int) else i for i in p.idx]
                    f = z3.Function('oob(%s%s)' % (p.obj.name, ''.join('.' + x for x in p.path)), *([x.sort() for x in ixs] + [v.sort()]))
                    res = f(*ixs)
                cond = z3.And(*[i == exe.sem.idx_const(c) if not isinstance(i, int) else z3.BoolVal(i == c)
                                for i, c in zip(p.idx, combo)])
                res = z3.If(cond, v, res)
            return res
        # z3 mode
        if isinstance(ct, (TPtr,)):
            if cidx is None:
                raise FrontEndError('symbolic index into pointer-valued array %s.%s' % (p.obj.name, '.'.join(p.path)))
            v = exe.init_cell(p.obj, p.path, cidx, ct, st.gen)
            st2 = self._store(p.obj, p.path, True)
            st2.conc[cidx] = v
            return v
        a = self._flush(p.obj, p.path)
        for i in p.idx:
            a = z3.Select(a, self._ix(i))
        return a

    def _ix(self, i):
        return self.exe.sem.idx_const(i) if isinstance(i, int) else i

    def _flush(self, obj, path):
        """z3-mode: fold the concrete overlay into the array term."""
        st = self._store(obj, path)
        if not st.conc:
            return st.arr
        st = self._store(obj, path, True)
        a = st.arr
        for cidx, v in st.conc.items():
            a = _nested_store(a, [self._ix(i) for i in cidx], v)
        st.arr, st.conc = a, {}
        return a

    def store(self, p, v):
        exe = self.exe
        if p.obj is RAW:
            return exe.raw_store(self, p, v)
        if p.obj is None:
            raise FrontEndError('store through NULL constant')
        st = self._store(p.obj, p.path, True)
        cidx = _conc_idx(p.idx)
        if not st.zmode:
            if cidx is not None:
                st.conc[cidx] = v
                return
            dims = exe.dims_of(p.obj, p.path)
            if any(n is None for n in dims):
                raise FrontEndError('symbolic store into cells-mode object of unknown size: %s' % p.obj.name)
            for combo in itertools.product(*[range(n) for n in dims]):
                old = self.load(p.with_(idx=combo))
                cond = z3.And(*[i == exe.sem.idx_const(c) if not isinstance(i, int) else z3.BoolVal(i == c)
                                for i, c in zip(p.idx, combo)])
                st = self._store(p.obj, p.path, True)
                st.conc[combo] = z3.If(cond, v, old)
            return
        if isinstance(v, Ptr):
            if cidx is None:
                raise FrontEndError('symbolic-index store of a pointer')
            st.conc[cidx] = v
            return
        if cidx is not None and len(st.conc) < 64 and all(_conc_idx(k) is not None for k in st.conc):
            st.conc[cidx] = v
            return
        a = self._flush(p.obj, p.path)
        st = self._store(p.obj, p.path, True)
        st.arr = _nested_store(a, [self._ix(i) for i in p.idx], v)

    def array_term(self, obj, path):
        """whole-array z3 term of a z3-mode store (for quantified contracts)."""
        st = self._store(obj, path)
        if not st.zmode:
            raise FrontEndError('array_term of cells-mode object ' + obj.name)
        return self._flush(obj, path)

    def set_array(self, obj, path, arr):
        st = self._store(obj, path, True)
        st.arr, st.conc = arr, {}


def _nested_store(a, idx, v):
    if len(idx) == 1:
        return z3.Store(a, idx[0], v)
    return z3.Store(a, idx[0], _nested_store(z3.Select(a, idx[0]), idx[1:], v))


# ----------------------------------------------------------------------------
# merging
# ----------------------------------------------------------------------------
class CannotMerge(Exception):
    pass


_phi = itertools.count(1)
PHI_DEFS = None      # list collecting definitional equalities while merge_states runs


def _named(term):
    """phi node: name a merged value by a fresh constant (keeps terms small; the definition goes to the path condition)."""
    if PHI_DEFS is None:
        return term
    v = z3.Const('phi#%d' % next(_phi), term.sort())
    PHI_DEFS.append(v == term)
    return v


def merge_vals(c, a, b):
    if a is b:
        return a
    if isinstance(a, Ptr) or isinstance(b, Ptr):
        if not (isinstance(a, Ptr) and isinstance(b, Ptr)):
            raise CannotMerge()
        if a.obj is None and b.obj is None:
            return a
        if a.obj is None:
            return b.with_(isnull=simp(z3.If(c, True, b.isnull)))
        if b.obj is None:
            return a.with_(isnull=simp(z3.If(c, a.isnull, True)))
        if a.obj is not b.obj or a.path != b.path or len(a.idx) != len(b.idx):
            raise CannotMerge()
        idx = tuple(x if (isinstance(x, int) and isinstance(y, int) and x == y) or (not isinstance(x, int) and not isinstance(y, int) and x.eq(y))
                    else _named(z3.If(c, _t(x, a, b), _t(y, a, b))) for x, y in zip(a.idx, b.idx))
        isn = a.isnull if a.isnull.eq(b.isnull) else _named(z3.If(c, a.isnull, b.isnull))
        return a.with_(idx=idx, isnull=isn)
    if a.eq(b):
        return a
    if a.sort() != b.sort():
        raise CannotMerge()
    return _named(z3.If(c, a, b))


def _t(x, a, b):
    if isinstance(x, int):
        # need the sort of the other side
        for y in a.idx + b.idx:
            if not isinstance(y, int):
                return z3.BitVecVal(x, y.size()) if z3.is_bv(y) else z3.IntVal(x)
        return z3.IntVal(x)
    return x


def merge_states(s1, s2, prefix_len):
    """merge two states that share pc[:prefix_len]. Raises CannotMerge."""
    global PHI_DEFS
    exe = s1.exe
    c1 = z3.And(*s1.pc[prefix_len:]) if len(s1.pc) > prefix_len else z3.BoolVal(True)
    c2 = z3.And(*s2.pc[prefix_len:]) if len(s2.pc) > prefix_len else z3.BoolVal(True)
    out = State(exe)
    out.pc = list(s1.pc[:prefix_len])
    out.pc.append(z3.Or(c1, c2))
    # the selector of the phi nodes: a fresh Boolean equal to "came from s1"
    sel = z3.Bool('sel#%d' % next(_phi))
    out.pc.append(sel == c1)
    c1 = sel
    saved, PHI_DEFS = PHI_DEFS, []
    try:
        _merge_into(out, s1, s2, c1, exe)
        out.pc.extend(PHI_DEFS)
    finally:
        PHI_DEFS = saved
    return out


def _merge_into(out, s1, s2, c1, exe):
    keys = set(s1.heap) | set(s2.heap)
    for key in keys:
        a, b = s1.heap.get(key), s2.heap.get(key)
        if a is b:
            out.heap[key] = a
            continue
        if a is None or b is None:
            obj = exe.obj_by_id[key[0]]
            if a is None:
                a = exe.init_store(obj, key[1])
            if b is None:
                b = exe.init_store(obj, key[1])
        st = Store(zmode=a.zmode, gen=a.gen)
        if a.gen != b.gen:
            exe.nsym += 1
            st.gen = 'mrg#%d' % exe.nsym
        if a.zmode:
            # fold overlays then ite on arrays
            ta = a.arr
            for cidx, v in a.conc.items():
                if isinstance(v, Ptr):
                    continue
                ta = _nested_store(ta, [s1._ix(i) for i in cidx], v)
            tb = b.arr
            for cidx, v in b.conc.items():
                if isinstance(v, Ptr):
                    continue
                tb = _nested_store(tb, [s1._ix(i) for i in cidx], v)
            st.arr = (ta if ta is not None else tb) if (ta is None or tb is None) else (ta if ta.eq(tb) else _named(z3.If(c1, ta, tb)))
            for cidx in set(a.conc) | set(b.conc):
                va, vb = a.conc.get(cidx), b.conc.get(cidx)
                if isinstance(va, Ptr) or isinstance(vb, Ptr):
                    if va is None or vb is None:
                        obj = exe.obj_by_id[key[0]]
                        ct = (va or vb).ct
                        va = va or exe.init_cell(obj, key[1], cidx, TPtr(ct), a.gen)
                        vb = vb or exe.init_cell(obj, key[1], cidx, TPtr(ct), b.gen)
                    st.conc[cidx] = merge_vals(c1, va, vb)
        else:
            obj = exe.obj_by_id[key[0]]
            for cidx in set(a.conc) | set(b.conc):
                va, vb = a.conc.get(cidx), b.conc.get(cidx)
                if va is None or vb is None:
                    other = va if va is not None else vb
                    if obj.kind == 'local':
                        # declared in one branch only / uninitialised: keep whichever exists
                        st.conc[cidx] = other
                        continue
                    ct = exe.leaf_type(obj, key[1])
                    va = va if va is not None else exe.init_cell(obj, key[1], cidx, ct, a.gen)
                    vb = vb if vb is not None else exe.init_cell(obj, key[1], cidx, ct, b.gen)
                try:
                    st.conc[cidx] = merge_vals(c1, va, vb)
                except CannotMerge:
                    if obj.kind != 'local' or not getattr(exe, 'drop_dead_ptr_locals', False):
                        raise
                    # a (dead) local pointer variable that points to different objects on the two paths:
                    # forget it (a later read yields an uninitialised pointer, which is reported if dereferenced)
                    continue
        out.heap[key] = st
    for g in set(s1.ghost) | set(s2.ghost):
        va, vb = s1.ghost.get(g), s2.ghost.get(g)
        if va is None or vb is None:
            out.ghost[g] = va if va is not None else vb
        else:
            if isinstance(va, frozenset) and isinstance(vb, frozenset):
                out.ghost[g] = va | vb
            elif isinstance(va, (int, str, tuple, list, dict, frozenset)) or isinstance(vb, (int, str, tuple, list, dict, frozenset)):
                out.ghost[g] = va
            else:
                out.ghost[g] = merge_vals(c1, va, vb)
    return out
