"""Symbolic differentiation of z3 real terms (straight-line path expressions).
Root symbols t = sqrt(x) are differentiated through t*t == x:  dt = dx / (2 t).   (trusted: this 60-line routine)"""
import z3


def diff(term, var, roots=None, _cache=None):
    """d term / d var.  roots: {id(t): (t, x)} for symbols t with t*t == x, t > 0 on the path."""
    roots = roots or {}
    if _cache is None:
        _cache = {}
    key = term.get_id()
    if key in _cache:
        return _cache[key]
    r = _diff(term, var, roots, _cache)
    _cache[key] = r
    return r


ZERO, ONE = z3.RealVal(0), z3.RealVal(1)


def _diff(t, var, roots, cache):
    if t.eq(var):
        return ONE
    if z3.is_rational_value(t) or z3.is_int_value(t) or z3.is_algebraic_value(t):
        return ZERO
    if z3.is_const(t):
        if t.get_id() in roots:
            sym, x = roots[t.get_id()]
            dx = diff(x, var, roots, cache)
            if z3.is_rational_value(z3.simplify(dx)) and z3.simplify(dx).numerator_as_long() == 0:
                return ZERO
            return dx / (2 * sym)
        return ZERO
    k = t.decl().kind()
    ch = t.children()
    if k == z3.Z3_OP_ADD:
        return z3.Sum([diff(c, var, roots, cache) for c in ch])
    if k == z3.Z3_OP_SUB:
        r = diff(ch[0], var, roots, cache)
        for c in ch[1:]:
            r = r - diff(c, var, roots, cache)
        return r
    if k == z3.Z3_OP_UMINUS:
        return -diff(ch[0], var, roots, cache)
    if k == z3.Z3_OP_MUL:
        terms = []
        for i, c in enumerate(ch):
            d = diff(c, var, roots, cache)
            sd = z3.simplify(d)
            if z3.is_rational_value(sd) and sd.numerator_as_long() == 0:
                continue
            others = [x for j, x in enumerate(ch) if j != i]
            terms.append(z3.Product([d] + others) if others else d)
        return z3.Sum(terms) if terms else ZERO
    if k == z3.Z3_OP_DIV:
        a, b = ch
        da, db = diff(a, var, roots, cache), diff(b, var, roots, cache)
        return (da * b - a * db) / (b * b)
    if k == z3.Z3_OP_POWER:
        a, e = ch
        se = z3.simplify(e)
        if z3.is_rational_value(se) and se.denominator_as_long() == 1:
            n = se.numerator_as_long()
            return n * a ** (n - 1) * diff(a, var, roots, cache) if n != 1 else diff(a, var, roots, cache)
    if k == z3.Z3_OP_TO_REAL:
        return ZERO
    raise ValueError('cannot differentiate %s' % t.decl().name())


def closure(f):
    """topological closure of a constraint set: strict inequalities become non-strict (NNF first)."""
    return _cl(z3.simplify(f, arith_lhs=False), True)


def _cl(f, pos):
    if z3.is_and(f):
        return (z3.And if pos else z3.Or)(*[_cl(c, pos) for c in f.children()])
    if z3.is_or(f):
        return (z3.Or if pos else z3.And)(*[_cl(c, pos) for c in f.children()])
    if z3.is_not(f):
        return _cl(f.children()[0], not pos)
    if z3.is_true(f) or z3.is_false(f):
        return f if pos else z3.Not(f)
    k = f.decl().kind()
    ch = f.children()
    if k in (z3.Z3_OP_LE, z3.Z3_OP_LT, z3.Z3_OP_GE, z3.Z3_OP_GT):
        a, b = ch
        if not pos:   # negate then close
            k = {z3.Z3_OP_LE: z3.Z3_OP_GT, z3.Z3_OP_LT: z3.Z3_OP_GE, z3.Z3_OP_GE: z3.Z3_OP_LT, z3.Z3_OP_GT: z3.Z3_OP_LE}[k]
        return a <= b if k in (z3.Z3_OP_LE, z3.Z3_OP_LT) else a >= b
    if k == z3.Z3_OP_EQ:
        if pos:
            return f
        return z3.BoolVal(True)      # closure of a != b is everything
    if k == z3.Z3_OP_DISTINCT:
        return z3.BoolVal(True) if pos else z3.And(*[ch[0] == c for c in ch[1:]])
    return f if pos else z3.Not(f)
