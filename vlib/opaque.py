"""Sound abstraction of nonlinear integer products for layout arithmetic.

Every product of two or more non-constant integer terms  a*b  is replaced by an application  MUL(a, b)  of one
uninterpreted function (arguments in a canonical order, so a*b and b*a become the same term), and for every such
application the instance  a >= 0 and b >= 0  ->  MUL(a, b) >= 0  of a true property of multiplication is added.
Integer multiplication is a model of the uninterpreted symbol with these instances, so a formula that is valid after the
abstraction is valid for real multiplication; the converse does not hold (an abstracted obligation may stay open), which
can only make the check report 'undecided', never accept something false.  What it buys: the obligations become linear."""
import z3

MUL = z3.Function('MUL', z3.IntSort(), z3.IntSort(), z3.IntSort())


class Abstraction:
    def __init__(self):
        self.cache = {}
        self.apps = {}       # id -> (app, a, b)

    def term(self, t):
        i = t.get_id()
        r = self.cache.get(i)
        if r is not None:
            return r
        if z3.is_quantifier(t) or not z3.is_app(t) or t.num_args() == 0:
            r = t
        else:
            kids = [self.term(c) for c in t.children()]
            if t.decl().kind() == z3.Z3_OP_MUL and z3.is_int(t):
                nums = [k for k in kids if z3.is_int_value(k)]
                rest = [k for k in kids if not z3.is_int_value(k)]
                if len(rest) >= 2:
                    rest.sort(key=lambda k: k.get_id())
                    acc = rest[0]
                    for k in rest[1:]:
                        a, b = acc, k
                        app = MUL(a, b)
                        self.apps[app.get_id()] = (app, a, b)
                        acc = app
                    r = acc
                    for n in nums:
                        r = n * r
                else:
                    r = t.decl()(*kids) if any(k.get_id() != c.get_id() for k, c in zip(kids, t.children())) else t
            else:
                changed = any(k.get_id() != c.get_id() for k, c in zip(kids, t.children()))
                r = t.decl()(*kids) if changed else t
        self.cache[i] = r
        return r

    def axioms(self):
        return [z3.Implies(z3.And(a >= 0, b >= 0), app >= 0) for (app, a, b) in self.apps.values()]


def abstract_obligations(obs):
    ab = Abstraction()
    for o in obs:
        o.assumptions = [ab.term(a) for a in o.assumptions]
        o.goal = ab.term(o.goal)
    ax = ab.axioms()
    for o in obs:
        if not z3.is_true(o.goal) or o.kind == 'cover':
            o.assumptions = o.assumptions + ax
    return len(ab.apps)
