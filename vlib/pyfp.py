"""Scalar IEEE-double reading of elementwise numpy code (for python/mujoco/minimize.py).

The statements that define a value are taken from the REAL function's ast (re-parsed from the working tree on every run)
and evaluated symbolically per component: + - * / are round-to-nearest-even Float64 operations, np.where -> if-then-else,
np.maximum / np.minimum / np.abs / np.clip -> their elementwise IEEE meaning.  Anything outside this small vocabulary
raises Unsupported (the check then reports 'undecided', never a pass).  Assumed, listed in evidence: the named numpy
functions act elementwise on (n,1) columns without broadcasting across components."""
import ast
import inspect
import z3

F64 = z3.Float64()
RNE = z3.RNE()


class Unsupported(Exception):
    pass


def fpv(x):
    return z3.FPVal(float(x), F64)


class Interp:
    def __init__(self, env, diag_component=True):
        self.env = dict(env)

    def key(self, n):
        """names and constant-subscripted names (bounds[0]) are variables of the environment"""
        if isinstance(n, ast.Name):
            return n.id
        if isinstance(n, ast.Subscript) and isinstance(n.value, ast.Name) and isinstance(n.slice, ast.Constant):
            return '%s[%s]' % (n.value.id, n.slice.value)
        return None

    def ev(self, n):
        k = self.key(n)
        if k is not None:
            if k not in self.env:
                raise Unsupported('unknown name ' + k)
            return self.env[k]
        if isinstance(n, ast.Constant) and isinstance(n.value, (int, float)):
            return fpv(n.value)
        if isinstance(n, ast.UnaryOp) and isinstance(n.op, ast.USub):
            return z3.fpNeg(self.ev(n.operand))
        if isinstance(n, ast.BinOp):
            a, b = self.ev(n.left), self.ev(n.right)
            if isinstance(n.op, ast.Add): return z3.fpAdd(RNE, a, b)
            if isinstance(n.op, ast.Sub): return z3.fpSub(RNE, a, b)
            if isinstance(n.op, ast.Mult): return z3.fpMul(RNE, a, b)
            if isinstance(n.op, ast.Div): return z3.fpDiv(RNE, a, b)
            raise Unsupported('operator ' + type(n.op).__name__)
        if isinstance(n, ast.Compare) and len(n.ops) == 1:
            a, b = self.ev(n.left), self.ev(n.comparators[0])
            op = n.ops[0]
            if isinstance(op, ast.Gt): return z3.fpGT(a, b)
            if isinstance(op, ast.Lt): return z3.fpLT(a, b)
            if isinstance(op, ast.GtE): return z3.fpGEQ(a, b)
            if isinstance(op, ast.LtE): return z3.fpLEQ(a, b)
            raise Unsupported('comparison')
        if isinstance(n, ast.Attribute) and n.attr == 'T':
            return self.ev(n.value)                  # transpose of a column: same components
        if isinstance(n, ast.Call):
            f = n.func
            name = (f.value.id + '.' + f.attr) if isinstance(f, ast.Attribute) and isinstance(f.value, ast.Name) else (f.id if isinstance(f, ast.Name) else None)
            if isinstance(f, ast.Attribute) and f.attr == 'flatten' and not n.args:
                return self.ev(f.value)
            args = n.args
            if name == 'np.where' and len(args) == 3:
                return z3.If(self.ev(args[0]), self.ev(args[1]), self.ev(args[2]))
            if name == 'np.maximum' and len(args) == 2:
                return z3.fpMax(self.ev(args[0]), self.ev(args[1]))
            if name == 'np.minimum' and len(args) == 2:
                return z3.fpMin(self.ev(args[0]), self.ev(args[1]))
            if name == 'np.abs' and len(args) == 1:
                return z3.fpAbs(self.ev(args[0]))
            if name == 'np.clip' and len(args) == 3:
                return z3.fpMin(z3.fpMax(self.ev(args[0]), self.ev(args[1])), self.ev(args[2]))
            if name == 'np.diag' and len(args) == 1:
                return self.ev(args[0])               # the diagonal component of the perturbation matrix
            if name == 'np.ones':
                return fpv(1.0)
            raise Unsupported('call ' + str(name))
        raise Unsupported('expression ' + type(n).__name__)

    def run(self, stmts):
        """execute assignments / augmented assignments / np.clip(..., out=name) statements in order."""
        for s in stmts:
            if isinstance(s, ast.Assign) and len(s.targets) == 1 and self.key(s.targets[0]):
                self.env[self.key(s.targets[0])] = self.ev(s.value)
            elif isinstance(s, ast.AugAssign) and self.key(s.target):
                k = self.key(s.target)
                self.env[k] = self.ev(ast.BinOp(left=s.target, op=s.op, right=s.value))
            elif isinstance(s, ast.Expr) and isinstance(s.value, ast.Call):
                out = [kw for kw in s.value.keywords if kw.arg == 'out']
                if out and self.key(out[0].value):
                    self.env[self.key(out[0].value)] = self.ev(ast.Call(func=s.value.func, args=s.value.args, keywords=[]))
                else:
                    raise Unsupported('expression statement')
            elif isinstance(s, ast.Expr) and isinstance(s.value, ast.Constant):
                continue      # docstring / comment string
            else:
                raise Unsupported('statement ' + type(s).__name__)
        return self.env


def function_ast(mod_path, fn_name):
    tree = ast.parse(open(mod_path).read())
    for n in ast.walk(tree):
        if isinstance(n, ast.FunctionDef) and n.name == fn_name:
            return n
    raise Unsupported('function %s not found' % fn_name)


def is_not_none_test(test, name):
    return (isinstance(test, ast.Compare) and isinstance(test.left, ast.Name) and test.left.id == name and
            len(test.ops) == 1 and isinstance(test.ops[0], ast.IsNot) and isinstance(test.comparators[0], ast.Constant) and test.comparators[0].value is None)


def is_none_test(test, name):
    return (isinstance(test, ast.Compare) and isinstance(test.left, ast.Name) and test.left.id == name and
            len(test.ops) == 1 and isinstance(test.ops[0], ast.Is) and isinstance(test.comparators[0], ast.Constant) and test.comparators[0].value is None)


def flatten_with_bounds(stmts, name='bounds'):
    """statement list with `if bounds is (not) None:` resolved for the case that bounds are given."""
    out = []
    for s in stmts:
        if isinstance(s, ast.If) and is_not_none_test(s.test, name):
            out += flatten_with_bounds(s.body, name)
        elif isinstance(s, ast.If) and is_none_test(s.test, name):
            out += flatten_with_bounds(s.orelse, name)
        else:
            out.append(s)
    return out
