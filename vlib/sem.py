"""Integer / numeric semantics used by the symbolic executor.

bv   : every C integer is an SMT bit-vector of its C width (exact C semantics,
       unsigned wraps, signed overflow is reported through an obligation).
math : every C integer is an SMT Int inside its type's range; signed + - * and
       narrowing casts raise no-overflow obligations, unsigned ops reduce mod 2^w.
num  : 'real' (mathematical reals for double -- listed as an assumption),
       'fp' (IEEE Float64, exact), 'opaque' (uninterpreted sort: copy and == only).
"""
import z3
from .cast import TInt, TFloat, TPtr, FrontEndError

OpaqueNum = z3.DeclareSort('mjtNumOpaque')
_opq_zero = z3.Const('opaque_zero', OpaqueNum)


def is_lit(t):
    return z3.is_int_value(t) or z3.is_bv_value(t) or z3.is_true(t) or z3.is_false(t) or z3.is_rational_value(t)


def simp(t):
    return z3.simplify(t)


class Sem:
    def __init__(self, int_mode='bv', num_mode='real'):
        assert int_mode in ('bv', 'math')
        assert num_mode in ('real', 'fp', 'opaque')
        self.int_mode, self.num_mode = int_mode, num_mode
        self.ob = None   # callback(name, goal_bool) for arithmetic-safety obligations
        self.assume_cb = None
        self.band_axioms = True
        self.used_band = set()
        self.bitsum = True      # symbolic & | ^ in math mode: sum over bits (True) or int2bv/bv2int (False)

    # -- sorts / constants -----------------------------------------------------
    def sort_of(self, ct):
        if isinstance(ct, TInt):
            return z3.BitVecSort(ct.width) if self.int_mode == 'bv' else z3.IntSort()
        if isinstance(ct, TFloat):
            return {'real': z3.RealSort(), 'fp': z3.Float64() if ct.width == 64 else z3.Float32(),
                    'opaque': OpaqueNum}[self.num_mode]
        raise FrontEndError('no scalar sort for %r' % ct)

    def fresh(self, name, ct):
        return z3.Const(name, self.sort_of(ct))

    def const(self, v, ct):
        if isinstance(ct, TInt):
            if self.int_mode == 'bv':
                return z3.BitVecVal(v, ct.width)
            return z3.IntVal(self._wrap_py(int(v), ct))
        if isinstance(ct, TFloat):
            return self.fconst(v, ct)
        raise FrontEndError('const of %r' % ct)

    def _wrap_py(self, v, ct):
        m = 1 << ct.width
        v %= m
        if ct.signed and v >= m // 2:
            v -= m
        return v

    def fconst(self, v, ct=None):
        if self.num_mode == 'real':
            from fractions import Fraction
            # a C floating literal denotes the nearest double: its exact rational value
            fr = Fraction(float(v)) if not isinstance(v, Fraction) else v
            return z3.RealVal(str(fr))
        if self.num_mode == 'fp':
            return z3.FPVal(float(v), z3.Float32() if (ct is not None and getattr(ct, 'width', 64) == 32) else z3.Float64())
        if float(v) == 0.0:
            return _opq_zero
        return z3.Const('opaque_const_%r' % float(v), OpaqueNum)

    def range_fact(self, t, ct):
        """type-range fact for a math-mode integer term."""
        if self.int_mode == 'bv' or not isinstance(ct, TInt):
            return None
        return z3.And(t >= ct.lo, t <= ct.hi)

    # -- conversions -------------------------------------------------------------
    def to_bool(self, v, ct):
        if z3.is_bool(v):
            return v
        if isinstance(ct, TInt):
            return v != (z3.BitVecVal(0, ct.width) if self.int_mode == 'bv' else 0)
        if isinstance(ct, TFloat):
            if self.num_mode == 'real':
                return v != 0
            if self.num_mode == 'fp':
                return z3.Not(z3.fpIsZero(v))
            return v != _opq_zero
        raise FrontEndError('to_bool of %r' % ct)

    def from_bool(self, b, ct):
        return z3.If(b, self.const(1, ct), self.const(0, ct))

    def cast_int(self, v, src, dst, what='cast'):
        """integer -> integer conversion with C semantics."""
        if dst.is_bool:
            return self.from_bool(self.to_bool(v, src), dst)
        if self.int_mode == 'bv':
            if dst.width == src.width:
                return v
            if dst.width < src.width:
                return z3.Extract(dst.width - 1, 0, v)
            return z3.SignExt(dst.width - src.width, v) if src.signed else z3.ZeroExt(dst.width - src.width, v)
        # math mode
        if src.lo >= dst.lo and src.hi <= dst.hi:
            return v
        if getattr(self, 'strict', False) and self.ob:
            # strict mode (per contract): a conversion that would change the value is an obligation, not a wrap;
            # the value then passes through unchanged
            self.ob('value_preserving_conversion(%s)' % dst.name.replace(' ', '_'), z3.And(v >= dst.lo, v <= dst.hi))
            return v
        if not dst.signed:
            return v % (1 << dst.width)
        # conversion to a signed type that cannot represent the value: implementation-defined in C,
        # two's-complement wrap on every supported compiler (gcc/clang/msvc) -- modelled exactly, no obligation
        m = v % (1 << dst.width)
        return z3.If(m >= (1 << (dst.width - 1)), m - (1 << dst.width), m)

    # -- arithmetic ------------------------------------------------------------
    def binop(self, op, a, b, ct, what=''):
        if isinstance(ct, TFloat):
            return self._fbin(op, a, b)
        w, sg = ct.width, ct.signed
        if self.int_mode == 'bv':
            if op == '+':
                if sg and self.ob:
                    self.ob('signed_overflow_add' + what, z3.And(z3.BVAddNoOverflow(a, b, True), z3.BVAddNoUnderflow(a, b)))
                return a + b
            if op == '-':
                if sg and self.ob:
                    self.ob('signed_overflow_sub' + what, z3.And(z3.BVSubNoOverflow(a, b), z3.BVSubNoUnderflow(a, b, True)))
                return a - b
            if op == '*':
                if sg and self.ob:
                    self.ob('signed_overflow_mul' + what, z3.And(z3.BVMulNoOverflow(a, b, True), z3.BVMulNoUnderflow(a, b)))
                return a * b
            if op == '/':
                if self.ob:
                    self.ob('div_by_zero' + what, b != 0)
                return a / b if sg else z3.UDiv(a, b)
            if op == '%':
                if self.ob:
                    self.ob('div_by_zero' + what, b != 0)
                return z3.SRem(a, b) if sg else z3.URem(a, b)
            if op == '&':
                return a & b
            if op == '|':
                return a | b
            if op == '^':
                return a ^ b
            if op == '<<':
                return a << b
            if op == '>>':
                return a >> b if sg else z3.LShR(a, b)
        else:
            M = 1 << w
            if op in '+-*':
                r = a + b if op == '+' else (a - b if op == '-' else a * b)
                if sg:
                    if self.ob:
                        self.ob('signed_overflow_%s%s' % ({'+': 'add', '-': 'sub', '*': 'mul'}[op], what),
                                z3.And(r >= ct.lo, r <= ct.hi))
                    return r
                if getattr(self, 'strict', False) and self.ob:
                    self.ob('unsigned_wrap_%s%s' % ({'+': 'add', '-': 'sub', '*': 'mul'}[op], what), z3.And(r >= 0, r < M))
                    return r
                return r % M
            if op == '/':
                if self.ob:
                    self.ob('div_by_zero' + what, b != 0)
                if sg:   # C truncates toward zero
                    return z3.If(z3.And(a >= 0, b > 0), a / b,
                                 z3.If(z3.And(a < 0, b > 0), -((-a) / b),
                                       z3.If(z3.And(a >= 0, b < 0), -(a / (-b)), (-a) / (-b))))
                return a / b
            if op == '%':
                if self.ob:
                    self.ob('div_by_zero' + what, b != 0)
                if sg:
                    return z3.If(a >= 0, a % z3.If(b >= 0, b, -b), -((-a) % z3.If(b >= 0, b, -b)))
                return a % b
            if op in ('&', '|', '^', '<<', '>>'):
                return self._math_bit(op, a, b, ct)
        raise FrontEndError('binop %s' % op)

    def _math_bit(self, op, a, b, ct):
        a, b = simp(a), simp(b)
        if z3.is_int_value(a) and z3.is_int_value(b):
            x, y = a.as_long(), b.as_long()
            r = {'&': lambda: x & y, '|': lambda: x | y, '^': lambda: x ^ y, '<<': lambda: x << (y % 256), '>>': lambda: x >> (y % 256)}[op]()
            return z3.IntVal(self._wrap_py(r, ct))
        if op == '<<' and z3.is_int_value(b):
            r = a * (1 << b.as_long())
            if ct.signed:
                if self.ob:
                    self.ob('signed_overflow_shl', z3.And(r >= ct.lo, r <= ct.hi, a >= 0))
                return r
            return r % (1 << ct.width)
        if op == '>>' and z3.is_int_value(b):
            return a / (1 << b.as_long())      # floor division == arithmetic shift
        if op == '&' and z3.is_int_value(b):
            m = b.as_long()
            if m >= 0 and (m & (m + 1)) == 0:        # low mask
                return a % (m + 1)
            if m > 0 and (m & (m - 1)) == 0:        # single bit
                return z3.If(((a % (1 << ct.width)) / m) % 2 == 1, z3.IntVal(m), z3.IntVal(0))
        if op == '&' and z3.is_int_value(a):
            return self._math_bit(op, b, a, ct)
        if op == '&' and ct.width <= 32 and self.band_axioms:
            # symbolic a & b: an uninterpreted function constrained by facts that are proved once in bit-vector
            # arithmetic (lemmas 'band/*' emitted by band_lemmas()); bit_k(x) is (x / 2^k) % 2 == 1
            w = ct.width
            ua, ub = a % (1 << w), b % (1 << w)
            f = z3.Function('band%d' % w, z3.IntSort(), z3.IntSort(), z3.IntSort())
            r = f(ua, ub)
            self.used_band.add(w)
            if self.assume_cb:
                ba = [((ua / (1 << k)) % 2) == 1 for k in range(w)]
                bb = [((ub / (1 << k)) % 2) == 1 for k in range(w)]
                self.assume_cb(z3.And(r >= 0, r <= ua, r <= ub))
                self.assume_cb((r == ub) == z3.And(*[z3.Implies(y, x) for x, y in zip(ba, bb)]))
                self.assume_cb((r == 0) == z3.And(*[z3.Not(z3.And(x, y)) for x, y in zip(ba, bb)]))
            if ct.signed:
                return z3.If(r >= (1 << (w - 1)), r - (1 << w), r)
            return r
        if op in ('&', '|', '^') and ct.width <= 32 and self.bitsum:
            # both operands symbolic: bit-wise sum over the two's-complement bits (linear integer arithmetic with
            # div/mod by constants -- friendlier to the solver than int2bv/bv2int)
            w = ct.width
            ua, ub = a % (1 << w), b % (1 << w)
            if self.assume_cb:
                # binary expansion identity x == sum_k 2^k * bit_k(x) for 0 <= x < 2^w (arithmetic fact, trusted)
                for u in (ua, ub):
                    self.assume_cb(u == z3.Sum([((u / (1 << k)) % 2) * (1 << k) for k in range(w)]))
            terms = []
            for k in range(w):
                x, y = (ua / (1 << k)) % 2, (ub / (1 << k)) % 2
                if op == '&':
                    bit = z3.If(z3.And(x == 1, y == 1), 1, 0)
                elif op == '|':
                    bit = z3.If(z3.Or(x == 1, y == 1), 1, 0)
                else:
                    bit = z3.If(x != y, 1, 0)
                terms.append(bit * (1 << k))
            r = z3.Sum(terms)
            if ct.signed:
                return z3.If(r >= (1 << (w - 1)), r - (1 << w), r)
            return r
        # general case: go through bit-vectors
        w = ct.width
        x, y = z3.Int2BV(a, w), z3.Int2BV(b, w)
        r = {'&': x & y, '|': x | y, '^': x ^ y, '<<': x << y,
             '>>': (x >> y) if ct.signed else z3.LShR(x, y)}[op]
        return z3.BV2Int(r, ct.signed)

    def unop(self, op, a, ct):
        if isinstance(ct, TFloat):
            if op == '-':
                return -a if self.num_mode != 'opaque' else self._opq('neg', a)
            if op == '+':
                return a
        if op == '+':
            return a
        if op == '-':
            if self.int_mode == 'bv':
                if ct.signed and self.ob:
                    self.ob('signed_overflow_neg', a != z3.BitVecVal(1 << (ct.width - 1), ct.width))
                return -a
            if ct.signed:
                if self.ob:
                    self.ob('signed_overflow_neg', a != ct.lo)
                return -a
            return (-a) % (1 << ct.width)
        if op == '~':
            if self.int_mode == 'bv':
                return ~a
            return (-a - 1) if ct.signed else ((1 << ct.width) - 1 - a)
        raise FrontEndError('unop ' + op)

    def cmp(self, op, a, b, ct):
        if isinstance(ct, TFloat):
            return self._fcmp(op, a, b)
        if op == '==':
            return a == b
        if op == '!=':
            return a != b
        if self.int_mode == 'bv' and not ct.signed:
            return {'<': z3.ULT, '<=': z3.ULE, '>': z3.UGT, '>=': z3.UGE}[op](a, b)
        return {'<': lambda x, y: x < y, '<=': lambda x, y: x <= y,
                '>': lambda x, y: x > y, '>=': lambda x, y: x >= y}[op](a, b)

    # -- floating ---------------------------------------------------------------
    _opq_fns = {}

    def _opq(self, name, *args):
        key = (name, len(args))
        if key not in self._opq_fns:
            self._opq_fns[key] = z3.Function('opq_' + name, *([OpaqueNum] * len(args) + [OpaqueNum]))
        return self._opq_fns[key](*args)

    def _fbin(self, op, a, b):
        if self.num_mode == 'real':
            return {'+': lambda: a + b, '-': lambda: a - b, '*': lambda: a * b, '/': lambda: a / b}[op]()
        if self.num_mode == 'fp':
            rm = z3.RNE()
            return {'+': lambda: z3.fpAdd(rm, a, b), '-': lambda: z3.fpSub(rm, a, b),
                    '*': lambda: z3.fpMul(rm, a, b), '/': lambda: z3.fpDiv(rm, a, b)}[op]()
        return self._opq({'+': 'add', '-': 'sub', '*': 'mul', '/': 'div'}[op], a, b)

    def _fcmp(self, op, a, b):
        if self.num_mode == 'real':
            return {'==': lambda: a == b, '!=': lambda: a != b, '<': lambda: a < b, '<=': lambda: a <= b,
                    '>': lambda: a > b, '>=': lambda: a >= b}[op]()
        if self.num_mode == 'fp':
            return {'==': lambda: z3.fpEQ(a, b), '!=': lambda: z3.Not(z3.fpEQ(a, b)), '<': lambda: z3.fpLT(a, b),
                    '<=': lambda: z3.fpLEQ(a, b), '>': lambda: z3.fpGT(a, b), '>=': lambda: z3.fpGEQ(a, b)}[op]()
        if op == '==':
            return a == b
        if op == '!=':
            return a != b
        f = z3.Function('opq_' + {'<': 'lt', '<=': 'le', '>': 'gt', '>=': 'ge'}[op], OpaqueNum, OpaqueNum, z3.BoolSort())
        return f(a, b)

    def int_to_float(self, v, src, dst):
        if self.num_mode == 'real':
            if self.int_mode == 'bv':
                v = z3.BV2Int(v, src.signed)
            return z3.ToReal(v)
        if self.num_mode == 'fp':
            fs = z3.Float32() if getattr(dst, 'width', 64) == 32 else z3.Float64()
            if self.int_mode == 'bv':
                return z3.fpSignedToFP(z3.RNE(), v, fs) if src.signed else z3.fpUnsignedToFP(z3.RNE(), v, fs)
            return z3.fpRealToFP(z3.RNE(), z3.ToReal(v), fs)
        if self.int_mode == 'bv':
            v = z3.BV2Int(v, src.signed)
        return z3.Function('opq_of_int', z3.IntSort(), OpaqueNum)(v)

    def float_to_int(self, v, src, dst):
        if self.num_mode == 'real':
            # C truncates toward zero
            t = z3.If(v >= 0, z3.ToInt(v), -z3.ToInt(-v))
            if self.ob:
                self.ob('float_to_int_range', z3.And(t >= dst.lo, t <= dst.hi))
            return z3.Int2BV(t, dst.width) if self.int_mode == 'bv' else t
        if self.num_mode == 'fp':
            if self.int_mode == 'bv':
                return z3.fpToSBV(z3.RTZ(), v, z3.BitVecSort(dst.width)) if dst.signed else z3.fpToUBV(z3.RTZ(), v, z3.BitVecSort(dst.width))
            r = z3.fpToReal(z3.fpRoundToIntegral(z3.RTZ(), v))
            return z3.ToInt(r)
        f = z3.Function('opq_to_' + dst.name.replace(' ', '_'), OpaqueNum, z3.IntSort())(v)
        if self.int_mode != 'bv' and self.assume_cb:
            # the converted value is representable in the destination type (anything else is undefined behaviour)
            self.assume_cb(z3.And(f >= dst.lo, f <= dst.hi))
        return z3.Int2BV(f, dst.width) if self.int_mode == 'bv' else f

    def idx(self, v, ct):
        """integer value -> array index term (Int in math mode, 64-bit BV in bv mode)."""
        if self.int_mode == 'bv':
            w = v.size()
            if w == 64:
                return v
            return z3.SignExt(64 - w, v) if ct.signed else z3.ZeroExt(64 - w, v)
        return v

    def idx_sort(self):
        return z3.BitVecSort(64) if self.int_mode == 'bv' else z3.IntSort()

    def idx_const(self, v):
        return z3.BitVecVal(v, 64) if self.int_mode == 'bv' else z3.IntVal(v)


def band_lemmas(w=32):
    """the facts assumed about band<w> in math mode, proved here over bit-vectors (returns [(name, z3 formula to refute)])."""
    a, b = z3.BitVecs('a b', w)
    r = a & b
    sub = z3.And(*[z3.Implies(z3.Extract(k, k, b) == 1, z3.Extract(k, k, a) == 1) for k in range(w)])
    dis = z3.And(*[z3.Not(z3.And(z3.Extract(k, k, a) == 1, z3.Extract(k, k, b) == 1)) for k in range(w)])
    return [('band%d/bounded' % w, z3.Not(z3.And(z3.ULE(r, a), z3.ULE(r, b)))),
            ('band%d/equals_b_iff_subset' % w, z3.Not((r == b) == sub)),
            ('band%d/zero_iff_disjoint' % w, z3.Not((r == 0) == dis))]
