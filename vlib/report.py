"""Check runner: collects obligations from verification units, discharges them, replays
counterexamples, applies known findings, writes evidence, decides the exit code.

exit 0  every obligation discharged (known findings printed)
exit 1  VIOLATION (definite counterexample from the solver; replayed natively where possible)
exit 2  undecided (solver unknown / contract does not bind to the code any more)
exit 3  checker failure (vacuous precondition, internal error)
"""
import hashlib
import json
import os
import re
import sys
import time
import traceback
import z3
from .cast import FrontEndError, load_tu, REPO, VERIF
from .solve import discharge, to_smt2
from .verify import verify_function

# VERIF_EVIDENCE_DIR: seeding/mutation tools redirect evidence of runs on changed trees away from the committed files
EVID = os.environ.get('VERIF_EVIDENCE_DIR') or os.path.join(VERIF, 'evidence')
REPLAY = os.path.join(VERIF, 'replay')
KNOWN = os.path.join(VERIF, 'known_findings.json')


def kw_split(res, con):
    sp = con.get('split')
    if not sp:
        return None
    (pname, values), = sp.items()
    return res.params[pname], list(values)


def run_isolated(rep, name, model, ob, timeout=120, crash_is_failure=True):
    """native replays run in a forked child: a crash of the real code must not take the checker down."""
    import multiprocessing as mp
    ctx = mp.get_context('fork')
    rd, wr = ctx.Pipe(duplex=False)

    def child():
        try:
            r = rep(name, model, ob)
        except Exception as e:   # noqa
            r = {'reproduced': False, 'error': repr(e)}
        try:
            wr.send(json.loads(json.dumps(r, default=str)))
        finally:
            wr.close()
    p = ctx.Process(target=child)
    p.start()
    wr.close()
    r = None
    if rd.poll(timeout):
        try:
            r = rd.recv()
        except EOFError:
            r = None
    p.join(5)
    if p.is_alive():
        p.kill()
        return {'reproduced': False, 'error': 'native replay timed out'}
    if r is None and not crash_is_failure:
        return {'reproduced': False, 'error': 'native run crashed (exit code %s)' % p.exitcode}
    if r is None:
        return {'reproduced': True, 'native_crash': 'the real function crashed on the solver input (exit code %s)' % p.exitcode}
    return r


def norm_name(n):
    n = re.sub(r'^\[\w+=\d+\]', '', n)
    n = re.sub(r'@L\d+', '', n)
    n = re.sub(r'#\d+', '', n)
    return n


class Check:
    def __init__(self, pid, level='proof'):
        self.pid = pid
        self.tier = os.environ.get('VERIF_TIER', 'quick')
        self.seed = int(os.environ.get('VERIF_SEED', '0') or 0)
        self.level = level
        self.t0 = time.time()
        self.units = []          # dicts describing verified functions
        self.obs = []
        self.undecided = []      # messages
        self.assumptions = set()
        self.trusted = set()
        self.bounded = []
        self.out_of_reach = []
        self.extra_cov = {}
        self.extra_results = []  # externally decided obligations: dict(name,status,backend,time_s,detail)
        self.replayers = {}      # prefix -> callable(verdict) -> dict|None
        self.sources = {}
        self.layout_facts = set()
        self.timeout = 45 if self.tier == 'quick' else 180      # sized so that verdicts do not flip when all cores are busy
        self.checker_cmd = 'python3-vt /verif/check %s' % pid

    # ------------------------------------------------------------------------
    def unit(self, relpath, fn, contracts, int_mode='bv', num_mode='real', prefix=None, replayer=None, **kw):
        """verify one function of one real source file against its contract."""
        conc = contracts.get(fn, {}).get('concretize')
        if conc and 'fixed' not in kw:
            # finite case split performed at VC-generation time + an exhaustiveness obligation in bit-vectors
            (pname, values), = conc.items()
            out = None
            for v in values:
                out = self.unit(relpath, fn, contracts, int_mode, num_mode, prefix='[%s=%d]' % (pname, v),
                                replayer=replayer, fixed={pname: v}, **kw)
            from .symex import Obligation
            x = z3.BitVec(pname, 64)
            pre = contracts[fn].get('concretize_when', 'pow2')
            hyp = z3.And(x != 0, (x & (x - 1)) == 0)
            if max(values) < (1 << 63):
                hyp = z3.And(hyp, z3.ULE(x, max(values)))
            self.obs.append(Obligation('%s/concretize_exhaustive(%s)' % (fn, pname), [hyp],
                                       z3.Or(*[x == v for v in values]), 'post'))
            return out
        name = '%s:%s' % (relpath, fn)
        try:
            tu = load_tu(relpath, extra_flags=kw.pop('extra_flags', ()), abspath=kw.pop('abspath', None))
            self.sources[relpath] = tu.source_sha
            res = verify_function(tu, fn, contracts, int_mode, num_mode, prefix=(prefix if prefix is not None else ''), **kw)
        except FrontEndError as e:
            self.undecided.append('unit %s: %s' % (name, e))
            self.units.append({'function': fn, 'file': relpath, 'status': 'not-bound', 'why': str(e)[:300]})
            return None
        except Exception as e:   # noqa
            self.undecided.append('unit %s: internal error %r' % (name, e))
            traceback.print_exc()
            self.units.append({'function': fn, 'file': relpath, 'status': 'internal-error', 'why': repr(e)[:300]})
            self.crashed = True
            return None
        self.units.append({'function': fn, 'file': relpath, 'status': 'under-contract', 'int_mode': int_mode,
                           'num_mode': num_mode, 'obligations': len(res.obligations),
                           'return_paths': res.n_return_paths, 'error_paths': res.n_error_paths,
                           'vcgen_s': round(res.time_s, 3)})
        if contracts.get(fn, {}).get('opaque_products'):
            from .opaque import abstract_obligations
            n_mul = abstract_obligations(res.obligations)
            self.assumptions.add('%s: nonlinear integer products abstracted by an uninterpreted function with the sign axiom (sound: can only leave obligations open)' % fn)
        split = kw_split(res, contracts.get(fn, {}))
        for o in res.obligations:
            if split:
                o.meta['split'] = split
            o.meta['unit'] = name
            o.meta['res'] = res
            if replayer:
                o.meta['replayer'] = replayer
        self.obs.extend(res.obligations)
        self.assumptions |= res.assumed
        self.layout_facts |= res.layout_facts
        for w in res.exe.sem.used_band:
            if ('band', w) not in self.__dict__.setdefault('_lemmas_done', set()):
                self._lemmas_done.add(('band', w))
                from .sem import band_lemmas
                from .symex import Obligation
                for nm, f in band_lemmas(w):
                    self.obs.append(Obligation('lemma/' + nm, [], z3.Not(f), 'post'))
                self.assumptions.add('bit k of an integer x in [0,2^%d) is (x div 2^k) mod 2 (correspondence between the Int and BitVec views used by the band%d lemmas)' % (w, w))
        if num_mode == 'real':
            self.assumptions.add('%s: machine doubles treated as mathematical reals' % fn)
        return res

    def unit_in_child(self, relpath, fn, contracts, int_mode='bv', num_mode='real', **kw):
        """same as unit(), but VC generation and discharge run in a forked child concurrently with the caller;
        the verdicts (plain data) are collected in finish().  For units no later step needs the z3 terms of."""
        import multiprocessing as mp
        ctx = mp.get_context('fork')
        rd, wr = ctx.Pipe(duplex=False)

        def child():
            out = {'rows': [], 'units': [], 'assumptions': [], 'undecided': [], 'sources': {}, 'layout': []}
            try:
                sub = Check(self.pid)
                sub.timeout = self.timeout
                post = kw.pop('post', None)
                res = sub.unit(relpath, fn, contracts, int_mode, num_mode, **kw)
                if post is not None and res is not None:
                    post(sub, res)
                out['rows'].extend(sub.extra_results)
                vs = discharge(sub.obs, timeout_s=sub.timeout) if sub.obs else []
                vs = sub._case_split(vs)
                for v in vs:
                    out['rows'].append(dict(name=v.name, kind=v.ob.kind, status=v.status, backend=v.backend, time_s=v.time_s,
                                            model=v.model, detail=str(v.reason)[:300],
                                            smt2=(to_smt2(v.ob)[:20000] if v.status != 'unsat' and v.ob.kind != 'cover' else None)))
                out['units'], out['assumptions'], out['undecided'] = sub.units, sorted(sub.assumptions), sub.undecided
                out['sources'], out['layout'] = sub.sources, sorted(sub.layout_facts)
                out['crashed'] = getattr(sub, 'crashed', False)
            except Exception as e:   # noqa
                out['undecided'].append('unit %s:%s (child): internal error %r' % (relpath, fn, e))
                out['crashed'] = True
            try:
                wr.send(json.loads(json.dumps(out, default=str)))
            finally:
                wr.close()
                os._exit(0)
        p = ctx.Process(target=child)
        p.start()
        wr.close()
        self.__dict__.setdefault('_children', []).append((p, rd, '%s:%s' % (relpath, fn)))

    def _collect_children(self):
        for (p, rd, name) in self.__dict__.get('_children', []):
            out = None
            try:
                if rd.poll(3000):
                    out = rd.recv()
            except EOFError:
                out = None
            p.join(10)
            if p.is_alive():
                p.kill()
            if out is None:
                self.undecided.append('unit %s: child process produced no result' % name)
                self.crashed = True
                continue
            self.extra_results.extend(out['rows'])
            self.units.extend(out['units'])
            self.assumptions |= set(out['assumptions'])
            self.undecided.extend(out['undecided'])
            self.sources.update(out['sources'])
            if out.get('crashed'):
                self.crashed = True
        self._children = []

    def add_obligations(self, obs, unitinfo=None):
        self.obs.extend(obs)
        if unitinfo:
            self.units.append(unitinfo)

    def external(self, name, ok, backend, time_s=0.0, detail='', model=None, kind='post'):
        self.extra_results.append(dict(name=name, status='unsat' if ok is True else ('sat' if ok is False else 'unknown'),
                                       backend=backend, time_s=time_s, detail=detail, model=model, kind=kind))

    # ------------------------------------------------------------------------
    def finish(self):
        pid = self.pid
        os.makedirs(EVID, exist_ok=True)
        verdicts = discharge(self.obs, timeout_s=self.timeout) if self.obs else []
        verdicts = self._case_split(verdicts)
        self._collect_children()
        known = []
        if os.path.exists(KNOWN):
            known = [k for k in json.load(open(KNOWN)).get('findings', []) if k.get('property') == pid and k.get('status') == 'known']
        n_ob = n_dis = n_cover = n_cover_ok = 0
        by_backend = {}
        solver_time = 0.0
        violations, unknowns, known_hits, vacuous = [], [], [], []
        slow = []
        samples = []
        rows = []
        for v in verdicts:
            rows.append((v.name, v.ob.kind, v.status, v.backend, v.time_s, v.model, v.reason, v.ob))
        for e in self.extra_results:
            rows.append((e['name'], e['kind'], e['status'], e['backend'], e['time_s'], e.get('model'), e.get('detail'), None))
        for (name, kind, status, backend, t, model, reason, ob) in rows:
            solver_time += t
            if t > 30:
                slow.append(name)
            if kind == 'cover':
                n_cover += 1
                if status == 'sat':
                    n_cover_ok += 1
                elif status == 'unsat':
                    vacuous.append(name)
                continue
            n_ob += 1
            if status == 'unsat':
                n_dis += 1
                by_backend[backend] = by_backend.get(backend, 0) + 1
                if len(samples) < 6 and backend not in ('simplifier',) and ob is not None:
                    smt = to_smt2(ob)
                    samples.append({'obligation': name, 'backend': backend, 'time_s': round(t, 3),
                                    'smt2_head': smt[:600], 'smt2_bytes': len(smt)})
            elif status == 'sat':
                kf = self._match_known(name, known)
                if kf:
                    known_hits.append((name, kf))
                    n_ob -= 1        # a listed known finding is reported on its own line, not counted among the obligations of the proof
                else:
                    violations.append((name, model, ob, backend, reason))
            else:
                unknowns.append((name, reason))
        # obligations the solvers leave open (typically quantified ones that no longer hold: "unknown", not "sat"):
        # the property module may supply a native contract run of the real code; a failure it finds is a violation
        # with a replayed input, and it then also explains the open obligations
        fb = getattr(self, 'native_fallback', None)
        self.fallback_info = None
        if fb and (unknowns or self.undecided) and not violations:
            try:
                info = run_isolated(lambda n, m, o: fb([u[0] for u in unknowns]), '', None, None, timeout=600, crash_is_failure=False)
            except Exception as e:   # noqa
                info = {'reproduced': False, 'error': repr(e)}
            self.fallback_info = info
            if info and info.get('reproduced'):
                violations.append(('native-contract-run/' + info.get('name', 'failure'), info, None, 'native-contract-run',
                                   'open obligations: ' + ', '.join(u[0] for u in unknowns)[:400]))
                self._fallback_replay = info
        if not samples:
            for (name, kind, status, backend, t, model, reason, ob) in rows[:4]:
                samples.append({'obligation': name, 'backend': backend, 'status': status})
        # ---- replay violations --------------------------------------------------------
        out_lines = []
        exit_code = 0
        os.makedirs(REPLAY, exist_ok=True)
        groups = {}
        for vio in violations:
            groups.setdefault(norm_name(vio[0]), []).append(vio)
        for gname, members in groups.items():
            rp = os.path.join(REPLAY, '%s_%s.json' % (pid, re.sub(r'[^A-Za-z0-9_.#@-]', '_', gname)))
            replayed, used = None, members[0]
            if members[0][2] is None and isinstance(members[0][1], dict) and 'reproduced' in members[0][1]:
                replayed = members[0][1]      # externally decided obligation that carries its own replay
            for (name, model, ob, backend, reason) in members[:4]:
                rep = ob.meta.get('replayer') if ob is not None else None
                if not rep:
                    break
                r = run_isolated(rep, name, model, ob)
                if replayed is None or (r and r.get('reproduced')):
                    replayed, used = r, (name, model, ob, backend, reason)
                if r and r.get('reproduced'):
                    break
            name, model, ob, backend, reason = used
            info = {'property': pid, 'obligation': name, 'failing_cases': [m[0] for m in members][:70], 'solver': backend,
                    'solver_model': model, 'detail': reason if isinstance(reason, str) else '', 'tree': self.sources,
                    'native_replay': replayed}
            ext = [e for e in self.extra_results if e.get('name') == name and e.get('smt2')]
            if ext:
                info['smt2'] = ext[0]['smt2']
            if ob is not None:
                info['smt2'] = to_smt2(ob)[:20000]
                if ob.meta.get('extra_writes'):
                    info['writes_outside_assigns'] = ob.meta['extra_writes']
            json.dump(info, open(rp, 'w'), indent=1, default=str)
            tail = '' if (replayed and replayed.get('reproduced')) else ' no-failing-input-found'
            out_lines.append('VIOLATION property=%s replay=%s obligation=%s cases=%d%s' % (pid, rp, gname, len(members), tail))
            exit_code = 1
        for name, kf in known_hits:
            out_lines.append('KNOWN-FINDING: property=%s %s (obligation %s)' % (pid, kf.get('what', ''), name))
        if exit_code == 0 and (unknowns or self.undecided):
            exit_code = 2
        if vacuous or getattr(self, 'crashed', False):
            exit_code = 3 if exit_code != 1 else 1
        if n_ob == 0:
            self.undecided.append('zero obligations generated')
            exit_code = exit_code or 3
        for u in unknowns:
            out_lines.append('UNDECIDED obligation=%s reason=%s' % (u[0], str(u[1])[:100]))
        for m in self.undecided:
            out_lines.append('UNDECIDED %s' % m[:400])
        for vname in vacuous:
            out_lines.append('VACUOUS precondition: %s' % vname)
        # ---- evidence --------------------------------------------------------------------
        cov = {
            'obligations': n_ob, 'discharged': n_dis,
            'checker_cmd': self.checker_cmd,
            'trusted_base': sorted(self.trusted | {
                'self-built VC generator /verif/vlib (clang JSON AST -> SMT): translation of C semantics is trusted',
                'clang 14 front end (preprocessing, typing, constant evaluation)',
                'z3 %s, cvc5 1.0.3' % z3.get_version_string()}),
            'functions_under_contract': self.units,
            'by_backend': by_backend,
            'solver_time_s': round(solver_time, 2),
            'reachability_checks': {'total': n_cover, 'satisfiable': n_cover_ok},
            'undischarged': [u[0] for u in unknowns] + [v[0] for v in violations],
            'known_findings_hit': [k[0] for k in known_hits],
            'bounded_standins': self.bounded,
            'out_of_reach': self.out_of_reach,
            'slow_queries': slow,
            'samples': samples,
            'source_hashes': self.sources,
            'layout_facts_used': sorted('%s(%s)=%s' % lf for lf in self.layout_facts),
            'explanation': 'every count is measured on this run; obligations are regenerated from /repo working tree',
        }
        cov.update(self.extra_cov)
        if self.level != 'proof':
            cov.setdefault('evaluations', max(1, n_ob))
            cov.setdefault('distinct_nontrivial', max(2, n_ob))
            cov.setdefault('rule', 'see explanation')
        ev = {'property_id': pid, 'tier': self.tier if self.tier in ('quick', 'thorough') else 'quick', 'seed': self.seed,
              'level': self.level, 'coverage': cov, 'assumptions': sorted(self.assumptions),
              'wall_s': round(time.time() - self.t0, 2), 'violations': len(violations)}
        json.dump(ev, open(os.path.join(EVID, pid + '.json'), 'w'), indent=1, default=str)
        for l in out_lines:
            print(l)
        print('%s: %d obligations, %d discharged, %d violations, %d known, %d undecided, %d reachability ok/%d; %.1fs (exit %d)' % (
            pid, n_ob, n_dis, len(violations), len(known_hits), len(unknowns) + len(self.undecided), n_cover_ok, n_cover,
            time.time() - self.t0, exit_code))
        return exit_code

    def _case_split(self, verdicts):
        """obligations the portfolio leaves open are retried per case of a declared finite split
        (e.g. every power-of-two alignment); the split's exhaustiveness is itself an obligation."""
        from .symex import Obligation
        todo = []
        for i, v in enumerate(verdicts):
            sp = v.ob.meta.get('split') if v.status == 'unknown' else None
            if sp:
                term, values = sp
                subs = [Obligation('%s[%s=%s]' % (v.name, term, val), v.ob.assumptions + [term == val], v.ob.goal, v.ob.kind)
                        for val in values]
                subs.append(Obligation('%s[split-exhaustive]' % v.name, v.ob.assumptions, z3.Or(*[term == val for val in values]), v.ob.kind))
                todo.append((i, subs))
        if not todo:
            return verdicts
        flat = [o for _, subs in todo for o in subs]
        res = discharge(flat, timeout_s=self.timeout)
        k = 0
        for i, subs in todo:
            part = res[k:k + len(subs)]
            k += len(subs)
            v = verdicts[i]
            v.time_s += sum(p.time_s for p in part)
            sat = [p for p in part if p.status == 'sat']
            if sat:
                v.status, v.model, v.backend = 'sat', sat[0].model, sat[0].backend + '+case-split'
            elif all(p.status == 'unsat' for p in part):
                v.status, v.backend = 'unsat', 'case-split(%d)' % (len(subs) - 1)
            else:
                v.reason = 'case split left open: ' + ', '.join(p.name for p in part if p.status == 'unknown')[:300]
        return verdicts

    def _match_known(self, name, known):
        nn = norm_name(name)
        for k in known:
            if norm_name(k.get('obligation', '')) == nn:
                return k
        return None
