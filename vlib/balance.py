"""Ghost-counter VC for stack mark/free balance (C19: "every public engine call returns with the
stack pointer it started with").

For every function that mentions mj_markStack / mj_freeStack a ghost depth counter is incremented at
each mark and decremented at each free; obligations: depth == 0 at every return, depth >= 0 at every
free, depth unchanged by every loop iteration. Branch conditions are abstracted to Booleans; two
syntactically identical conditions are correlated only when none of the variables they read is assigned
anywhere between function entry and the tests other than by its initialiser (so
`if (x) mark ... if (x) free` is handled). Paths ending in mju_error / mjERROR are exempt (the error
handler does not return). Callees are assumed balanced: each is its own obligation.
"""
from .cast import walk, fn_body, FrontEndError

MARK = {'mj_markStack', 'mj__markStack'}
FREE = {'mj_freeStack', 'mj__freeStack'}
NORETURN = {'mju_error', 'mju_error_i', 'mju_error_s', 'abort', 'exit'}


def callee(n):
    if n.get('kind') != 'CallExpr':
        return None
    f = n['inner'][0]
    while f.get('kind') in ('ImplicitCastExpr', 'ParenExpr'):
        f = f['inner'][0]
    if f.get('kind') == 'DeclRefExpr':
        return f['referencedDecl'].get('name')
    return None


def key_of(n):
    k = n.get('kind')
    if k in ('ParenExpr', 'ImplicitCastExpr', 'CStyleCastExpr'):
        return key_of(n['inner'][0])
    if k == 'DeclRefExpr':
        return 'v:' + n['referencedDecl'].get('name', '?') + ':' + n['referencedDecl']['id']
    if k in ('IntegerLiteral', 'FloatingLiteral', 'CharacterLiteral'):
        return 'c:' + str(n.get('value'))
    if k == 'MemberExpr':
        return 'm:' + n.get('name', '?') + '(' + key_of(n['inner'][0]) + ')'
    parts = [k, n.get('opcode', ''), n.get('name', '')]
    return '(' + ' '.join(p for p in parts if p) + ' ' + ' '.join(key_of(c) for c in n.get('inner', []) if c.get('kind')) + ')'


def is_mjerror_block(n):
    """the compound statement mjERROR(...) expands to: { mjLogMessage _msg = {.level = mjLOG_ERROR, ...}; snprintf(...); mju_message(&_msg); }"""
    if n.get('kind') != 'CompoundStmt':
        return False
    kids = [c for c in n.get('inner', []) if c.get('kind')]
    if len(kids) != 3 or kids[0].get('kind') != 'DeclStmt':
        return False
    decl = [c for c in kids[0].get('inner', []) if c.get('kind') == 'VarDecl']
    if len(decl) != 1 or decl[0].get('name') != '_msg':
        return False
    has_err = any(c.get('kind') == 'DeclRefExpr' and c['referencedDecl'].get('name') == 'mjLOG_ERROR' for c in walk(kids[0]))
    return has_err and callee(kids[2]) == 'mju_message'


def uses_mark(fn):
    for c in walk(fn_body(fn)):
        if callee(c) in MARK | FREE:
            return True
    return False


class Unsupported(Exception):
    pass


class Balance:
    def __init__(self, fn):
        self.fn = fn
        self.problems = []
        # variables assigned after declaration (cannot be used for correlation)
        self.mutable = set()
        self.has_call_effects = False
        for c in walk(fn_body(fn)):
            k = c.get('kind')
            tgt = None
            if k == 'BinaryOperator' and c.get('opcode') == '=':
                tgt = c['inner'][0]
            elif k == 'CompoundAssignOperator':
                tgt = c['inner'][0]
            elif k == 'UnaryOperator' and c.get('opcode') in ('++', '--', '&'):
                tgt = c['inner'][0]
            if tgt is not None:
                for d in walk(tgt):
                    if d.get('kind') == 'DeclRefExpr':
                        self.mutable.add(d['referencedDecl']['id'])
                    if d.get('kind') == 'MemberExpr':
                        self.mutable.add('m:' + d.get('name', ''))

    def stable(self, cond):
        for d in walk(cond):
            k = d.get('kind')
            if k == 'DeclRefExpr' and d['referencedDecl']['id'] in self.mutable:
                return False
            if k == 'MemberExpr' and ('m:' + d.get('name', '')) in self.mutable:
                return False
            if k == 'CallExpr' and callee(d) not in ('__builtin_expect', 'mjENABLED', 'mjDISABLED', 'mj_isSparse'):
                return False
            if k == 'ArraySubscriptExpr':
                return False
        return True

    # state: (depth, frozenset((key, bool)))
    def run(self):
        outs = self.stmt(fn_body(self.fn), {(0, frozenset())})
        for kind, (depth, _), where in outs:
            if kind == 'next' or kind == 'return':
                if depth != 0:
                    self.problems.append('returns with %d unmatched mj_markStack at %s' % (depth, where))
            elif kind in ('break', 'continue'):
                self.problems.append('stray %s' % kind)
        return self.problems

    def scan_calls(self, n, states, where):
        """apply mark/free/noreturn effects of the calls inside an expression (in evaluation order)."""
        res = set()
        dead = False
        for st in states:
            depth, asg = st
            alive = True
            for c in walk(n):
                nm = callee(c)
                if nm in MARK:
                    depth += 1
                elif nm in FREE:
                    depth -= 1
                    if depth < 0:
                        self.problems.append('mj_freeStack without matching mj_markStack at %s' % where)
                        depth = 0
                elif nm in NORETURN:
                    alive = False
                    break
                elif nm == 'mju_message':
                    # mjERROR(...) expansion: level = mjLOG_ERROR in the enclosing compound; handled in s_Compound
                    pass
            if alive:
                res.add((depth, asg))
        return res

    def loc(self, n):
        r = n.get('range', {}).get('begin', {})
        for k in ('expansionLoc', 'spellingLoc'):
            if k in r:
                r = r[k]
        return 'L%s' % r.get('line', '?')

    def is_mjerror_block(self, n):
        return is_mjerror_block(n)

    def stmt(self, n, states):
        """returns list of (kind, state, where)."""
        if not n or not n.get('kind') or not states:
            return [('next', s, '') for s in states]
        k = n['kind']
        where = self.loc(n)
        if k == 'CompoundStmt':
            if self.is_mjerror_block(n):
                return []
            cur = set(states)
            outs = []
            for c in n.get('inner', []):
                if not cur:
                    break
                nxt = set()
                for kind, s, w in self.stmt(c, cur):
                    if kind == 'next':
                        nxt.add(s)
                    else:
                        outs.append((kind, s, w))
                cur = nxt
            return outs + [('next', s, where) for s in cur]
        if k == 'IfStmt':
            inner = n['inner']
            cond, then = inner[0], inner[1]
            els = inner[2] if len(inner) > 2 else None
            states = self.scan_calls(cond, states, where)
            ck = key_of(cond) if self.stable(cond) else None
            outs = []
            t_states, f_states = set(), set()
            for (d, asg) in states:
                if ck is not None:
                    known = dict(asg).get(ck)
                    if known is True:
                        t_states.add((d, asg))
                        continue
                    if known is False:
                        f_states.add((d, asg))
                        continue
                    t_states.add((d, asg | {(ck, True)}))
                    f_states.add((d, asg | {(ck, False)}))
                else:
                    t_states.add((d, asg))
                    f_states.add((d, asg))
            outs += self.stmt(then, t_states)
            outs += self.stmt(els, f_states) if els else [('next', s, where) for s in f_states]
            return outs
        if k in ('ForStmt', 'WhileStmt', 'DoStmt'):
            if k == 'ForStmt':
                init, _, cond, inc, body = n['inner']
                if init and init.get('kind'):
                    states = {s for kind, s, w in self.stmt(init, states) if kind == 'next'}
            elif k == 'WhileStmt':
                cond, body, inc = n['inner'][0], n['inner'][-1], None
            else:
                body, cond, inc = n['inner'][0], n['inner'][1], None
            if cond and cond.get('kind'):
                states = self.scan_calls(cond, states, where)
            outs = []
            exits = set(states) if k != 'DoStmt' else set()
            # correlated facts established inside the loop do not survive an iteration: drop them on exit
            for (d0, asg0) in states:
                for kind, (d, asg), w in self.stmt(body, {(d0, asg0)}):
                    if kind in ('next', 'continue'):
                        if d != d0:
                            self.problems.append('loop at %s changes the mark depth by %+d per iteration' % (where, d - d0))
                        exits.add((d0, asg0))
                    elif kind == 'break':
                        exits.add((d, asg0))
                    else:
                        outs.append((kind, (d, asg), w))
            return outs + [('next', s, where) for s in exits]
        if k == 'SwitchStmt':
            body = n['inner'][-1]
            states = self.scan_calls(n['inner'][0], states, where)
            items = []

            def flat(s):
                if s.get('kind') in ('CaseStmt', 'DefaultStmt'):
                    items.append(('label', s))
                    flat(s['inner'][-1])
                else:
                    items.append(('stmt', s))
            for s in body.get('inner', []):
                if s.get('kind'):
                    flat(s)
            outs = []
            has_default = any(t == 'label' and s['kind'] == 'DefaultStmt' for t, s in items)
            for i, (t, s) in enumerate(items):
                if t != 'label':
                    continue
                cur = set(states)
                for t2, s2 in items[i + 1:]:
                    if t2 != 'stmt' or not cur:
                        continue
                    nxt = set()
                    for kind, st, w in self.stmt(s2, cur):
                        if kind == 'next':
                            nxt.add(st)
                        elif kind == 'break':
                            outs.append(('next', st, w))
                        else:
                            outs.append((kind, st, w))
                    cur = nxt
                outs += [('next', st, where) for st in cur]
            if not has_default:
                outs += [('next', st, where) for st in states]
            return outs
        if k == 'ReturnStmt':
            states = self.scan_calls(n, states, where)
            return [('return', s, where) for s in states]
        if k == 'BreakStmt':
            return [('break', s, where) for s in states]
        if k == 'ContinueStmt':
            return [('continue', s, where) for s in states]
        if k in ('GotoStmt', 'LabelStmt'):
            raise Unsupported('goto/label')
        if k in ('CaseStmt', 'DefaultStmt'):
            return self.stmt(n['inner'][-1], states)
        # expression / declaration statement
        states = self.scan_calls(n, states, where)
        return [('next', s, where) for s in states]


def check_file(tu):
    """returns list of (function, problems|None, note)."""
    res = []
    for name, fn in tu.functions.items():
        if name in MARK | FREE or not uses_mark(fn):
            continue
        try:
            b = Balance(fn)
            res.append((name, b.run(), ''))
        except Unsupported as e:
            res.append((name, None, str(e)))
    return res
