"""Tracing of value-independent straight-line numpy code: the REAL Python function object is executed once with numpy
object arrays whose scalars are symbolic terms (z3 reals).  np.exp maps to a positive symbol per distinct argument
(exp abstraction, listed as an assumption); np.log is the assumed inverse on those symbols.  A pre-pass over the
function's ast rejects it if control flow depends on array values."""
import ast
import importlib.util
import inspect
import sys
import types
from fractions import Fraction
import numpy as np
import z3


class Tracer:
    def __init__(self):
        self.exp_syms = {}       # sexpr(arg) -> (arg term, symbol)
        self.facts = []          # assumptions about introduced symbols (positivity of exp)
        self.log_obligations = []   # (name, formula) the caller must discharge: "argument of log equals exp(x)"

    def sym(self, name):
        return Sym(z3.Real(name), self)

    def lift(self, v):
        if isinstance(v, Sym):
            return v.t
        if isinstance(v, (int, np.integer)):
            return z3.RealVal(int(v))
        if isinstance(v, (float, np.floating)):
            return z3.RealVal(str(Fraction(float(v))))
        raise TypeError('cannot lift %r' % (v,))

    def exp(self, t):
        key = z3.simplify(t).sexpr()
        if key not in self.exp_syms:
            e = z3.Real('exp(%s)' % key)
            self.exp_syms[key] = (t, e)
            self.facts.append(e > 0)
        return self.exp_syms[key][1]


class Sym:

    def __init__(self, t, tr):
        self.t, self.tr = t, tr

    def _bin(self, o, f):
        if isinstance(o, np.ndarray):
            return NotImplemented
        return Sym(z3.simplify(f(self.t, self.tr.lift(o))), self.tr)

    def _rbin(self, o, f):
        if isinstance(o, np.ndarray):
            return NotImplemented
        return Sym(z3.simplify(f(self.tr.lift(o), self.t)), self.tr)

    def __add__(self, o): return self._bin(o, lambda a, b: a + b)
    def __radd__(self, o): return self._rbin(o, lambda a, b: a + b)
    def __sub__(self, o): return self._bin(o, lambda a, b: a - b)
    def __rsub__(self, o): return self._rbin(o, lambda a, b: a - b)
    def __mul__(self, o): return self._bin(o, lambda a, b: a * b)
    def __rmul__(self, o): return self._rbin(o, lambda a, b: a * b)
    def __truediv__(self, o): return self._bin(o, lambda a, b: a / b)
    def __rtruediv__(self, o): return self._rbin(o, lambda a, b: a / b)
    def __neg__(self): return Sym(-self.t, self.tr)
    def __pos__(self): return self

    def exp(self):
        return Sym(self.tr.exp(self.t), self.tr)

    def log(self):
        """assumed: log is the inverse of exp.  The argument must equal one of the exp symbols (possibly after
        cancellation); which one is decided by the solver, and the equality is recorded as an obligation."""
        for key, (arg, e) in self.tr.exp_syms.items():
            s = z3.Solver()
            s.set('timeout', 1500)
            for f in self.tr.facts:
                s.add(f)
            s.add(self.t != e)
            if s.check() == z3.unsat:
                self.tr.log_obligations.append(('log_argument_is_exp(%s)' % key, self.t == e))
                return Sym(arg, self.tr)
        raise ValueError('log of a term that is not provably an exp symbol: %s' % self.t)

    def __bool__(self):
        raise TypeError('control flow depends on a symbolic value')

    def __repr__(self):
        return 'Sym(%s)' % self.t


def value_independent(fn):
    """syntactic pre-pass: no if / while / for / comprehension / conditional expression in the function body."""
    tree = ast.parse(inspect.getsource(fn).lstrip())
    bad = [type(n).__name__ for n in ast.walk(tree) if isinstance(n, (ast.If, ast.While, ast.For, ast.IfExp, ast.ListComp, ast.GeneratorExp, ast.Try))]
    return bad


class patched_numpy:
    """np.zeros / np.eye / np.empty create object arrays while tracing, so symbolic scalars can be stored into them."""

    def __enter__(self):
        self.saved = (np.zeros, np.eye, np.empty)
        z, e, m = self.saved
        np.zeros = lambda shape, *a, **k: z(shape, dtype=object) + 0
        np.eye = lambda n, *a, **k: e(n, *a, **k).astype(int).astype(object)
        np.empty = lambda shape, *a, **k: z(shape, dtype=object) + 0
        return self

    def __exit__(self, *a):
        np.zeros, np.eye, np.empty = self.saved


def load_with_stubs(path, name, stubs):
    """import a repository module by path with the third-party packages it imports replaced by permissive stubs
    (only numpy-only functions of it are then used)."""
    class _Meta(type):
        def __getattr__(cls, k):
            if k.startswith('__'):
                raise AttributeError(k)
            return _Meta(k, (), {})

    class _Any(types.ModuleType):
        def __getattr__(self, k):
            if k.startswith('__'):
                raise AttributeError(k)
            return _Meta(k, (), {})
    saved = {}
    for s in stubs:
        saved[s] = sys.modules.get(s)
        sys.modules[s] = _Any(s)
    try:
        spec = importlib.util.spec_from_file_location(name, path)
        mod = importlib.util.module_from_spec(spec)
        spec.loader.exec_module(mod)
        return mod
    finally:
        for s, v in saved.items():
            if v is None:
                sys.modules.pop(s, None)
            else:
                sys.modules[s] = v
