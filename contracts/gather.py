"""C23 contracts: the data-movement routines (gather / scatter), integer mode math, mjtNum opaque (only moved, never computed)."""
from contracts.state import CONTRACTS as STATE

SIZES = '0 <= n and n < 2**30 and 0 <= LEN and LEN < 2**30'
IND_OK = 'forall(lambda i: implies(0 <= i and i < n, 0 <= ind[i] and ind[i] < LEN))'
# ghost inverse of an injective index list: inv[k] = the i with ind[i] == k, or -1 when position k is not indexed
INV_OK = ('forall(lambda i: implies(0 <= i and i < n, inv[ind[i]] == i)) and '
          'forall(lambda k: implies(0 <= k and k < LEN, inv[k] == -1 or (0 <= inv[k] and inv[k] < n and ind[inv[k]] == k)))')


def gather(masked=False):
    src = '(vec[ind[i]] if ind[i] >= 0 else num_of_int(0))' if masked else 'vec[ind[i]]'
    ind_ok = IND_OK.replace('0 <= ind[i] and', '-2**31 <= ind[i] and') if masked else IND_OK
    return {
        'ghost_params': {'LEN': 'int'},
        'params': {'res': {'len': 'n'}, 'vec': {'len': 'LEN'}, 'ind': {'len': 'n'}},
        'requires': {'sizes': SIZES, 'indices_in_range': ind_ok},
        'assigns': ['res[*]'],
        'ensures': {'gathered': 'forall(lambda i: implies(0 <= i and i < n, res[i] == %s))' % src},
        'loops': {0: {'invariant': {'range': '0 <= i and i <= n',
                                    'done': 'forall(lambda k: implies(0 <= k and k < i, res[k] == %s))' % src.replace('[i]', '[k]')}}},
        'no_error': True,
    }


def scatter():
    return {
        'ghost_params': {'LEN': 'int', 'inv': 'array'},
        'params': {'res': {'len': 'LEN'}, 'vec': {'len': 'n'}, 'ind': {'len': 'n'}},
        'requires': {'sizes': SIZES, 'indices_in_range': IND_OK, 'indices_distinct_with_inverse': INV_OK},
        'assigns': ['res[*]'],
        'ensures': {'scattered_and_rest_untouched': 'forall(lambda k: implies(0 <= k and k < LEN, res[k] == (vec[inv[k]] if inv[k] >= 0 else old(res[k]))))'},
        'loops': {0: {'invariant': {'range': '0 <= i and i <= n',
                                    'done': 'forall(lambda k: implies(0 <= k and k < LEN, res[k] == (vec[inv[k]] if (inv[k] >= 0 and inv[k] < i) else old(res[k]))))'}}},
        'no_error': True,
    }


ROUNDTRIP = {
    'ghost_params': {'LEN': 'int', 'inv': 'array'},
    'params': {'res': {'len': 'n'}, 'tmp': {'len': 'LEN'}, 'vec': {'len': 'n'}, 'ind': {'len': 'n'}},
    'requires': {'sizes': SIZES, 'indices_in_range': IND_OK, 'indices_distinct_with_inverse': INV_OK},
    'assigns': ['res[*]', 'tmp[*]'],
    'ensures': {'gather_inverts_scatter': 'forall(lambda i: implies(0 <= i and i < n, res[i] == vec[i]))'},
    'ghost_args': {'mju_scatter': {'LEN': 'LEN', 'inv': 'inv'}, 'mju_gather': {'LEN': 'LEN'},
                   'mju_scatterInt': {'LEN': 'LEN', 'inv': 'inv'}, 'mju_gatherInt': {'LEN': 'LEN'}},
    'no_error': True,
}


def contracts(null_ind=False):
    C = {'__defs__': {}, 'mju_copy': STATE['mju_copy']}
    g, s = gather(), scatter()
    if null_ind:
        for c in (g, s):
            c['params'] = dict(c['params'], ind={'null': True})
            c['requires'] = {'sizes': SIZES + ' and LEN == n'}
            c.pop('loops')
        g['ensures'] = {'copied': 'forall(lambda i: implies(0 <= i and i < n, res[i] == vec[i]))'}
        s['ghost_params'] = {'LEN': 'int'}
        s['ensures'] = {'copied': 'forall(lambda i: implies(0 <= i and i < n, res[i] == vec[i]))'}
    C.update({'mju_gather': g, 'mju_scatter': s, 'mju_gatherMasked': gather(True), 'mju_gatherInt': gather(), 'mju_scatterInt': scatter(),
              'c23_roundtrip': ROUNDTRIP, 'c23_roundtrip_int': ROUNDTRIP})
    return C


# row-wise data movement on CSR matrices (engine_util_sparse.c): res[row, :] = mat[row, :] and res[row, :] = 0 for the listed rows
CSR_OK = ('forall(lambda r: implies(0 <= r and r < NR, 0 <= rowadr[r] and 0 <= rownnz[r] and rowadr[r] + rownnz[r] <= NNZ)) and '
          'forall(lambda i: implies(0 <= i and i < nrow, 0 <= row[i] and row[i] < NR))')
COPIED = lambda upto: ('forall(lambda i, k: implies(0 <= i and i < %s and 0 <= k and k < rownnz[row[i]], res[rowadr[row[i]] + k] == mat[rowadr[row[i]] + k]))' % upto)
ZEROED = lambda upto: ('forall(lambda i, k: implies(0 <= i and i < %s and 0 <= k and k < rownnz[row[i]], res[rowadr[row[i]] + k] == num_zero()))' % upto)
COPY_SPARSE = {
    'ghost_params': {'NR': 'int', 'NNZ': 'int'},
    'params': {'res': {'len': 'NNZ'}, 'mat': {'len': 'NNZ'}, 'rownnz': {'len': 'NR'}, 'rowadr': {'len': 'NR'}, 'row': {'len': 'nrow'}},
    'requires': {'sizes': '0 <= nrow and nrow < 2**30 and 0 <= NR and NR < 2**30 and 0 <= NNZ and NNZ < 2**30', 'csr_rows_inside_the_value_arrays': CSR_OK},
    'assigns': ['res[*]'],
    'ensures': {'listed_rows_are_copied': COPIED('nrow')},
    'loops': {0: {'invariant': {'range': '0 <= i and i <= nrow', 'done': COPIED('i').replace('lambda i, k', 'lambda q, k').replace('row[i]', 'row[q]').replace('0 <= i and i <', '0 <= q and q <')}}},
    'no_error': True,
}
ZERO_SPARSE = {
    'ghost_params': {'NR': 'int', 'NNZ': 'int'},
    'params': {'res': {'len': 'NNZ'}, 'rownnz': {'len': 'NR'}, 'rowadr': {'len': 'NR'}, 'row': {'len': 'nrow'}},
    'requires': {'sizes': '0 <= nrow and nrow < 2**30 and 0 <= NR and NR < 2**30 and 0 <= NNZ and NNZ < 2**30', 'csr_rows_inside_the_value_arrays': CSR_OK},
    'assigns': ['res[*]'],
    'ensures': {'listed_rows_are_zeroed': ZEROED('nrow')},
    'loops': {0: {'invariant': {'range': '0 <= i and i <= nrow', 'done': ZEROED('i').replace('lambda i, k', 'lambda q, k').replace('row[i]', 'row[q]').replace('0 <= i and i <', '0 <= q and q <')}}},
    'no_error': True,
}


def sparse_contracts():
    from contracts.sleep import ZERO
    return {'__defs__': {}, 'mju_copy': STATE['mju_copy'], 'mju_zero': ZERO, 'mju_copySparse': COPY_SPARSE, 'mju_zeroSparse': ZERO_SPARSE}
