"""C50 contracts: scene geom buffer discipline (src/engine/engine_vis_visualize.c), math ints, opaque floats."""

DEFS = {'INV': '0 <= scn.ngeom and scn.ngeom <= scn.maxgeom and scn.maxgeom < 2**31 - 1'}
SCN = {'n': 1, 'ptrfields': {'geoms': {'len': 'scn.maxgeom'}}}

CONTRACTS = {
    '__defs__': DEFS,
    'mjv_initGeom': {      # engine_vis_init.c: fills in the fields of ONE geom (assumed; it takes no scene)
        'assumed': True, 'requires': {}, 'assigns': ['geom[*]'],
        'ensures': {'only_this_geom': 'forall(lambda k: implies(k != off(geom), at(geom, k).segid == old(at(geom, k).segid)'
                                       ' and at(geom, k).objid == old(at(geom, k).objid) and at(geom, k).type == old(at(geom, k).type)))'},
    },
    'acquireGeom': {
        'requires': {'inv': 'INV'},
        'params': {'scn': SCN},
        'assigns': ['scn.status', 'scn.geoms[*]'],
        'ensures': {
            'null_iff_full': 'iff(result == NULL, old(scn.ngeom) >= old(scn.maxgeom))',
            'full_sets_status': 'implies(result == NULL, scn.status != 0)',
            'count_unchanged': 'scn.ngeom == old(scn.ngeom) and scn.maxgeom == old(scn.maxgeom)',
            'returns_next_slot': 'implies(result != NULL, same_obj(result, scn.geoms) and off(result) == scn.ngeom)',
            'segid_is_slot': 'implies(result != NULL, scn.geoms[scn.ngeom].segid == scn.ngeom)',
            'earlier_geoms_untouched': 'forall(lambda k: implies(0 <= k and k < scn.ngeom, scn.geoms[k].segid == old(scn.geoms[k].segid)'
                                       ' and scn.geoms[k].objid == old(scn.geoms[k].objid) and scn.geoms[k].type == old(scn.geoms[k].type)))',
            'inv': 'INV',
        },
        'no_error': True,
    },
    'releaseGeom': {
        'requires': {'inv': 'INV'},
        'params': {'scn': SCN, 'geom': {'n': 1, 'ct': 'mjvGeom *'}},
        'assigns': ['scn.ngeom', 'geom[*]'],
        'ensures': {
            'counts_one_more': 'scn.ngeom == old(scn.ngeom) + 1',
            'pointer_cleared': 'geom[0] == NULL',
            'stays_within_capacity': 'scn.ngeom <= scn.maxgeom',
        },
        # the error exit is taken exactly when the pointer is not the most recently acquired slot
        'error_only_if': 'not (same_obj(old(geom[0]), old(scn.geoms)) and off(old(geom[0])) == old(scn.ngeom)) or old(geom[0]) == NULL',
    },
}
