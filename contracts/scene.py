"""C50 contracts: scene geom buffer discipline (src/engine/engine_vis_visualize.c), math ints, opaque floats."""

DEFS = {'INV': '0 <= scn.ngeom and scn.ngeom <= scn.maxgeom and scn.maxgeom < 2**31 - 1'}
SCN = {'n': 1, 'ptrfields': {'geoms': {'len': 'scn.maxgeom'}}}

CONTRACTS = {
    '__defs__': DEFS,
    'mjv_initGeom': {      # engine_vis_init.c: fills in the fields of ONE geom (assumed; it takes no scene)
        'assumed': True, 'requires': {}, 'assigns': ['geom[*]'],
        'ensures': {'only_this_geom': 'forall(lambda k: implies(k != off(geom), at(geom, k).segid == old(at(geom, k).segid)'
                                       ' and at(geom, k).objid == old(at(geom, k).objid) and at(geom, k).type == old(at(geom, k).type)'
                                       ' and at(geom, k).objtype == old(at(geom, k).objtype) and at(geom, k).category == old(at(geom, k).category)))',},
    },
    'acquireGeom': {
        'requires': {'inv': 'INV'},
        'params': {'scn': SCN},
        'assigns': ['scn.status', 'scn.geoms[*]'],
        'ensures': {
            'null_iff_full': 'iff(result == NULL, old(scn.ngeom) >= old(scn.maxgeom))',
            'full_sets_status': 'implies(result == NULL, scn.status != 0)',
            'count_unchanged': 'scn.ngeom == old(scn.ngeom) and scn.maxgeom == old(scn.maxgeom)',
            'returns_next_slot': 'implies(result != NULL, same_obj(result, scn.geoms) and off(result) == scn.ngeom)',
            'segid_is_slot': 'implies(result != NULL, scn.geoms[scn.ngeom].segid == scn.ngeom)',
            'slot_identifies_the_object_it_was_acquired_for': 'implies(result != NULL, scn.geoms[scn.ngeom].objid == objid and scn.geoms[scn.ngeom].objtype == objtype and scn.geoms[scn.ngeom].category == category)',
            'earlier_geoms_untouched': 'forall(lambda k: implies(0 <= k and k < scn.ngeom, scn.geoms[k].segid == old(scn.geoms[k].segid)'
                                       ' and scn.geoms[k].objid == old(scn.geoms[k].objid) and scn.geoms[k].type == old(scn.geoms[k].type)'
                                       ' and scn.geoms[k].objtype == old(scn.geoms[k].objtype) and scn.geoms[k].category == old(scn.geoms[k].category)))',
            'inv': 'INV',
        },
        'no_error': True,
    },
    'releaseGeom': {
        'requires': {'inv': 'INV'},
        'params': {'scn': SCN, 'geom': {'n': 1, 'ct': 'mjvGeom *'}},
        'assigns': ['scn.ngeom', 'geom[*]'],
        'ensures': {
            'counts_one_more': 'scn.ngeom == old(scn.ngeom) + 1',
            'pointer_cleared': 'geom[0] == NULL',
            'stays_within_capacity': 'scn.ngeom <= scn.maxgeom',
        },
        # the error exit is taken exactly when the pointer is not the most recently acquired slot
        'error_only_if': 'not (same_obj(old(geom[0]), old(scn.geoms)) and off(old(geom[0])) == old(scn.ngeom)) or old(geom[0]) == NULL',
    },
    'mju_n2f': {'assumed': True, 'requires': {'n': 'n >= 0'}, 'assigns': ['res[*]'],      # mjtNum -> float copy; the rounding to float is not modelled (opaque values pass through casts)
                'ensures': {'copied': 'forall(lambda j: implies(0 <= j and j < n, res[j] == vec[j]))'}},
}

# mjv_initGeom on its real body: which fields it writes (frame) and the integer fields it sets; used by acquireGeom / addGeom* through the
# assumed form above, so this unit is what backs "it fills in ONE geom and leaves the identifying fields alone"
WRITTEN = ['type', 'size[*]', 'pos[*]', 'mat[*]', 'rgba[*]', 'dataid', 'matid', 'texid', 'texuniform', 'texrepeat[*]', 'texcoord', 'emission', 'specular', 'shininess',
           'reflectance', 'label[*]', 'modelrbound']
INIT_GEOM = {
    'params': {'geom': {'n': 1}, 'size': {'n': 3, 'nullable': True}, 'pos': {'n': 3, 'nullable': True}, 'mat': {'n': 9, 'nullable': True}, 'rgba': {'n': 4, 'nullable': True}},
    'requires': {},
    'assigns': ['geom.' + w for w in WRITTEN],
    'ensures': {
        'type_is_the_argument': 'geom.type == type',
        'integer_defaults': 'geom.dataid == -1 and geom.matid == -1 and geom.texid == -1 and geom.texuniform == 0 and geom.texcoord == 0',
        'size_follows_the_geom_type': 'implies(size != NULL, (geom.size[0] == size[0] and geom.size[1] == size[0] and geom.size[2] == size[0]) if type == mjGEOM_SPHERE else '
                                      '((geom.size[0] == size[0] and geom.size[1] == size[0] and geom.size[2] == size[1]) if (type == mjGEOM_CAPSULE or type == mjGEOM_CYLINDER) else '
                                      '(geom.size[0] == size[0] and geom.size[1] == size[1] and geom.size[2] == size[2])))',
        'pose_is_the_given_pose': 'implies(pos != NULL, geom.pos[0] == pos[0] and geom.pos[1] == pos[1] and geom.pos[2] == pos[2]) and '
                                  'implies(mat != NULL, And(*[geom.mat[j] == mat[j] for j in (0, 1, 2, 3, 4, 5, 6, 7, 8)]))',
        'identifying_fields_untouched': 'geom.objid == old(geom.objid) and geom.objtype == old(geom.objtype) and geom.category == old(geom.category) and geom.segid == old(geom.segid)',
    },
    'no_error': True,
}


# addGeomGeoms: the model geoms whose category is unmasked and whose (clamped) group is enabled are added in index order, each through
# acquireGeom / mjv_initGeom with its own world pose and size; nothing is written beyond the scene capacity.
from contracts import modeltab
NGROUP = modeltab.int_macros()['mjNGROUP']        # read from mjvisualize.h on every run
GRP = 'imax(0, imin(%d - 1, m.geom_group[g]))' % NGROUP
CAT = '(mjCAT_STATIC if m.body_weldid[m.geom_bodyid[g]] == 0 else mjCAT_DYNAMIC)'
ADD_DEFS = {
    'SHOWN': 'lambda g: (band(%s, catmask) != 0) and vopt.geomgroup[%s] != 0' % (CAT, GRP),
    'band': "lambda x, y: z3.Function('band32', z3.IntSort(), z3.IntSort(), z3.IntSort())(x % 2**32, y % 2**32)",
    'N0': 'old(scn.ngeom)',
}
M_GEOM = {'n': 1, 'ptrfields': dict({k: {'len': 'm.ngeom'} for k in ('geom_type', 'geom_bodyid', 'geom_group', 'geom_dataid', 'geom_rbound', 'geom_matid', 'geom_contype', 'geom_conaffinity')},
                                    **{'geom_size': {'len': '3 * m.ngeom'}, 'geom_rgba': {'len': '4 * m.ngeom'}, 'body_weldid': {'len': 'm.nbody'}, 'body_dofnum': {'len': 'm.nbody'},
                                       'body_dofadr': {'len': 'm.nbody'}, 'dof_treeid': {'len': 'm.nv'}, 'tree_dofadr': {'len': 'm.ntree'}, 'mesh_texcoordadr': {'len': 'm.nmesh'},
                                       'mesh_graphadr': {'len': 'm.nmesh'}, 'mat_texrepeat': {'len': '2 * m.nmat'}})}
D_GEOM = {'n': 1, 'ptrfields': {'geom_xpos': {'len': '3 * m.ngeom'}, 'geom_xmat': {'len': '9 * m.ngeom'}, 'dof_island': {'len': 'm.nv'}, 'island_dofadr': {'len': 'd.nisland'},
                                'body_awake': {'len': 'm.nbody'}, 'tree_asleep': {'len': 'm.ntree'}}}
ASSUMED_FRAME = lambda tgt: {'assumed': True, 'requires': {}, 'assigns': tgt, 'ensures': {}}
ADD_GEOMS = {
    'params': {'m': M_GEOM, 'd': D_GEOM, 'vopt': {'n': 1}, 'pert': {'n': 1}, 'scn': SCN},
    'defs': ADD_DEFS,
    'requires': {
        'inv': 'INV',
        'sizes': ' and '.join('0 <= m.%s and m.%s < 2**28' % (k, k) for k in ('ngeom', 'nbody', 'nv', 'ntree', 'nmesh', 'nmat')) + ' and 0 <= d.nisland and d.nisland < 2**28 and m.nbody >= 1',
        'model_ids': 'forall(lambda g: implies(0 <= g and g < m.ngeom, 0 <= m.geom_bodyid[g] and m.geom_bodyid[g] < m.nbody and -1 <= m.geom_matid[g] and m.geom_matid[g] < m.nmat and '
                     'implies((m.geom_type[g] == mjGEOM_MESH or m.geom_type[g] == mjGEOM_SDF), 0 <= m.geom_dataid[g] and m.geom_dataid[g] < m.nmesh))) and '
                     'forall(lambda b: implies(0 <= b and b < m.nbody, 0 <= m.body_weldid[b] and m.body_weldid[b] < m.nbody and 0 <= m.body_dofnum[b] and '
                     'implies(m.body_dofnum[b] > 0, 0 <= m.body_dofadr[b] and m.body_dofadr[b] < m.nv))) and '
                     'forall(lambda q: implies(0 <= q and q < m.nv, 0 <= m.dof_treeid[q] and m.dof_treeid[q] < m.ntree and -1 <= d.dof_island[q] and d.dof_island[q] < d.nisland))',
    },
    'assigns': ['scn.status', 'scn.ngeom', 'scn.geoms[*]'],
    'ensures': {
        'never_beyond_capacity': 'INV and scn.ngeom >= N0',
        'added_slots_are_model_geoms_with_their_slot_number': 'forall(lambda k: implies(N0 <= k and k < scn.ngeom, scn.geoms[k].objtype == mjOBJ_GEOM and 0 <= scn.geoms[k].objid and scn.geoms[k].objid < m.ngeom and scn.geoms[k].segid == k))',
        'only_geoms_of_an_unmasked_category_and_enabled_group_are_added': 'forall(lambda k: implies(N0 <= k and k < scn.ngeom, SHOWN(scn.geoms[k].objid)))',
        'added_in_index_order': 'forall(lambda k: implies(N0 < k and k < scn.ngeom, scn.geoms[k - 1].objid < scn.geoms[k].objid))',
        'earlier_scene_geoms_keep_their_identity': 'forall(lambda k: implies(0 <= k and k < N0, scn.geoms[k].objid == old(scn.geoms[k].objid) and scn.geoms[k].objtype == old(scn.geoms[k].objtype) and scn.geoms[k].segid == old(scn.geoms[k].segid)))',
    },
    'loops': {0: {'invariant': {
        'range': '0 <= i and i <= m.ngeom and INV and scn.ngeom >= N0 and planeid >= -1 and planeid < i',
        'added_are_model_geoms': 'forall(lambda k: implies(N0 <= k and k < scn.ngeom, scn.geoms[k].objtype == mjOBJ_GEOM and 0 <= scn.geoms[k].objid and scn.geoms[k].objid < i and scn.geoms[k].segid == k))',
        'added_are_shown': 'forall(lambda k: implies(N0 <= k and k < scn.ngeom, SHOWN(scn.geoms[k].objid)))',
        'added_in_index_order': 'forall(lambda k: implies(N0 < k and k < scn.ngeom, scn.geoms[k - 1].objid < scn.geoms[k].objid))',
        'earlier': 'forall(lambda k: implies(0 <= k and k < N0, scn.geoms[k].objid == old(scn.geoms[k].objid) and scn.geoms[k].objtype == old(scn.geoms[k].objtype) and scn.geoms[k].segid == old(scn.geoms[k].segid)))',
    }}, 1: {'unroll': 3}, 2: {'unroll': 2}},
}


def _n2f_writes_n_elements(exe, st, env):
    """frame of mju_n2f(res, vec, n) with a concrete n: exactly the n cells res[0..n) are overwritten (the generic 'res[*]' frame would forget
    the same field of every other scene geom)"""
    import z3
    p = env.eval('res')._p
    n = z3.simplify(env.eval('n'))
    if not z3.is_int_value(n):
        from vlib.cast import FrontEndError
        raise FrontEndError('mju_n2f with a symbolic count')
    for j in range(n.as_long()):
        q = exe._normalize(exe.ptr_add(p, j))
        exe.nsym += 1
        st.store(q, exe.sem.fresh('n2f#%d' % exe.nsym, q.ct))
        if exe.flow.write_log is not None:
            exe.flow.write_log.add((q.obj.id, q.path))
        if exe.flow.discovery:
            st.ghost['$w'] = st.ghost.get('$w', frozenset()) | {(q.obj.id, q.path)}


def _acquired_slot(exe, st, args, node):
    """caller-side result of acquireGeom: the address of slot scn->ngeom of scn->geoms, NULL exactly when the scene is full (the
    proved postconditions null_iff_full / returns_next_slot, as a pointer value)"""
    scn = args[0]
    fld = lambda f: st.load(exe._normalize(scn.with_(path=scn.path + (f,), ct=scn.ct.field(f))))
    geoms, ngeom, maxgeom = fld('geoms'), fld('ngeom'), fld('maxgeom')
    return exe.ptr_add(geoms, ngeom).with_(isnull=ngeom >= maxgeom)


def add_contracts():
    C = dict(CONTRACTS)
    C['__defs__'] = dict(DEFS)
    C['__auto_inline__'] = True        # small helpers of the same file without a contract are executed in place
    acq = dict(CONTRACTS['acquireGeom'], result=_acquired_slot)
    acq['ensures'] = {k: v for k, v in acq['ensures'].items() if k != 'returns_next_slot'}
    C['acquireGeom'] = acq
    C.update({
        'addGeomGeoms': ADD_GEOMS, 'bodycategory': {'inline': True},
        # proved on its own body above; plus "it writes only the geom it is given" (it stores through geom-> only)
        'mjv_initGeom': dict(INIT_GEOM, assumed=True, ensures=dict({k: v for k, v in INIT_GEOM['ensures'].items() if k in ('type_is_the_argument', 'identifying_fields_untouched')},
                                                                     **CONTRACTS['mjv_initGeom']['ensures'])),
        'setMaterial': ASSUMED_FRAME(['geom.matid', 'geom.texuniform', 'geom.texrepeat[*]', 'geom.emission', 'geom.specular', 'geom.shininess', 'geom.reflectance', 'geom.rgba[*]', 'geom.texid']),
        'islandColor': ASSUMED_FRAME(['rgba[*]']), 'markselected': ASSUMED_FRAME(['geom.emission', 'geom.rgba[*]', 'geom.specular', 'geom.shininess']),
        'makeLabel': ASSUMED_FRAME(['label[*]']),
        'mju_n2f': dict(CONTRACTS['mju_n2f'], assigns=[_n2f_writes_n_elements]),
        'mju_copy3': ASSUMED_FRAME(['res[*]']), 'mju_transpose': ASSUMED_FRAME(['res[*]']), 'mju_addToScl3': ASSUMED_FRAME(['res[*]']),
        'mju_dot3': {'assumed': True, 'requires': {}, 'assigns': [], 'pure': True, 'ensures': {}},
        'mju_round': {'assumed': True, 'requires': {}, 'assigns': [], 'pure': True, 'ensures': {}},
        'mj_sleepCycle': {'assumed': True, 'requires': {}, 'assigns': [], 'pure': True, 'ensures': {'a_tree_of_the_cycle': '0 <= result and result < ntree'}},      # called for a sleeping tree; its cycle is intact (C18)
    })
    return C


# bodycategory: a body is static exactly when it is welded to the world
BODYCAT = {
    'params': {'m': {'n': 1, 'ptrfields': {'body_weldid': {'len': 'm.nbody'}, 'body_dofnum': {'len': 'm.nbody'}}}},
    'requires': {'body': '0 <= bodyid and bodyid < m.nbody and m.nbody < 2**30',
                 'weld_ids': 'forall(lambda b: implies(0 <= b and b < m.nbody, 0 <= m.body_weldid[b] and m.body_weldid[b] < m.nbody))'},
    'assigns': [],
    'ensures': {'static_iff_welded_to_the_world': 'result == (mjCAT_STATIC if m.body_weldid[bodyid] == 0 else mjCAT_DYNAMIC)'},
    'no_error': True,
}
