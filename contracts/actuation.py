"""C30 (prefix contract): the bad-control check at the start of mj_fwdActuation (engine_forward.c), math ints, fp doubles.

The unit is a PREFIX of mj_fwdActuation: the path is verified from the function entry up to the exit of the control-check loop
(clear actuator_force, early return when actuation is off, local copy of ctrl, clamping, the isBad scan) and stops there; the
activation dynamics and force computation that follow are not part of the verified text."""
from contracts import check, arena, state, sleep, clamp

DEFS = dict(check.DEFS)
DEFS.update(clamp.DEFS)
DEFS.update({
    'NU': 'm.nu',
    'CLAMP_ON': '((m.opt.disableflags % 4294967296) / mjDSBL_CLAMPCTRL) % 2 == 0',
    'BADCTRL_SEEN': 'exists(lambda k: 0 <= k and k < NU and bad(entry(ctrl[k])))',
})

STACK_ALLOC = {     # caller-side contract of the stack allocator (its body is verified under C19): a fresh block of `bytes` bytes, or no return
    'assumed': True, 'requires': {}, 'assigns': ['d.pstack', 'd.maxuse_stack'], 'ensures': {},
    'nullable_result': False, 'result_bytes': 'bytes',
}
MARK = {'assumed': True, 'requires': {}, 'assigns': ['d.pbase', 'd.pstack'], 'ensures': {}}
READ_CTRL = {'assumed': True, 'requires': {}, 'assigns': [], 'pure': True, 'ensures': {}}       # delayed controls: any value (history buffer not modelled)
CLAMP = clamp.CLAMP_ANY     # the any-input view of clampVec, proved on its real body (props/C27.py, prefix [any-input])

FWD_ACT = {
    'params': {'m': {'n': 1, 'ptrfields': {'actuator_ctrladr': {'len': 'm.nactuator'}, 'actuator_ctrlnum': {'len': 'm.nactuator'}, 'actuator_delay': {'len': 'm.nactuator'},
                                           'actuator_history': {'len': '2 * m.nactuator'}, 'actuator_ctrlrange': {'len': '2 * m.nu'}, 'actuator_ctrllimited': {'len': 'm.nu'}}},
               'd': {'n': 1, 'ptrfields': {'actuator_force': {'len': 'm.nout'}, 'qfrc_actuator': {'len': 'm.nv'}, 'ctrl': {'len': 'm.nu'}}}},
    'defs': {},
    'requires': {
        'sizes': '0 <= m.nv and m.nv < 2**28 and 0 <= m.nu and m.nu < 2**28 and 0 <= m.nactuator and m.nactuator < 2**28 and 0 <= m.nout and m.nout < 2**28',
        'control_blocks': 'forall(lambda a: implies(0 <= a and a < m.nactuator, 0 <= m.actuator_ctrladr[a] and 0 <= m.actuator_ctrlnum[a] and m.actuator_ctrladr[a] + m.actuator_ctrlnum[a] <= m.nu and '
                          'implies(m.actuator_delay[a] != fp(0.0), m.actuator_ctrladr[a] < m.nu)))',
        'timer_counter_fits_an_int': 'd.timer[mjTIMER_ACTUATION].number >= 0 and d.timer[mjTIMER_ACTUATION].number < 2**31 - 1',
        'limited_control_ranges_are_ordered': 'forall(lambda k: implies(0 <= k and k < m.nu and m.actuator_ctrllimited[k] != 0, fpLEQ(m.actuator_ctrlrange[2*k], m.actuator_ctrlrange[2*k+1])))',
        'counters': 'forall(lambda w: implies(0 <= w and w < mjNWARNING, d.warning[w].number >= 0 and d.warning[w].number < 2**31 - 2))',
    },
    'assigns': ['d.*nonptr', 'd.actuator_force[*]', 'd.qfrc_actuator[*]'],
    'ensures': {},
    'loops': {
        0: {'invariant': {'range': '0 <= i and i <= nactuator and nactuator == m.nactuator and nu == m.nu',
                          'warnings_untouched': 'forall(lambda w: implies(0 <= w and w < mjNWARNING, d.warning[w].number == old(d.warning[w].number)))'}},
        1: {'invariant': {'range': '0 <= i and i <= nu and nu == m.nu',
                          'good_so_far': 'forall(lambda k: implies(0 <= k and k < i, not bad(ctrl[k])))',
                          'controls_untouched': 'forall(lambda k: implies(0 <= k and k < nu, ctrl[k] == entry(ctrl[k])))',
                          'warnings_untouched': 'forall(lambda w: implies(0 <= w and w < mjNWARNING, d.warning[w].number == old(d.warning[w].number)))'},
            'stop_after': {
                'a_bad_control_zeroes_every_control': 'implies(BADCTRL_SEEN, forall(lambda k: implies(0 <= k and k < NU, ctrl[k] == fp(0.0))))',
                'a_bad_control_is_counted_once': 'implies(BADCTRL_SEEN, cnt(mjWARN_BADCTRL) == old(cnt(mjWARN_BADCTRL)) + 1)',
                'the_warning_names_a_bad_control': 'implies(BADCTRL_SEEN, forall(lambda q: implies(q == d.warning[mjWARN_BADCTRL].lastinfo, 0 <= q and q < NU and bad(entry(ctrl[q])))))',
                'good_controls_pass_unchanged_and_uncounted': 'implies(not (BADCTRL_SEEN), forall(lambda k: implies(0 <= k and k < NU, ctrl[k] == entry(ctrl[k]))) and '
                                                              'forall(lambda w: implies(0 <= w and w < mjNWARNING, d.warning[w].number == old(d.warning[w].number))))',
                'limited_controls_end_inside_ctrlrange_unless_clamping_is_disabled': 'implies(CLAMP_ON, forall(lambda k: implies(0 <= k and k < NU and m.actuator_ctrllimited[k] != 0, '
                                                                                     'inrange(ctrl[k], m.actuator_ctrlrange[2*k], m.actuator_ctrlrange[2*k+1]) or ctrl[k] == fp(0.0))))',
                'other_warnings_untouched': 'forall(lambda w: implies(0 <= w and w < mjNWARNING and w != mjWARN_BADCTRL, d.warning[w].number == old(d.warning[w].number)))',
            }},
    },
}


def contracts():
    return {'__defs__': DEFS, '__callbacks__': ('mjcb_time',),
            'mj_fwdActuation': FWD_ACT, 'mj_stackAllocInfo': STACK_ALLOC, 'mj_markStack': MARK, 'mj_readCtrl': READ_CTRL, 'clampVec': CLAMP,
            'mju_isBad': check.CONTRACTS['mju_isBad'], 'mj_warning': arena.CONTRACTS['mj_warning'], 'mju_copy': state.CONTRACTS['mju_copy'], 'mju_zero': sleep.ZERO}
