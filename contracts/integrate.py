"""C05 contracts: the activation update (src/engine/engine_support.c), real arithmetic; exp abstracted as a positive symbol."""
from contracts import modeltab

DEFS = {k: str(v) for k, v in modeltab.int_macros().items()}
DEFS.update({'A0': 'd.act[act_adr]', 'H': 'm.opt.timestep', 'DT': 'm.actuator_dyntype[actuator_id]',
             'LO': 'm.actuator_actrange[2*actuator_id]', 'HI': 'm.actuator_actrange[2*actuator_id + 1]',
             'clipr': 'lambda x, lo, hi: lo if x < lo else (hi if x > hi else x)'})
PARAMS = {'m': {'n': 1, 'ptrfields': {'actuator_dyntype': {'len': 'm.nu'}, 'actuator_actlimited': {'len': 'm.nu'}, 'actuator_actrange': {'len': '2 * m.nu'},
                                      'actuator_dynprm': {'len': 'm.nu * mjNDYN'}, 'actuator_actadr': {'len': 'm.nu'}}},
          'd': {'n': 1, 'ptrfields': {'act': {'len': 'm.na'}}}}


def next_activation(dyn):
    """dyn: 'euler' (every dynamics type integrated by the Euler rule: none, integrator, filter, muscle, user) or 'filterexact'."""
    req = {'indices': '0 <= actuator_id and actuator_id < m.nu and 0 <= act_adr and act_adr < m.na and m.nu < 2**24 and m.na < 2**24',
           'dyntype': ('DT != mjDYN_FILTEREXACT and DT != mjDYN_DCMOTOR' if dyn == 'euler' else 'DT == mjDYN_FILTEREXACT')}
    ens = {'inside_actrange_when_limited': 'implies(m.actuator_actlimited[actuator_id] != 0 and LO <= HI, LO <= result and result <= HI)'}
    if dyn == 'euler':
        ens['euler_rule_then_clamp'] = 'result == (clipr(A0 + act_dot * H, LO, HI) if m.actuator_actlimited[actuator_id] != 0 else A0 + act_dot * H)'
    else:
        ens['unlimited_moves_toward_target'] = ('implies(m.actuator_actlimited[actuator_id] == 0 and H > 0, '
                                                '(implies(act_dot > 0, result > A0)) and (implies(act_dot < 0, result < A0)) and (implies(act_dot == 0, result == A0)))')
    return {'params': PARAMS, 'requires': req, 'assigns': [], 'ensures': ens, 'no_error': True, 'prune_ms': 500}


# callees in another translation unit, used through their contracts (their bodies are verified under C27 over IEEE doubles;
# here the same input/output relation is read over the reals)
CLIP = {'requires': {}, 'assigns': [], 'pure': True, 'ensures': {'clip': 'result == (min if x < min else (max if x > max else x))'}}
MAXC = {'requires': {}, 'assigns': [], 'pure': True, 'ensures': {'max': 'result == (a if a >= b else b)'}}


def contracts(dyn):
    return {'__defs__': DEFS, '__auto_inline__': True, 'mj_nextActivation': next_activation(dyn), 'mju_clip': CLIP, 'mju_max': MAXC}
