"""C34 contracts: name lookup (src/engine/engine_name.c), math ints.

TYPE_ARRAY says which name-address array belongs to which object type (from the documentation of mjtObj / mjModel).
ORDER is the order of the per-type regions of names_map: extracted mechanically, on every run, from the construction
side - the sequence of namelist(..., m->name_Xadr, ...) calls in mjCModel::CopyNames (src/user/user_model.cc)."""
import os
import re
from contracts import modeltab

TYPE_ARRAY = {
    'mjOBJ_BODY': 'name_bodyadr', 'mjOBJ_XBODY': 'name_bodyadr', 'mjOBJ_JOINT': 'name_jntadr', 'mjOBJ_GEOM': 'name_geomadr',
    'mjOBJ_SITE': 'name_siteadr', 'mjOBJ_CAMERA': 'name_camadr', 'mjOBJ_LIGHT': 'name_lightadr', 'mjOBJ_FLEX': 'name_flexadr',
    'mjOBJ_MESH': 'name_meshadr', 'mjOBJ_SKIN': 'name_skinadr', 'mjOBJ_HFIELD': 'name_hfieldadr', 'mjOBJ_TEXTURE': 'name_texadr',
    'mjOBJ_MATERIAL': 'name_matadr', 'mjOBJ_PAIR': 'name_pairadr', 'mjOBJ_EXCLUDE': 'name_excludeadr', 'mjOBJ_EQUALITY': 'name_eqadr',
    'mjOBJ_TENDON': 'name_tendonadr', 'mjOBJ_ACTUATOR': 'name_actuatoradr', 'mjOBJ_SENSOR': 'name_sensoradr',
    'mjOBJ_NUMERIC': 'name_numericadr', 'mjOBJ_TEXT': 'name_textadr', 'mjOBJ_TUPLE': 'name_tupleadr', 'mjOBJ_KEY': 'name_keyadr',
    'mjOBJ_PLUGIN': 'name_pluginadr',
}
UNNAMED_TYPES = ['mjOBJ_UNKNOWN', 'mjOBJ_DOF', 'mjOBJ_DEFAULT', 'mjOBJ_FRAME', 'mjOBJ_MODEL']


def construction_order():
    src = open(os.path.join(modeltab.REPO, 'src/user/user_model.cc')).read()
    body = src[src.index('void mjCModel::CopyNames'):]
    body = body[:body.index('\n}\n')]
    return re.findall(r'namelist\(\s*\w+\s*,\s*adr\s*,\s*m->(name_\w+adr)\s*,', body)


def count_of(arr):
    return 'm.' + modeltab.model_pointers()[arr][1]


def region_start(arr):
    order = construction_order()
    return '2 * (' + ' + '.join(['0'] + [count_of(a) for a in order[:order.index(arr)]]) + ')'


def model_spec():
    P = modeltab.model_pointers()
    return {'n': 1, 'ptrfields': {name: {'len': modeltab.length_expr(nr, nc)} for name, (typ, nr, nc) in P.items()}}


def sizes_ok():
    order = construction_order()
    return {'counts': ' and '.join('%s >= 0' % count_of(a) for a in order),
            'map_size': 'm.nnames_map == 2 * (' + ' + '.join(count_of(a) for a in order) + ') and m.nnames_map < 2**31 - 1 and m.nnames >= 0 and m.nnames < 2**31 - 1'}


def getnumadr():
    ens = {}
    for t, arr in TYPE_ARRAY.items():
        ens['type/' + t] = 'implies(type == %s, result == %s and padr[0] == m.%s and mapadr[0] == %s)' % (t, count_of(arr), arr, region_start(arr))
    ens['unnamed_types_have_no_objects'] = 'implies(%s, result == 0)' % ' and '.join('type != ' + t for t in TYPE_ARRAY)
    return {'params': {'m': model_spec(), 'padr': {'len': '1'}, 'mapadr': {'len': '1'}},
            'requires': sizes_ok(), 'assigns': ['padr[*]', 'mapadr[*]'], 'ensures': ens, 'no_error': True,
            'prune_ms': 500}     # `if (num < 0)` after a count was assigned is infeasible: pruned by the solver, not explored


HASH = {
    'ghost_params': {'L': 'int'},
    'params': {'s': {'len': 'L + 1'}},
    'requires': {'terminated_string': '0 <= L and L < 2**31 and s[L] == 0', 'modulus': 'n > 0'},
    'assigns': [],
    'ensures': {'in_range': '0 <= result and result < n'},
    'loops': {0: {'invariant': {'inside_string': '0 <= off(s) and off(s) <= L'}}},
    'no_error': True,
}


def adr_valid(arr):
    return 'forall(lambda i: implies(0 <= i and i < %s, 0 <= m.%s[i] and m.%s[i] < m.nnames))' % (count_of(arr), arr, arr)


def id2name(tname):
    """contract of mj_id2name for one (concrete) object type."""
    arr = TYPE_ARRAY.get(tname)
    con = {'params': {'m': model_spec()}, 'requires': dict(sizes_ok()), 'assigns': [], 'no_error': True, 'prune_ms': 500, 'strict_unsigned': True}
    if arr is None:
        con['ensures'] = {'unnamed_type_has_no_names': 'result == NULL'}
        return con
    con['requires']['name_addresses_inside_names'] = adr_valid(arr)
    con['ensures'] = {
        'null_exactly_for_bad_id_or_empty_name': '(result == NULL) == (id < 0 or id >= %s or m.names[m.%s[id]] == 0)' % (count_of(arr), arr),
        'points_at_the_name': ('result != NULL', 'same_obj(result, m.names) and off(result) == m.%s[id]' % arr),
    }
    return con


def name2id(tname, found=False):
    """contract of mj_name2id for one (concrete) object type.
    found=False: whatever the table holds, a non-negative result is an object of that type whose stored name compares
                 equal to the query (so -1 is returned for any string that names no object).
    found=True : under the table invariant that the C++ compiler establishes (object T sits in slot P, every slot on the
                 probe path from the hash of its name to P holds another object with a different name), the result is T."""
    arr = TYPE_ARRAY.get(tname)
    con = {'ghost_params': {'L': 'int'}, 'params': {'m': model_spec(), 'name': {'len': 'L + 1'}},
           'requires': dict(sizes_ok(), query_is_a_string='0 <= L and L < 2**31 and name[L] == 0'),
           'assigns': [], 'no_error': True, 'ghost_args': {'mj_hashString': {'L': 'L'}}, 'prune_ms': 500, 'strict_unsigned': True}
    if arr is None:
        con['ensures'] = {'unnamed_type_has_no_names': 'result == -1'}
        return con
    cnt, start = count_of(arr), region_start(arr)
    con['defs'] = {'NUM': '2 * %s' % cnt, 'START': start,
                   'slot': 'lambda t: m.names_map[START + t]',
                   'stored': 'lambda j: strncmp_of(name, at(m.names, m.%s[j]), m.nnames - m.%s[j])' % (arr, arr)}
    con['requires']['name_addresses_inside_names'] = adr_valid(arr)
    con['requires']['map_entries_are_ids_or_empty'] = 'forall(lambda t: implies(0 <= t and t < NUM, -1 <= slot(t) and slot(t) < %s))' % cnt
    con['ensures'] = {'result_is_minus_one_or_an_id': 'result == -1 or (0 <= result and result < %s)' % cnt,
                      'a_found_object_has_the_queried_name': ('result >= 0', 'stored(result) == 0')}
    inv = {'probe_in_region': '0 <= i and i < NUM and 0 <= hash and hash < NUM'}
    con['loops'] = {0: {'invariant': inv, 'variant': '(hash - i - 1) % NUM'}}
    if found:
        con['ghost_params'] = {'L': 'int', 'H': 'int', 'T': 'int', 'P': 'int'}
        con['ghost_args'] = {'mj_hashString': {'L': 'L', 'H': 'H'}}
        # P = the slot that holds T; `between(p)` = p lies on the probe path from H (inclusive) to P (exclusive), cyclically
        con['defs']['between'] = 'lambda p: (H <= p and p < P) if H <= P else ((H <= p and p < NUM) or (0 <= p and p < P))'
        con['requires']['table_invariant'] = (
            '0 <= T and T < %s and 0 <= P and P < NUM and 0 <= H and H < NUM and slot(P) == T and stored(T) == 0 and '
            'forall(lambda p: implies(0 <= p and p < NUM and between(p), slot(p) >= 0 and stored(slot(p)) != 0))' % cnt)
        con['ensures'] = {'lookup_finds_the_named_object': 'result == T'}
        inv['not_past_the_object'] = 'hash == H and (i == P or between(i))'
    return con


HASH_CALL_NAMED = dict(HASH, assumed=True, ghost_params={'L': 'int', 'H': 'int'},
                       ensures={'in_range': '0 <= result and result < n', 'H_names_the_hash_of_the_query': 'result == H'})


def contracts():
    C = {'__defs__': {k: str(v) for k, v in modeltab.int_macros().items()}}
    C['__defs__']['mjLOAD_MULTIPLE'] = '2'
    C['_getnumadr'] = getnumadr()
    C['mj_hashString'] = HASH
    return C


CONTRACTS = contracts()
