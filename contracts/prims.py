"""C13 contracts: contacts report true geometry (sphere-plane, sphere-sphere, contact frame), real arithmetic."""
from contracts.spatial import FRAME_CONTRACT

V3 = {'n': 3}
M9 = {'n': 9}
CON = {'n': 1}
DEFS = {
    'dot3': 'lambda a, i, b, j: a[i]*b[j] + a[i+1]*b[j+1] + a[i+2]*b[j+2]',
    'v2': 'lambda v: v[0]*v[0] + v[1]*v[1] + v[2]*v[2]',
    'N': 'lambda k: mat1[2 + 3*k]',                                   # plane normal = third column of the plane's frame
    'CD': '(pos2[0]-pos1[0])*N(0) + (pos2[1]-pos1[1])*N(1) + (pos2[2]-pos1[2])*N(2)',   # signed distance of the sphere centre
    'D2': '(pos2[0]-pos1[0])*(pos2[0]-pos1[0]) + (pos2[1]-pos1[1])*(pos2[1]-pos1[1]) + (pos2[2]-pos1[2])*(pos2[2]-pos1[2])',
}
P = {'con': CON, 'pos1': V3, 'mat1': M9, 'size1': V3, 'pos2': V3, 'mat2': M9, 'size2': V3}

frame = dict(FRAME_CONTRACT)
# contact frames are built from the normal alone (the colliders zero the tangent): the supplied-tangent path of
# mju_makeFrame is not claimed (its obligations with two nested normalisations time out; and a tangent parallel to the
# normal yields a degenerate frame - observation in DESIGN.md)
frame['requires'] = {'tangent_undefined': 'dot3(f,3,f,3) < 0.25'}

CONTRACTS = {
    '__defs__': DEFS, '__auto_inline__': True, '__no_merge__': True,
    'mjraw_PlaneSphere': {
        'params': P,
        'requires': {'unit_normal': 'N(0)*N(0) + N(1)*N(1) + N(2)*N(2) == 1', 'radius': 'size2[0] >= 0'},
        'ensures': {
            'zero_or_one': 'result == 0 or result == 1',
            'reported_iff_within_margin': '(result == 1) == (CD - size2[0] <= margin)',
            'dist_is_signed_surface_distance': 'implies(result == 1, con.dist == CD - size2[0])',
            'normal_is_plane_normal': 'implies(result == 1, con.normal[0] == N(0) and con.normal[1] == N(1) and con.normal[2] == N(2))',
            # midpoint between the sphere's lowest point (pos2 - r n) and its foot on the plane (pos2 - CD n)
            'pos_is_midpoint': 'implies(result == 1, And(*[2*con.pos[k] == (pos2[k] - size2[0]*N(k)) + (pos2[k] - CD*N(k)) for k in range(3)]))',
        }, 'no_error': True},
    'mjraw_SphereSphere': {
        'params': P,
        'requires': {'radii': 'size1[0] >= 0 and size2[0] >= 0', 'reach': 'margin + size1[0] + size2[0] >= 0'},
        'ensures': {
            'zero_or_one': 'result == 0 or result == 1',
            'reported_iff_within_margin': '(result == 1) == (D2 <= (margin + size1[0] + size2[0]) * (margin + size1[0] + size2[0]))',
            'dist_is_gap_between_surfaces': 'implies(result == 1, (con.dist + size1[0] + size2[0]) * (con.dist + size1[0] + size2[0]) == D2 and con.dist + size1[0] + size2[0] >= 0)',
            'normal_unit': 'implies(result == 1, v2(con.normal) == 1 or (con.normal[0] == 1 and con.normal[1] == 0 and con.normal[2] == 0))',
            'normal_points_from_1_to_2': 'implies(result == 1 and D2 >= 1e-29, And(*[con.normal[k] * (con.dist + size1[0] + size2[0]) == pos2[k] - pos1[k] for k in range(3)]))',
            # midpoint of the two surface points along the normal
            'pos_is_midpoint': 'implies(result == 1, And(*[2*con.pos[k] == (pos1[k] + size1[0]*con.normal[k]) + (pos1[k] + (size1[0] + con.dist)*con.normal[k]) for k in range(3)]))',
        }, 'no_error': True},
    'c13_frame': dict(frame, params={'f': M9}),
    # sphere (geom 1) against capsule (geom 2): the capsule is the set of points within size2[0] of the segment
    # pos2 + t*axis, |t| <= size2[1]; the collider must use the point of that segment nearest to the sphere centre
    'mju_clip': {'requires': {}, 'assigns': [], 'pure': True, 'ensures': {'clip': 'result == (min if x < min else (max if x > max else x))'}},
    'mjraw_SphereCapsule': {
        'params': P,
        'defs': {'AX': 'lambda k: mat2[2 + 3*k]', 'LEN': 'size2[1]',
                 'PRJ': 'AX(0)*(pos1[0]-pos2[0]) + AX(1)*(pos1[1]-pos2[1]) + AX(2)*(pos1[2]-pos2[2])',
                 'XP': '(-LEN if PRJ < -LEN else (LEN if PRJ > LEN else PRJ))',
                 'SQ': 'lambda t: (pos1[0]-pos2[0]-t*AX(0))*(pos1[0]-pos2[0]-t*AX(0)) + (pos1[1]-pos2[1]-t*AX(1))*(pos1[1]-pos2[1]-t*AX(1)) + (pos1[2]-pos2[2]-t*AX(2))*(pos1[2]-pos2[2]-t*AX(2))',
                 'RR': 'size1[0] + size2[0]'},
        'requires': {'unit_axis': 'AX(0)*AX(0) + AX(1)*AX(1) + AX(2)*AX(2) == 1', 'capsule': 'LEN >= 0',
                     'radii': 'size1[0] >= 0 and size2[0] >= 0', 'reach': 'margin + RR >= 0'},
        'ensures': {
            'zero_or_one': 'result == 0 or result == 1',
            # "the clamped projection is the nearest point of the axis segment", in two steps the solver can do separately:
            # (i) along the unit axis the squared distance is the quadratic V2 - 2 t PRJ + t^2 (V2 = squared centre distance);
            # (ii) over [-L, L] that quadratic is minimised at clip(PRJ, -L, L)  (pure real arithmetic in t, p, l)
            'squared_distance_along_the_axis_is_a_quadratic': 'forall_real(lambda t: SQ(t) == SQ(0) - 2*t*PRJ + t*t)',
            'quadratic_minimised/projection_inside': 'forall_real(lambda t, p: t*t - 2*t*p >= p*p - 2*p*p)',
            'quadratic_minimised/projection_beyond_upper_end': 'forall_real(lambda t, p, l: implies(l >= 0 and -l <= t and t <= l and p > l, t*t - 2*t*p >= l*l - 2*l*p))',
            'quadratic_minimised/projection_beyond_lower_end': 'forall_real(lambda t, p, l: implies(l >= 0 and -l <= t and t <= l and p < -l, t*t - 2*t*p >= l*l + 2*l*p))',
            'reported_iff_the_segment_is_within_reach': '(result == 1) == (SQ(XP) <= (margin + RR) * (margin + RR))',
            'dist_is_the_gap_between_the_two_surfaces': 'implies(result == 1, (con.dist + RR) * (con.dist + RR) == SQ(XP) and con.dist + RR >= 0)',
        }, 'no_error': True},
}


# getMargin / getGap (engine_collision_driver.c): which margin / gap governs a geom pair.  mj_assignMargin is a pure function of
# the model option and its argument (another translation unit): named AM here.
MARGIN_DEFS = {'AM': "z3.Function('mj_assignMargin', z3.RealSort(), z3.RealSort())"}
M_SPEC = {'n': 1, 'ptrfields': {'pair_margin': {'len': 'm.npair'}, 'pair_gap': {'len': 'm.npair'}, 'geom_margin': {'len': 'm.ngeom'}, 'geom_gap': {'len': 'm.ngeom'}}}
M_REQ = {'indices': '0 <= g1 and g1 < m.ngeom and 0 <= g2 and g2 < m.ngeom and ipair < m.npair and m.ngeom < 2**20 and m.npair < 2**20'}
MARGIN_CONTRACTS = {
    '__defs__': MARGIN_DEFS,
    'mj_assignMargin': {'assumed': True, 'requires': {}, 'assigns': [], 'pure': True, 'ensures': {'pure_function': 'result == AM(source)'}, 'param_names': ['m', 'source']},
    'getMargin': {'params': {'m': M_SPEC}, 'requires': M_REQ, 'assigns': [], 'no_error': True,
                  'ensures': {'explicit_pair_uses_the_pair_margin': 'implies(ipair >= 0, result == AM(m.pair_margin[ipair]))',
                              'dynamic_pair_uses_the_sum_of_geom_margins': 'implies(ipair < 0, result == AM(m.geom_margin[g1] + m.geom_margin[g2]))'}},
    'getGap': {'params': {'m': M_SPEC}, 'requires': M_REQ, 'assigns': [], 'no_error': True,
               'ensures': {'explicit_pair_uses_the_pair_gap': 'implies(ipair >= 0, result == m.pair_gap[ipair])',
                           'dynamic_pair_uses_the_sum_of_geom_gaps': 'implies(ipair < 0, result == m.geom_gap[g1] + m.geom_gap[g2])'}},
}


# mjc_PlaneCapsule (geom g1 = plane, g2 = capsule): the two end spheres of the capsule against the plane, through mjraw_PlaneSphere's contract.
XP_ = lambda g, k: 'd.geom_xpos[3*%s + %s]' % (g, k)
PC_DEFS = {
    'PN': 'lambda k: d.geom_xmat[9*g1 + 2 + 3*k]',                                      # plane normal
    'AXC': 'lambda k: d.geom_xmat[9*g2 + 2 + 3*k]',                                     # capsule axis
    'EPT': 'lambda s, k: d.geom_xpos[3*g2 + k] + s*m.geom_size[3*g2 + 1]*AXC(k)',        # centre of the end sphere on side s = +1 / -1
    'HGT': 'lambda s: (EPT(s, 0) - %s)*PN(0) + (EPT(s, 1) - %s)*PN(1) + (EPT(s, 2) - %s)*PN(2)' % (XP_('g1', 0), XP_('g1', 1), XP_('g1', 2)),   # height of that centre above the plane
    'RAD': 'm.geom_size[3*g2]',
    'TOUCH': 'lambda s: HGT(s) - RAD <= margin',
    'REP_DIST': 'lambda c, s: c.dist == HGT(s) - RAD',
    'REP_FRAME': 'lambda c, s: c.normal[0] == PN(0) and c.normal[1] == PN(1) and c.normal[2] == PN(2) and c.tangent[0] == AXC(0) and c.tangent[1] == AXC(1) and c.tangent[2] == AXC(2)',
    'REP_POS': 'lambda c, s: And(*[2*c.pos[k] == (EPT(s, k) - RAD*PN(k)) + (EPT(s, k) - HGT(s)*PN(k)) for k in (0, 1, 2)])',
}
PLANE_CAPSULE = {
    'params': {'m': {'n': 1, 'ptrfields': {'geom_size': {'len': '3 * m.ngeom'}}},
               'd': {'n': 1, 'ptrfields': {'geom_xpos': {'len': '3 * m.ngeom'}, 'geom_xmat': {'len': '9 * m.ngeom'}}}, 'con': {'n': 2}},
    'defs': PC_DEFS,
    'requires': {'geoms': '0 <= g1 and g1 < m.ngeom and 0 <= g2 and g2 < m.ngeom and m.ngeom < 2**20',
                 'unit_plane_normal': 'PN(0)*PN(0) + PN(1)*PN(1) + PN(2)*PN(2) == 1', 'radius': 'RAD >= 0'},
    'ensures': {
        'one_contact_per_end_sphere_within_margin': 'result == (1 if TOUCH(1) else 0) + (1 if TOUCH(-1) else 0)',
        'upper_end_first/dist_is_the_gap_of_the_end_sphere': 'implies(TOUCH(1), REP_DIST(con[0], 1))',
        'upper_end_first/normal_is_the_plane_normal_and_tangent_the_capsule_axis': 'implies(TOUCH(1), REP_FRAME(con[0], 1))',
        'upper_end_first/pos_is_the_midpoint': 'implies(TOUCH(1), REP_POS(con[0], 1))',
        'lower_end_second/dist_is_the_gap_of_the_end_sphere': 'implies(TOUCH(1) and TOUCH(-1), REP_DIST(con[1], -1))',
        'lower_end_second/normal_is_the_plane_normal_and_tangent_the_capsule_axis': 'implies(TOUCH(1) and TOUCH(-1), REP_FRAME(con[1], -1))',
        'lower_end_second/pos_is_the_midpoint': 'implies(TOUCH(1) and TOUCH(-1), REP_POS(con[1], -1))',
        'lower_end_alone_first/dist_is_the_gap_of_the_end_sphere': 'implies(not TOUCH(1) and TOUCH(-1), REP_DIST(con[0], -1))',
        'lower_end_alone_first/normal_is_the_plane_normal_and_tangent_the_capsule_axis': 'implies(not TOUCH(1) and TOUCH(-1), REP_FRAME(con[0], -1))',
        'lower_end_alone_first/pos_is_the_midpoint': 'implies(not TOUCH(1) and TOUCH(-1), REP_POS(con[0], -1))',
    },
    'no_error': True,
}


def plane_capsule_contracts():
    c = dict(CONTRACTS)
    others = ' and '.join(['at(con, k).dist == old(at(con, k).dist)'] + ['at(con, k).%s[%d] == old(at(con, k).%s[%d])' % (f, j, f, j) for f in ('normal', 'pos', 'tangent') for j in range(3)])
    ps = dict(CONTRACTS['mjraw_PlaneSphere'], assumed=True, assigns=['con[*]'])
    # the collider writes only the contact it is handed (it stores through con-> only; its own unit proves what it stores there)
    ps['ensures'] = dict(ps['ensures'], writes_only_the_contact_it_is_given='forall(lambda k: implies(k != off(con), %s))' % others)
    c['mjraw_PlaneSphere'] = ps
    c['mjc_PlaneCapsule'] = PLANE_CAPSULE
    return c


# the mjc_* wrappers of the sphere colliders: the raw collider is handed the arrays of the two geoms (positions, frames, sizes)
_GX = lambda g, k: 'd.geom_xpos[3*%s + %d]' % (g, k)
W_DEFS = {
    'WD2': ' + '.join('(%s - %s)*(%s - %s)' % (_GX('g2', k), _GX('g1', k), _GX('g2', k), _GX('g1', k)) for k in range(3)),
    'WN': 'lambda k: d.geom_xmat[9*g1 + 2 + 3*k]',
    'WCD': ' + '.join('(%s - %s)*WN(%d)' % (_GX('g2', k), _GX('g1', k), k) for k in range(3)),
    'R1': 'm.geom_size[3*g1]', 'R2': 'm.geom_size[3*g2]',
}
_WP = {'m': {'n': 1, 'ptrfields': {'geom_size': {'len': '3 * m.ngeom'}}},
       'd': {'n': 1, 'ptrfields': {'geom_xpos': {'len': '3 * m.ngeom'}, 'geom_xmat': {'len': '9 * m.ngeom'}}}, 'con': {'n': 1}}
_WG = '0 <= g1 and g1 < m.ngeom and 0 <= g2 and g2 < m.ngeom and m.ngeom < 2**20'
WRAPPERS = {
    'mjc_PlaneSphere': {
        'params': _WP, 'defs': W_DEFS,
        'requires': {'geoms': _WG, 'unit_plane_normal': 'WN(0)*WN(0) + WN(1)*WN(1) + WN(2)*WN(2) == 1', 'radius': 'R2 >= 0'},
        'ensures': {'reported_iff_within_margin': '(result == 1) == (WCD - R2 <= margin)', 'zero_or_one': 'result == 0 or result == 1',
                    'dist_is_signed_surface_distance': 'implies(result == 1, con.dist == WCD - R2)',
                    'normal_is_plane_normal': 'implies(result == 1, con.normal[0] == WN(0) and con.normal[1] == WN(1) and con.normal[2] == WN(2))'},
        'no_error': True},
    'mjc_SphereSphere': {
        'params': _WP, 'defs': W_DEFS,
        'requires': {'geoms': _WG, 'radii': 'R1 >= 0 and R2 >= 0', 'reach': 'margin + R1 + R2 >= 0'},
        'ensures': {'reported_iff_within_margin': '(result == 1) == (WD2 <= (margin + R1 + R2) * (margin + R1 + R2))', 'zero_or_one': 'result == 0 or result == 1',
                    'dist_is_gap_between_surfaces': 'implies(result == 1, (con.dist + R1 + R2) * (con.dist + R1 + R2) == WD2 and con.dist + R1 + R2 >= 0)'},
        'no_error': True},
}


def wrapper_contracts():
    c = dict(CONTRACTS)
    for k in ('mjraw_PlaneSphere', 'mjraw_SphereSphere'):
        c[k] = dict(CONTRACTS[k], assumed=True, assigns=['con[*]'])
    c.update(WRAPPERS)
    return c


# mjc_SphereCylinder (g1 = sphere, g2 = cylinder of radius R and half height H along its frame's z axis): which feature of the cylinder is nearest to
# the sphere centre (cap, side or rim; deep inside: the nearer of cap and side) and the gap the contact reports.  X = axial coordinate of the sphere
# centre, P2 = squared radial distance from the axis; the raw sphere / plane colliders are used through their proved contracts.
SC_DEFS = {
    'V': 'lambda k: d.geom_xpos[3*g1 + k] - d.geom_xpos[3*g2 + k]',
    'AXS': 'lambda k: d.geom_xmat[9*g2 + 2 + 3*k]',
    'X': 'AXS(0)*V(0) + AXS(1)*V(1) + AXS(2)*V(2)',
    'PPR': 'lambda k: V(k) - X*AXS(k)',
    'P2': 'PPR(0)*PPR(0) + PPR(1)*PPR(1) + PPR(2)*PPR(2)',
    'absx': '(X if X >= 0 else -X)',
    'RC': 'm.geom_size[3*g2]', 'HC': 'm.geom_size[3*g2 + 1]', 'RS': 'm.geom_size[3*g1]',
    'RIM': 'lambda s, k: (HC if X > 0 else -HC)*AXS(k) + PPR(k)*(RC/s)',     # rim point nearest to the sphere centre, relative to the cylinder centre
    'GAP2': 'lambda s: (V(0) - RIM(s, 0))*(V(0) - RIM(s, 0)) + (V(1) - RIM(s, 1))*(V(1) - RIM(s, 1)) + (V(2) - RIM(s, 2))*(V(2) - RIM(s, 2))',
    'AXIAL': 'absx < HC',            # between the cap planes
    'RADIAL': 'P2 < RC*RC',          # inside the infinite cylinder
}
SPHERE_CYLINDER = {
    'params': {'m': {'n': 1, 'ptrfields': {'geom_size': {'len': '3 * m.ngeom'}}},
               'd': {'n': 1, 'ptrfields': {'geom_xpos': {'len': '3 * m.ngeom'}, 'geom_xmat': {'len': '9 * m.ngeom'}}}, 'con': {'n': 1}},
    'defs': SC_DEFS,
    'requires': {'geoms': '0 <= g1 and g1 < m.ngeom and 0 <= g2 and g2 < m.ngeom and m.ngeom < 2**20',
                 'unit_axis': 'AXS(0)*AXS(0) + AXS(1)*AXS(1) + AXS(2)*AXS(2) == 1',
                 'sizes': 'RC >= 0 and HC >= 0 and RS >= 0', 'reach': 'margin + RS >= 0'},
    'ensures': {
        'zero_or_one': 'result == 0 or result == 1',
        'beside_the_round_side': 'implies(AXIAL and not RADIAL, ((result == 1) == (P2 <= (margin + RS + RC)*(margin + RS + RC))) and '
                                 'implies(result == 1, (con.dist + RS + RC)*(con.dist + RS + RC) == P2 and con.dist + RS + RC >= 0))',
        'over_a_cap': 'implies(not AXIAL and RADIAL, ((result == 1) == (absx - HC - RS <= margin)) and implies(result == 1, con.dist == absx - HC - RS))',
        # s stands for the radial distance sqrt(P2)
        # beyond a cap plane and outside the radius: the nearest point of the cylinder is on the rim, RIM(s, k) = end of the axis on the sphere's side
        # plus the radial direction scaled to the radius (s = radial distance sqrt(P2)); the contact is the point contact with that rim point
        'nearest_to_the_rim': 'implies(not AXIAL and not RADIAL and P2 > 0, '
                              '((result == 1) == (GAP2(sqrt_of(P2)) <= (margin + RS)*(margin + RS))) and '
                              'implies(result == 1, (con.dist + RS)*(con.dist + RS) == GAP2(sqrt_of(P2)) and con.dist + RS >= 0))',
        'centre_inside_the_cylinder_uses_the_nearer_of_cap_and_side': 'implies(AXIAL and RADIAL, '
                              '(((result == 1) == (absx - HC - RS <= margin)) and implies(result == 1, con.dist == absx - HC - RS)) if (HC - absx < RC - sqrt_of(P2)) else '
                              '(((result == 1) == (P2 <= (margin + RS + RC)*(margin + RS + RC))) and implies(result == 1, (con.dist + RS + RC)*(con.dist + RS + RC) == P2 and con.dist + RS + RC >= 0)))',
    },
    'no_error': True,
}


def sphere_cylinder_contracts():
    c = dict(CONTRACTS)
    c['__no_merge__'] = True
    for k in ('mjraw_PlaneSphere', 'mjraw_SphereSphere'):       # only the clauses this caller states something about (count and dist)
        c[k] = dict(CONTRACTS[k], assumed=True, assigns=['con[*]'],
                    ensures={n: v for n, v in CONTRACTS[k]['ensures'].items() if n.startswith(('zero_or_one', 'reported_iff', 'dist_is'))})
    c['mjc_SphereCylinder'] = SPHERE_CYLINDER
    return c


# mjc_SphereCapsule wrapper (g1 sphere, g2 capsule), in terms of the model / data arrays
_V = lambda k: '(d.geom_xpos[3*g1 + %d] - d.geom_xpos[3*g2 + %d])' % (k, k)
WSC_DEFS = {
    'CAX': 'lambda k: d.geom_xmat[9*g2 + 2 + 3*k]', 'CLEN': 'm.geom_size[3*g2 + 1]',
    'CPRJ': 'CAX(0)*%s + CAX(1)*%s + CAX(2)*%s' % (_V(0), _V(1), _V(2)),
    'CXP': '(-CLEN if CPRJ < -CLEN else (CLEN if CPRJ > CLEN else CPRJ))',
    'CSQ': 'lambda t: ' + ' + '.join('(%s - t*CAX(%d))*(%s - t*CAX(%d))' % (_V(k), k, _V(k), k) for k in range(3)),
    'CRR': 'm.geom_size[3*g1] + m.geom_size[3*g2]',
}
WRAPPERS['mjc_SphereCapsule'] = {
    'params': _WP, 'defs': WSC_DEFS,
    'requires': {'geoms': _WG, 'unit_axis': 'CAX(0)*CAX(0) + CAX(1)*CAX(1) + CAX(2)*CAX(2) == 1', 'capsule': 'CLEN >= 0',
                 'radii': 'm.geom_size[3*g1] >= 0 and m.geom_size[3*g2] >= 0', 'reach': 'margin + CRR >= 0'},
    'ensures': {'zero_or_one': 'result == 0 or result == 1',
                'reported_iff_the_axis_segment_is_within_reach': '(result == 1) == (CSQ(CXP) <= (margin + CRR) * (margin + CRR))',
                'dist_is_the_gap_between_the_two_surfaces': 'implies(result == 1, (con.dist + CRR) * (con.dist + CRR) == CSQ(CXP) and con.dist + CRR >= 0)'},
    'no_error': True}
_old_wrapper_contracts = wrapper_contracts


def wrapper_contracts():
    c = _old_wrapper_contracts()
    sc = dict(CONTRACTS['mjraw_SphereCapsule'], assumed=True, assigns=['con[*]'])
    sc['ensures'] = {k: v for k, v in sc['ensures'].items() if 'forall' not in v}       # callers need the ground clauses only
    c['mjraw_SphereCapsule'] = sc
    c.update(WRAPPERS)
    return c
