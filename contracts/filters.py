"""C14 contracts: collision pair filters (engine_collision_driver.c)."""
A6 = {'n': 6}
V3 = {'n': 3}

INBOX = lambda p, b: ' and '.join('%s%d >= %s[%d] - %s[%d] and %s%d <= %s[%d] + %s[%d]' % (p, k, b, k, b, k + 3, p, k, b, k, b, k + 3) for k in range(3))
FAR = lambda p, q, m: ' or '.join('%s%d - %s%d > %s or %s%d - %s%d > %s' % (p, k, q, k, m, q, k, p, k, m) for k in range(3))

BV = {
    'filterBitmask': {
        'requires': {}, 'assigns': [],
        # documented rule: two geoms may collide iff the contype of one and the conaffinity of the other share a bit
        'ensures': {'filtered_iff_no_shared_bit': '(result != 0) == ((contype1 & conaffinity2) == 0 and (contype2 & conaffinity1) == 0)',
                    'zero_or_one': 'result == 0 or result == 1'},
        'no_error': True},
}
REAL = {
    '__auto_inline__': True, '__no_merge__': True,
    'filterBox': {
        'params': {'aabb1': A6, 'aabb2': A6}, 'requires': {'halfsizes': ' and '.join('aabb1[%d] >= 0 and aabb2[%d] >= 0' % (k, k) for k in (3, 4, 5)), 'margin': 'margin >= 0'},
        'ensures': {
            # soundness: a pair is discarded only if NO two points of the boxes are within margin of each other (in every coordinate norm)
            'discard_implies_separated': 'implies(result != 0, forall_real(lambda p0, p1, p2, q0, q1, q2: implies(%s and %s, %s)))' % (INBOX('p', 'aabb1'), INBOX('q', 'aabb2'), FAR('p', 'q', 'margin')),
            'keep_implies_margin_boxes_touch': 'implies(result == 0, exists_real(lambda p0, p1, p2, q0, q1, q2: %s and %s and not (%s)))' % (INBOX('p', 'aabb1'), INBOX('q', 'aabb2'), FAR('p', 'q', 'margin')),
        }, 'no_error': True},
    'filterSphereBox': {
        'params': {'s': V3, 'aabb': A6}, 'requires': {'halfsizes': 'aabb[3] >= 0 and aabb[4] >= 0 and aabb[5] >= 0 and bound >= 0'},
        'ensures': {
            'discard_implies_separated': 'implies(result != 0, forall_real(lambda q0, q1, q2: implies(%s, %s)))' % (INBOX('q', 'aabb'), ' or '.join('s[%d] - q%d > bound or q%d - s[%d] > bound' % (k, k, k, k) for k in range(3))),
        }, 'no_error': True},
    'filterSphere': {
        'params': {'pos1': V3, 'pos2': V3}, 'requires': {'bound': 'bound >= 0'},
        'ensures': {'discard_iff_centres_farther_than_bound':
                    '(result != 0) == ((pos1[0]-pos2[0])*(pos1[0]-pos2[0]) + (pos1[1]-pos2[1])*(pos1[1]-pos2[1]) + (pos1[2]-pos2[2])*(pos1[2]-pos2[2]) > bound*bound)'},
        'no_error': True},
    'c14_box_sym': {'params': {'a': A6, 'b': A6}, 'ensures': {'symmetric': 'result == 1'}, 'no_error': True},
    'c14_sphere_sym': {'params': {'p': V3, 'q': V3}, 'ensures': {'symmetric': 'result == 1'}, 'no_error': True},
}
INT = {
    '__auto_inline__': True,
    'filterBodyPair': {
        'requires': {}, 'assigns': [],
        'ensures': {
            # documented rules, as a truth table
            'same_weld_body_discarded': 'implies(weldbody1 == weldbody2, result == 1)',
            'both_without_dofs_discarded': 'implies(dofnum1 == 0 and dofnum2 == 0, result == 1)',
            'both_asleep_discarded': 'implies(asleep1 != 0 and asleep2 != 0, result == 1)',
            'asleep_vs_static_discarded': 'implies((asleep1 != 0 and weldbody2 == 0) or (asleep2 != 0 and weldbody1 == 0), result == 1)',
            'parent_child_discarded_unless_disabled': 'implies(dsbl_filterparent == 0 and weldbody1 != 0 and weldbody2 != 0 and (weldbody1 == weldparent2 or weldbody2 == weldparent1), result == 1)',
            'otherwise_kept': 'implies(weldbody1 != weldbody2 and not (dofnum1 == 0 and dofnum2 == 0) and not (asleep1 != 0 and asleep2 != 0)'
                              ' and not ((asleep1 != 0 and weldbody2 == 0) or (asleep2 != 0 and weldbody1 == 0))'
                              ' and not (dsbl_filterparent == 0 and weldbody1 != 0 and weldbody2 != 0 and (weldbody1 == weldparent2 or weldbody2 == weldparent1)), result == 0)',
        }, 'no_error': True},
    'c14_bodypair_sym': {'requires': {}, 'ensures': {'symmetric': 'result == 1'}, 'no_error': True},
    'c14_bitmask_sym': {'requires': {}, 'ensures': {'symmetric': 'result == 1'}, 'no_error': True},
    'canCollide2': {
        'requires': {'range': '0 <= bf1 and 0 <= bf2 and m.nbody >= 0 and m.nbody < 2**30 and bf1 < 2**30 and bf2 < 2**30'},
        'params': {'m': {'n': 1}},
        'defs': {'T': 'lambda bf: m.body_contype[bf] if bf < m.nbody else m.flex_contype[bf - m.nbody]',
                 'Af': 'lambda bf: m.body_conaffinity[bf] if bf < m.nbody else m.flex_conaffinity[bf - m.nbody]'},
        'ensures': {'zero_or_one': 'result == 0 or result == 1'},
        'no_error': True},
}
