"""C14 contracts: collision pair filters (engine_collision_driver.c)."""
A6 = {'n': 6}
V3 = {'n': 3}

INBOX = lambda p, b: ' and '.join('%s%d >= %s[%d] - %s[%d] and %s%d <= %s[%d] + %s[%d]' % (p, k, b, k, b, k + 3, p, k, b, k, b, k + 3) for k in range(3))
FAR = lambda p, q, m: ' or '.join('%s%d - %s%d > %s or %s%d - %s%d > %s' % (p, k, q, k, m, q, k, p, k, m) for k in range(3))

BV = {
    'filterBitmask': {
        'requires': {}, 'assigns': [],
        # documented rule: two geoms may collide iff the contype of one and the conaffinity of the other share a bit
        'ensures': {'filtered_iff_no_shared_bit': '(result != 0) == ((contype1 & conaffinity2) == 0 and (contype2 & conaffinity1) == 0)',
                    'zero_or_one': 'result == 0 or result == 1'},
        'no_error': True},
}
REAL = {
    '__auto_inline__': True, '__no_merge__': True,
    'filterBox': {
        'params': {'aabb1': A6, 'aabb2': A6}, 'requires': {'halfsizes': ' and '.join('aabb1[%d] >= 0 and aabb2[%d] >= 0' % (k, k) for k in (3, 4, 5)), 'margin': 'margin >= 0'},
        'ensures': {
            # soundness: a pair is discarded only if NO two points of the boxes are within margin of each other (in every coordinate norm)
            'discard_implies_separated': 'implies(result != 0, forall_real(lambda p0, p1, p2, q0, q1, q2: implies(%s and %s, %s)))' % (INBOX('p', 'aabb1'), INBOX('q', 'aabb2'), FAR('p', 'q', 'margin')),
            'keep_implies_margin_boxes_touch': 'implies(result == 0, exists_real(lambda p0, p1, p2, q0, q1, q2: %s and %s and not (%s)))' % (INBOX('p', 'aabb1'), INBOX('q', 'aabb2'), FAR('p', 'q', 'margin')),
        }, 'no_error': True},
    'filterSphereBox': {
        'params': {'s': V3, 'aabb': A6}, 'requires': {'halfsizes': 'aabb[3] >= 0 and aabb[4] >= 0 and aabb[5] >= 0 and bound >= 0'},
        'ensures': {
            'discard_implies_separated': 'implies(result != 0, forall_real(lambda q0, q1, q2: implies(%s, %s)))' % (INBOX('q', 'aabb'), ' or '.join('s[%d] - q%d > bound or q%d - s[%d] > bound' % (k, k, k, k) for k in range(3))),
        }, 'no_error': True},
    'filterSphere': {
        'params': {'pos1': V3, 'pos2': V3}, 'requires': {'bound': 'bound >= 0'},
        'ensures': {'discard_iff_centres_farther_than_bound':
                    '(result != 0) == ((pos1[0]-pos2[0])*(pos1[0]-pos2[0]) + (pos1[1]-pos2[1])*(pos1[1]-pos2[1]) + (pos1[2]-pos2[2])*(pos1[2]-pos2[2]) > bound*bound)'},
        'no_error': True},
    'c14_box_sym': {'params': {'a': A6, 'b': A6}, 'ensures': {'symmetric': 'result == 1'}, 'no_error': True},
    'c14_sphere_sym': {'params': {'p': V3, 'q': V3}, 'ensures': {'symmetric': 'result == 1'}, 'no_error': True},
}
INT = {
    '__auto_inline__': True,
    'filterBodyPair': {
        'requires': {}, 'assigns': [],
        'ensures': {
            # documented rules, as a truth table
            'same_weld_body_discarded': 'implies(weldbody1 == weldbody2, result == 1)',
            'both_without_dofs_discarded': 'implies(dofnum1 == 0 and dofnum2 == 0, result == 1)',
            'both_asleep_discarded': 'implies(asleep1 != 0 and asleep2 != 0, result == 1)',
            'asleep_vs_static_discarded': 'implies((asleep1 != 0 and weldbody2 == 0) or (asleep2 != 0 and weldbody1 == 0), result == 1)',
            'parent_child_discarded_unless_disabled': 'implies(dsbl_filterparent == 0 and weldbody1 != 0 and weldbody2 != 0 and (weldbody1 == weldparent2 or weldbody2 == weldparent1), result == 1)',
            'otherwise_kept': 'implies(weldbody1 != weldbody2 and not (dofnum1 == 0 and dofnum2 == 0) and not (asleep1 != 0 and asleep2 != 0)'
                              ' and not ((asleep1 != 0 and weldbody2 == 0) or (asleep2 != 0 and weldbody1 == 0))'
                              ' and not (dsbl_filterparent == 0 and weldbody1 != 0 and weldbody2 != 0 and (weldbody1 == weldparent2 or weldbody2 == weldparent1)), result == 0)',
        }, 'no_error': True},
    'c14_bodypair_sym': {'requires': {}, 'ensures': {'symmetric': 'result == 1'}, 'no_error': True},
    'c14_bitmask_sym': {'requires': {}, 'ensures': {'symmetric': 'result == 1'}, 'no_error': True},
    'canCollide2': {
        'requires': {'range': '0 <= bf1 and 0 <= bf2 and m.nbody >= 0 and m.nbody < 2**30 and bf1 < 2**30 and bf2 < 2**30'},
        'params': {'m': {'n': 1}},
        'defs': {'T': 'lambda bf: m.body_contype[bf] if bf < m.nbody else m.flex_contype[bf - m.nbody]',
                 'Af': 'lambda bf: m.body_conaffinity[bf] if bf < m.nbody else m.flex_conaffinity[bf - m.nbody]'},
        'ensures': {'zero_or_one': 'result == 0 or result == 1'},
        'no_error': True},
}


# ---------------------------------------------------------------------------------------------------------------------------
# mj_filterSphere and filterCollisionPair (per-pair filter of the narrow phase): integers as bit-vectors (contype masks), mjtNum over the reals
P = lambda g, k: 'd.geom_xpos[3 * %s + %d]' % (g, k)
DIST2 = ' + '.join('(%s - %s)*(%s - %s)' % (P('g1', k), P('g2', k), P('g1', k), P('g2', k)) for k in range(3))
PLANE_H = lambda gp, go: ' + '.join('(%s - %s)*d.geom_xmat[9 * %s + %d]' % (P(go, k), P(gp, k), gp, 2 + 3 * k) for k in range(3))   # height of go's centre above plane gp
GEOM_M = {'n': 1, 'ptrfields': {'geom_rbound': {'len': 'm.ngeom'}, 'geom_type': {'len': 'm.ngeom'}}}
GEOM_D = {'n': 1, 'ptrfields': {'geom_xpos': {'len': '3 * m.ngeom'}, 'geom_xmat': {'len': '9 * m.ngeom'}}}
SPHERE_DEFS = {
    'SPH': 'lambda mg: ((%s > (m.geom_rbound[g1] + m.geom_rbound[g2] + mg)*(m.geom_rbound[g1] + m.geom_rbound[g2] + mg)) if (m.geom_rbound[g1] > 0 and m.geom_rbound[g2] > 0) else '
           '((m.geom_type[g1] == mjGEOM_PLANE and m.geom_rbound[g2] > 0 and %s > mg + m.geom_rbound[g2]) or '
           '(m.geom_type[g2] == mjGEOM_PLANE and m.geom_rbound[g1] > 0 and %s > mg + m.geom_rbound[g1])))' % (DIST2, PLANE_H('g1', 'g2'), PLANE_H('g2', 'g1')),
}
FILTER_SPHERE = {
    'params': {'m': GEOM_M, 'd': GEOM_D}, 'defs': SPHERE_DEFS,
    'requires': {'indices': '0 <= g1 and g1 < m.ngeom and 0 <= g2 and g2 < m.ngeom and m.ngeom < 2**20'},
    'assigns': [],
    'ensures': {
        # documented rule: bounding spheres farther apart than the margin; a plane against a bounding sphere uses the height above the plane
        'discards_exactly_when_the_bounds_are_farther_apart_than_the_margin': '(result != 0) == SPH(margin)',
        'zero_or_one': 'result == 0 or result == 1',
    },
    'no_error': True,
}

PAIR_M = {'n': 1, 'ptrfields': dict({k: {'len': 'm.ngeom'} for k in ('geom_rbound', 'geom_type', 'geom_bodyid', 'geom_contype', 'geom_conaffinity', 'geom_margin', 'geom_gap')},
                                    **{k: {'len': 'm.npair'} for k in ('pair_geom1', 'pair_geom2', 'pair_margin', 'pair_gap')})}
PAIR_D = {'n': 1, 'ptrfields': {'geom_xpos': {'len': '3 * m.ngeom'}, 'geom_xmat': {'len': '9 * m.ngeom'}, 'body_awake': {'len': 'm.nbody'}}}
# In the pair filter the bounding test is an UNINTERPRETED predicate of (g1, g2, margin): filterCollisionPair is proved for every interpretation of it, and
# mj_filterSphere's own unit proves that the function computes the concrete predicate SPH (bounding spheres / plane farther apart than the margin).  This
# keeps the squared sums out of the pair filter's queries (they made two of its obligations time out now and then).
SPHP = "lambda mg: z3.Function('bounds_farther_apart_than', z3.IntSort(), z3.IntSort(), z3.RealSort(), z3.BoolSort())(g1, g2, mg)"
FILTER_SPHERE_ABS = {'assumed': True, 'params': {'m': GEOM_M, 'd': GEOM_D}, 'defs': {'SPH': SPHP},
                     'requires': {'indices': '0 <= g1 and g1 < m.ngeom and 0 <= g2 and g2 < m.ngeom and m.ngeom < 2**20'}, 'assigns': [], 'pure': True,
                     'ensures': {'discards_exactly_when_the_bounds_are_farther_apart_than_the_margin': '(result != 0) == SPH(margin)', 'zero_or_one': 'result == 0 or result == 1'}}
PAIR_DEFS = dict({'SPH': SPHP}, **{
    'AM': "z3.Function('mj_assignMargin', z3.RealSort(), z3.RealSort())",
    'LISTED': 'exists(lambda k: startadr <= k and k < pairadr and ((m.pair_geom1[k] == g1 and m.pair_geom2[k] == g2) or (m.pair_geom1[k] == g2 and m.pair_geom2[k] == g1)))',
    'SLEEP_ON': '((m.opt.enableflags % 2**32) / mjENBL_SLEEP) % 2 == 1',        # bit test by division (math ints)
    'band': "lambda x, y: z3.Function('band32', z3.IntSort(), z3.IntSort(), z3.IntSort())(x % 2**32, y % 2**32)",   # the verifier's bitwise-and of two 32-bit ints (axioms proved in bit-vectors: band/* lemmas)
    'BOTH_NOT_AWAKE': 'd.body_awake[m.geom_bodyid[g1]] != mjS_AWAKE and d.body_awake[m.geom_bodyid[g2]] != mjS_AWAKE',
    'MASKS_EXCLUDE': 'band(m.geom_contype[g1], m.geom_conaffinity[g2]) == 0 and band(m.geom_contype[g2], m.geom_conaffinity[g1]) == 0',
    'REACH': '(AM(m.pair_margin[ipair]) + m.pair_gap[ipair]) if ipair >= 0 else (AM(m.geom_margin[g1] + m.geom_margin[g2]) + m.geom_gap[g1] + m.geom_gap[g2])',
})
FILTER_PAIR = {
    'params': {'m': PAIR_M, 'd': PAIR_D},
    'defs': PAIR_DEFS,
    'requires': {
        'indices': '0 <= g1 and g1 < m.ngeom and 0 <= g2 and g2 < m.ngeom and m.ngeom < 2**20 and ipair < m.npair and 0 <= m.npair and m.npair < 2**20 and 1 <= m.nbody and m.nbody < 2**20',
        'listed_pairs_window': 'implies(merged != 0, 0 <= startadr and startadr <= pairadr and pairadr <= m.npair)',
        'bodies_of_geoms': 'forall(lambda g: implies(0 <= g and g < m.ngeom, 0 <= m.geom_bodyid[g] and m.geom_bodyid[g] < m.nbody))',
        'geom_types': 'forall(lambda g: implies(0 <= g and g < m.ngeom, 0 <= m.geom_type[g] and m.geom_type[g] < mjNGEOMTYPES))',
    },
    'assigns': [],
    'ensures': {
        'a_pair_listed_explicitly_is_not_generated_twice': 'implies(merged != 0 and LISTED, result == 0)',
        'explicit_pair_between_two_bodies_that_are_not_awake_is_dropped_when_sleeping_is_on': 'implies(not (merged != 0 and LISTED) and ipair >= 0 and SLEEP_ON and BOTH_NOT_AWAKE, result == 0)',
        'kept_pairs_pass_every_filter': 'implies(result != 0, not (merged != 0 and LISTED) and implies(ipair >= 0 and SLEEP_ON, not (BOTH_NOT_AWAKE)) and not SPH(REACH))',
        'bounds_farther_apart_than_margin_plus_gap_are_dropped': 'implies(SPH(REACH), result == 0)',
        'zero_or_one': 'result == 0 or result == 1',
    },
    'loops': {0: {'invariant': {'range': 'startadr <= k and k <= pairadr',
                                'none_so_far': 'forall(lambda q: implies(startadr <= q and q < k, not ((m.pair_geom1[q] == g1 and m.pair_geom2[q] == g2) or (m.pair_geom1[q] == g2 and m.pair_geom2[q] == g1))))'}}},
}
FILTER_PAIR['ensures'].update({     # with no user contact-filter callback installed (the default) the contype / conaffinity masks decide
    'dynamic_pair_with_excluding_masks_is_dropped_unless_a_user_filter_is_installed': 'implies(mjcb_contactfilter == NULL and ipair < 0 and MASKS_EXCLUDE, result == 0)',
    'kept_dynamic_pairs_share_a_mask_bit_unless_a_user_filter_is_installed': 'implies(mjcb_contactfilter == NULL and result != 0 and ipair < 0, not (MASKS_EXCLUDE))',
    'explicit_pairs_ignore_the_masks': 'implies(ipair >= 0 and not (merged != 0 and LISTED) and not (SLEEP_ON and BOTH_NOT_AWAKE) and not SPH(REACH), result == (1 if mjCOLLISIONFUNC[imin(m.geom_type[g1], m.geom_type[g2])][imax(m.geom_type[g1], m.geom_type[g2])] != NULL else 0))',
})


BLAS3 = {     # engine_util_blas.c, each verified as its own unit
    'mju_sub3': {'params': {'res': V3, 'vec1': V3, 'vec2': V3}, 'requires': {}, 'assigns': ['res[*]'],
                 'ensures': {'difference': ' and '.join('res[%d] == vec1[%d] - vec2[%d]' % (k, k, k) for k in range(3))}, 'no_error': True},
    'mju_dot3': {'params': {'vec1': V3, 'vec2': V3}, 'requires': {}, 'assigns': [], 'pure': True,
                 'ensures': {'dot_product': 'result == vec1[0]*vec2[0] + vec1[1]*vec2[1] + vec1[2]*vec2[2]'}, 'no_error': True},
}


def pair_contracts():
    from contracts import prims
    c = {'__defs__': dict(prims.MARGIN_DEFS), 'filterBitmask': {'inline': True}, 'filterSphere': {'inline': True}, 'planeGeomDist': {'inline': True, 'pure_inline': True},
         'mju_sub3': BLAS3['mju_sub3'], 'mju_dot3': BLAS3['mju_dot3'],
         'mj_filterSphere': FILTER_SPHERE_ABS, 'filterCollisionPair': FILTER_PAIR, '__callbacks__': ('mjcb_contactfilter',)}
    for k in ('mj_assignMargin', 'getMargin', 'getGap'):
        c[k] = prims.MARGIN_CONTRACTS[k]
    return c


# contactcompare: the comparator that fixes the contact order (contactSort).  O1/O2 = the two object ids of a contact (geom, else flex element,
# else flex vertex); for two geom-geom contacts the pair is first put back in the order "lower geom type first was swapped" (A, B).
CMP_DEFS = {
    'O': 'lambda c, s: (c.geom[s] if c.geom[s] >= 0 else (c.elem[s] if c.elem[s] >= 0 else c.vert[s]))',
    'GG': 'c1.geom[0] >= 0 and c1.geom[1] >= 0 and c2.geom[0] >= 0 and c2.geom[1] >= 0',
    'SW': 'lambda c: context.geom_type[O(c, 0)] > context.geom_type[O(c, 1)]',
    'A': 'lambda c: (O(c, 1) if (GG and SW(c)) else O(c, 0))',
    'B': 'lambda c: (O(c, 0) if (GG and SW(c)) else O(c, 1))',
    'LEX': 'lambda a1, b1, a2, b2: (-1 if a1 < a2 else (1 if a1 > a2 else (-1 if b1 < b2 else (1 if b1 > b2 else 0))))',
}
CONTACT_COMPARE = {
    'ghost_params': {'NG': 'int'},
    'params': {'c1': {'n': 1}, 'c2': {'n': 1}, 'context': {'n': 1, 'ct': 'mjModel', 'ptrfields': {'geom_type': {'len': 'NG'}}}},
    'defs': CMP_DEFS,
    'requires': {'geom_ids_in_range': 'NG >= 0 and NG < 2**30 and implies(GG, 0 <= c1.geom[0] and c1.geom[0] < NG and 0 <= c1.geom[1] and c1.geom[1] < NG and '
                                      '0 <= c2.geom[0] and c2.geom[0] < NG and 0 <= c2.geom[1] and c2.geom[1] < NG)'},
    'assigns': [],
    'ensures': {
        'lexicographic_order_on_the_object_pair': 'result == LEX(A(c1), B(c1), A(c2), B(c2))',
        'equal_only_for_the_same_pair': '(result == 0) == (A(c1) == A(c2) and B(c1) == B(c2))',
    },
    'no_error': True,
}
# antisymmetry as a client lemma over the contract alone: LEX(p, q) == -LEX(q, p)


def sphere_contracts():
    """mj_filterSphere against the concrete bounding test"""
    c = pair_contracts()
    c['mj_filterSphere'] = FILTER_SPHERE
    return c
