"""C16 contracts: ray casting returns the nearest intersection (engine_ray.c)."""
import z3

# ghost functions: the per-geom routines are pure functions of the geom index for fixed (m, d, pnt, vec)
G = z3.Function('geom_ray_dist', z3.IntSort(), z3.Float64())
ELIM = z3.Function('geom_eliminated', z3.IntSort(), z3.BoolSort())


def _dist_of_current_geom(name):
    def mk(exe, st, args, node):
        from vlib.cexpr import fn_resolver
        i = fn_resolver(exe, 'mj_ray')('i', st)
        exe.assumed.add('%s is a pure function of the geom index for fixed model, data and ray (ghost function geom_ray_dist)' % name)
        return G(i)
    return mk


DEFS = {
    'Gd': 'lambda i: z3.Function("geom_ray_dist", z3.IntSort(), z3.Float64())(i)',
    'El': 'lambda i: z3.Function("geom_eliminated", z3.IntSort(), z3.BoolSort())(i)',
    'hit': 'lambda i: not El(i) and fpGEQ(Gd(i), fp(0))',
}

GEOMFN = lambda nm: {'assumed': True, 'requires': {}, 'assigns': ['normal[*]'] if False else [], 'ensures': {}, 'result': _dist_of_current_geom(nm)}

MJ_RAY = {
    '__defs__': DEFS,
    'mju_norm3': {'assumed': True, 'requires': {}, 'assigns': [], 'ensures': {}},
    'mju_zero3': {'assumed': True, 'requires': {}, 'assigns': ['res[*]'], 'ensures': {}},
    'mju_copy3': {'assumed': True, 'requires': {}, 'assigns': ['res[*]'], 'ensures': {}},
    'ray_eliminate': {'requires': {}, 'assigns': [], 'ensures': {'ghost': '(result != 0) == El(geomid)'}, 'assumed': False},
    'mj_rayMesh': GEOMFN('mj_rayMesh'), 'mj_rayHfield': GEOMFN('mj_rayHfield'), 'mj_raySdf': GEOMFN('mj_raySdf'), 'mju_rayGeom': GEOMFN('mju_rayGeom'),
    'mj_ray': {
        'requires': {'ngeom': 'm.ngeom >= 0 and m.ngeom < 2**27'},   # 9*i is computed in int
        'params': {'m': {'n': 1}, 'd': {'n': 1}, 'pnt': {'n': 3}, 'vec': {'n': 3}, 'geomid': {'n': 1}, 'normal': {'null': True},
                   'geomgroup': {'nullable': True}},
        'ensures': {
            'miss_iff_no_hit': 'iff(fpEQ(result, fp(-1)) and geomid[0] == -1, forall(lambda k: implies(0 <= k and k < m.ngeom, not hit(k))))',
            'miss_is_minus_one': 'implies(geomid[0] == -1, fpEQ(result, fp(-1)))',
            'hit_is_a_real_hit': 'implies(geomid[0] != -1, 0 <= geomid[0] and geomid[0] < m.ngeom and hit(geomid[0]) and result == Gd(geomid[0]))',
            'hit_is_nearest': 'implies(geomid[0] != -1, forall(lambda k: implies(0 <= k and k < m.ngeom and hit(k), fpLEQ(result, Gd(k)))))',
            'first_among_equals': 'implies(geomid[0] != -1, forall(lambda k: implies(0 <= k and k < geomid[0] and hit(k), fpLT(result, Gd(k)))))',
        },
        'loops': {0: {'invariant': {
            'i': '0 <= i and i <= ngeom and ngeom == m.ngeom',
            'none_yet': 'implies(geomid[0] == -1, fpEQ(dist, fp(-1)) and forall(lambda k: implies(0 <= k and k < i, not hit(k))))',
            'best_so_far': 'implies(geomid[0] != -1, 0 <= geomid[0] and geomid[0] < i and hit(geomid[0]) and dist == Gd(geomid[0])'
                           ' and forall(lambda k: implies(0 <= k and k < i and hit(k), fpLEQ(dist, Gd(k))))'
                           ' and forall(lambda k: implies(0 <= k and k < geomid[0] and hit(k), fpLT(dist, Gd(k)))))',
            'id_range': 'geomid[0] >= -1',
        }}},
    },
}

QUAD = {
    '__auto_inline__': True, '__no_merge__': True,
    'ray_quad': {
        'params': {'x': {'n': 2}},
        'ensures': {
            'root': 'implies(result >= 0, a*result*result + 2*b*result + c == 0)',
            'smallest_nonnegative_root': 'implies(result >= 0, forall_real(lambda y: implies(0 <= y and y < result, a*y*y + 2*b*y + c != 0)))',
            'minus_one_or_nonneg': 'result == -1 or result >= 0',
            'no_root_reported_only_if_none': 'implies(result < 0 and a >= dbl(1e-15), forall_real(lambda y: implies(y >= 0, a*y*y + 2*b*y + c != 0)))',
            'ordered': 'implies(a >= dbl(1e-15) and b*b - a*c >= 0, x[0] <= x[1])',
        }, 'no_error': True},
    'ray_sphere': {
        'params': {'pos': {'n': 3}, 'mat': {'n': 9}, 'pnt': {'n': 3}, 'vec': {'n': 3}, 'normal': {'null': True}},
        'requires': {'radius': 'dist_sqr >= 0'},
        'ensures': {
            'hit_point_on_sphere': 'implies(result >= 0, (pnt[0] + result*vec[0] - pos[0])*(pnt[0] + result*vec[0] - pos[0])'
                                   ' + (pnt[1] + result*vec[1] - pos[1])*(pnt[1] + result*vec[1] - pos[1])'
                                   ' + (pnt[2] + result*vec[2] - pos[2])*(pnt[2] + result*vec[2] - pos[2]) == dist_sqr)',
            'minus_one_or_nonneg': 'result == -1 or result >= 0',
        }, 'no_error': True},
}

# ray_plane: H(k) = component k (in the plane's frame, columns of mat) of the hit point relative to the plane origin
PLANE_DEFS = {
    'HP': 'lambda j: pnt[j] + result*vec[j] - pos[j]',
    'H': 'lambda k: mat[k]*HP(0) + mat[3+k]*HP(1) + mat[6+k]*HP(2)',
    'LZ': 'mat[2]*vec[0] + mat[5]*vec[1] + mat[8]*vec[2]',                                   # ray direction along the plane normal
    'PZ': 'mat[2]*(pnt[0]-pos[0]) + mat[5]*(pnt[1]-pos[1]) + mat[8]*(pnt[2]-pos[2])',          # height of the ray origin above the plane
    'absr': 'lambda v: v if v >= 0 else -v',
}
PLANE = {
    '__auto_inline__': True, '__no_merge__': True, '__defs__': PLANE_DEFS,
    'ray_plane': {
        'params': {'pos': {'n': 3}, 'mat': {'n': 9}, 'size': {'n': 3}, 'pnt': {'n': 3}, 'vec': {'n': 3}, 'normal': {'null': True}},
        'ensures': {
            'minus_one_or_nonneg': 'result == -1 or result >= 0',
            'hit_point_lies_in_the_plane': 'implies(result >= 0, H(2) == 0)',
            'hit_point_inside_the_rendered_rectangle': 'implies(result >= 0, (size[0] <= 0 or absr(H(0)) <= size[0]) and (size[1] <= 0 or absr(H(1)) <= size[1]))',
            'only_rays_facing_the_front_side_hit': 'implies(result >= 0, LZ < 0 and PZ >= 0)',
            'a_front_facing_ray_from_above_over_an_infinite_plane_hits': 'implies(LZ <= -dbl(1e-15) and PZ >= 0 and size[0] <= 0 and size[1] <= 0, result >= 0)',
        }, 'no_error': True},
}

ELIMC = {
    '__auto_inline__': True,
    'ray_eliminate': {
        'requires': {'geomid': '0 <= geomid and geomid < 2**28', 'body': '0 <= m.geom_bodyid[geomid] and m.geom_matid[geomid] < 2**28'},
        'params': {'m': {'n': 1}, 'd': {'n': 1}, 'geomgroup': {'n': 6, 'nullable': True}},
        'defs': {'B': 'm.geom_bodyid[geomid]', 'MAT': 'm.geom_matid[geomid]',
                 'grp': 'imin(5, imax(0, m.geom_group[geomid]))'},
        'ensures': {
            # documented filter: excluded body, invisible geoms (alpha 0 through rgba or material), static geoms unless requested, disabled group
            'body_excluded': 'implies(B == bodyexclude, result == 1)',
            'static_excluded_unless_requested': 'implies(flg_static == 0 and m.body_weldid[B] == 0, result == 1)',
            'group_disabled': 'implies(result == 0 and geomgroup != NULL, geomgroup[grp] != 0)',
            'kept_only_if_not_excluded': 'implies(result == 0, B != bodyexclude and (flg_static != 0 or m.body_weldid[B] != 0))',
            'zero_or_one': 'result == 0 or result == 1',
        }, 'no_error': True},
}


# ---------------------------------------------------------------------------------------------------------------------------
# ray_capsule (normal == NULL), over the reals, in the capsule's own frame: LP / LV are the ray origin and direction mapped by
# ray_map (mat' * (pnt - pos), mat' * vec); PT(x, j) the point at ray parameter x.  The capsule is the cylinder of radius size[0]
# between z = -size[1] and z = size[1] closed by two half spheres.
CAP_DEFS = {
    'DIF': 'lambda j: pnt[j] - pos[j]',
    'LP': 'lambda k: mat[k]*DIF(0) + mat[3+k]*DIF(1) + mat[6+k]*DIF(2)',
    'LV': 'lambda k: mat[k]*vec[0] + mat[3+k]*vec[1] + mat[6+k]*vec[2]',
    'PT': 'lambda x, k: LP(k) + x*LV(k)',
    'R2': 'size[0]*size[0]',
    'ON_SIDE': 'lambda x: -size[1] <= PT(x, 2) and PT(x, 2) <= size[1] and PT(x, 0)*PT(x, 0) + PT(x, 1)*PT(x, 1) == R2',
    'ON_TOP': 'lambda x: PT(x, 2) >= size[1] and PT(x, 0)*PT(x, 0) + PT(x, 1)*PT(x, 1) + (PT(x, 2) - size[1])*(PT(x, 2) - size[1]) == R2',
    'ON_BOTTOM': 'lambda x: PT(x, 2) <= -size[1] and PT(x, 0)*PT(x, 0) + PT(x, 1)*PT(x, 1) + (PT(x, 2) + size[1])*(PT(x, 2) + size[1]) == R2',
    'ON_SURFACE': 'lambda x: ON_SIDE(x) or ON_TOP(x) or ON_BOTTOM(x)',
}
QUAD_ROOTS = dict(QUAD['ray_quad'])
QUAD_ROOTS['ensures'] = dict(QUAD['ray_quad']['ensures'], **{
    'both_roots_stored': 'implies(a >= dbl(1e-15) and b*b - a*c >= 0, a*x[0]*x[0] + 2*b*x[0] + c == 0 and a*x[1]*x[1] + 2*b*x[1] + c == 0)',
    'no_real_roots_stores_minus_one': 'implies(a < dbl(1e-15) or b*b - a*c < 0, x[0] == -1 and x[1] == -1 and result == -1)',
    'result_is_one_of_the_roots': 'implies(result >= 0, result == x[0] or result == x[1])',
    'every_real_root_is_stored': 'implies(a >= dbl(1e-15), forall_real(lambda y: implies(a*y*y + 2*b*y + c == 0, b*b - a*c >= 0 and (y == x[0] or y == x[1]))))',
})
QUAD_ROOTS['ensures']['vieta'] = 'implies(a >= dbl(1e-15) and b*b - a*c >= 0, a*(x[0] + x[1]) == -2*b and a*x[0]*x[1] == c)'     # quantifier-free form of "these are all the roots"
QUAD_ROOTS['assigns'] = ['x[*]']
# what callers see: the quantifier-free clauses only (roots stored, Vieta, ordering, which one is returned); a caller's own "for every y" goal
# becomes a ground nonlinear query after Skolemisation
QUAD_QF = dict(QUAD_ROOTS, assumed=True, ensures={k: v for k, v in QUAD_ROOTS['ensures'].items() if 'forall' not in v})
CAPSULE = {
    '__defs__': CAP_DEFS, '__no_merge__': True,
    'ray_quad': QUAD_ROOTS,
    'ray_sphere': QUAD['ray_sphere'],
    'ray_map': {'inline': True}, 'mju_abs': {'inline': True},
    'ray_capsule': {
        'params': {'pos': {'n': 3}, 'mat': {'n': 9}, 'size': {'n': 3}, 'pnt': {'n': 3}, 'vec': {'n': 3}, 'normal': {'null': True}},
        'requires': {'no_normal_requested': 'normal == NULL', 'sizes': 'size[0] >= 0 and size[1] >= 0'},
        'assigns': [],
        'ensures': {
            'minus_one_or_nonneg': 'result == -1 or result >= 0',
            'hit_point_lies_on_the_capsule_surface': 'implies(result >= 0, ON_SURFACE(result))',
        }, 'no_error': True},
}


# mju_rayGeom (normal == NULL): the dispatch on the geom type.  Plane, sphere and capsule by their proved contracts; the ellipsoid,
# cylinder and box routines (not under contract) are named by ghost values so that the dispatch itself is pinned down.
def _assumed_named(ghost):
    return {'assumed': True, 'ghost_params': {ghost: 'real'}, 'requires': {}, 'assigns': [], 'pure': True, 'ensures': {'value_named_by_the_ghost': 'result == %s' % ghost}}


RAYGEOM = {
    '__defs__': dict(PLANE_DEFS, **CAP_DEFS), '__no_merge__': True,
    'ray_plane': PLANE['ray_plane'], 'ray_sphere': QUAD['ray_sphere'], 'ray_capsule': CAPSULE['ray_capsule'],
    'ray_ellipsoid': _assumed_named('R_ELL'), 'ray_cylinder': _assumed_named('R_CYL'), 'ray_box': _assumed_named('R_BOX'),
    'mju_rayGeom': {
        'ghost_params': {'R_ELL': 'real', 'R_CYL': 'real', 'R_BOX': 'real'},
        'params': {'pos': {'n': 3}, 'mat': {'n': 9}, 'size': {'n': 3}, 'pnt': {'n': 3}, 'vec': {'n': 3}, 'normal': {'null': True}},
        'requires': {'no_normal_requested': 'normal == NULL', 'sizes': 'size[0] >= 0 and size[1] >= 0'},
        'assigns': [],
        'ensures': {
            'plane_hit_lies_in_the_plane_inside_the_rendered_rectangle': 'implies(geomtype == mjGEOM_PLANE and result >= 0, H(2) == 0 and (size[0] <= 0 or absr(H(0)) <= size[0]) and (size[1] <= 0 or absr(H(1)) <= size[1]))',
            'sphere_hit_lies_on_the_sphere_of_radius_size0': 'implies(geomtype == mjGEOM_SPHERE and result >= 0, HP(0)*HP(0) + HP(1)*HP(1) + HP(2)*HP(2) == size[0]*size[0])',
            'capsule_hit_lies_on_the_capsule_surface': 'implies(geomtype == mjGEOM_CAPSULE and result >= 0, ON_SURFACE(result))',
            'ellipsoid_cylinder_box_go_to_their_own_routines': 'implies(geomtype == mjGEOM_ELLIPSOID, result == R_ELL) and implies(geomtype == mjGEOM_CYLINDER, result == R_CYL) and implies(geomtype == mjGEOM_BOX, result == R_BOX)',
            'minus_one_or_nonneg_for_the_proved_types': 'implies(geomtype == mjGEOM_PLANE or geomtype == mjGEOM_SPHERE or geomtype == mjGEOM_CAPSULE, result == -1 or result >= 0)',
        },
        'error_only_if': 'not (geomtype == mjGEOM_PLANE or geomtype == mjGEOM_SPHERE or geomtype == mjGEOM_CAPSULE or geomtype == mjGEOM_ELLIPSOID or geomtype == mjGEOM_CYLINDER or geomtype == mjGEOM_BOX)',
        'ghost_args': {'ray_ellipsoid': {'R_ELL': 'R_ELL'}, 'ray_cylinder': {'R_CYL': 'R_CYL'}, 'ray_box': {'R_BOX': 'R_BOX'}},
    },
}


# ellipsoid, cylinder, box (normal == NULL): the reported point lies on the surface, in the geom's own frame.
# The frame change is abstracted: ray_map is used through the contract "lpnt[k] == LP(k), lvec[k] == LV(k)" with LP / LV UNINTERPRETED
# functions of the component index, so these units hold for every interpretation of LP / LV; ray_map's own body is verified against the same
# contract with LP / LV instantiated by mat' * (pnt - pos) and mat' * vec (RAY_MAP_BODY).  This keeps the degree-2 frame polynomials out
# of the nonlinear queries.
ABS_FRAME = {
    'LP': "lambda k: z3.Function('ray_lp', z3.IntSort(), z3.RealSort())(z3.IntVal(k))",
    'LV': "lambda k: z3.Function('ray_lv', z3.IntSort(), z3.RealSort())(z3.IntVal(k))",
}
RAY_MAP_ABS = {'params': {'pos': {'n': 3}, 'mat': {'n': 9}, 'pnt': {'n': 3}, 'vec': {'n': 3}, 'lpnt': {'n': 3}, 'lvec': {'n': 3}},
               'assumed': True, 'requires': {}, 'assigns': ['lpnt[*]', 'lvec[*]'],
               'ensures': {'frame_change': ' and '.join('lpnt[%d] == LP(%d) and lvec[%d] == LV(%d)' % (k, k, k, k) for k in range(3))}}
RAY_MAP_BODY = {'__defs__': {k: CAP_DEFS[k] for k in ('DIF', 'LP', 'LV')},
                'ray_map': dict(RAY_MAP_ABS, assumed=False, no_error=True)}
SHAPE_DEFS = dict(dict(CAP_DEFS, **ABS_FRAME), **{
    'absr': 'lambda v: v if v >= 0 else -v',
    'SI': 'lambda k: 1/(size[k]*size[k])',
    'ON_ELLIPSOID': 'lambda x: SI(0)*PT(x, 0)*PT(x, 0) + SI(1)*PT(x, 1)*PT(x, 1) + SI(2)*PT(x, 2)*PT(x, 2) == 1',
    'ON_CYL_SIDE': 'lambda x: absr(PT(x, 2)) <= size[1] and PT(x, 0)*PT(x, 0) + PT(x, 1)*PT(x, 1) == R2',
    'ON_CYL_CAP': 'lambda x: (PT(x, 2) == size[1] or PT(x, 2) == -size[1]) and PT(x, 0)*PT(x, 0) + PT(x, 1)*PT(x, 1) <= R2',
    'ON_FACE': 'lambda x, i, j, k: (PT(x, i) == size[i] or PT(x, i) == -size[i]) and absr(PT(x, j)) <= size[j] and absr(PT(x, k)) <= size[k]',
})
_P = {'pos': {'n': 3}, 'mat': {'n': 9}, 'size': {'n': 3}, 'pnt': {'n': 3}, 'vec': {'n': 3}, 'normal': {'null': True}}
SHAPES = {
    '__defs__': SHAPE_DEFS, '__no_merge__': True,
    'ray_quad': QUAD_ROOTS, 'ray_sphere': QUAD['ray_sphere'], 'ray_map': RAY_MAP_ABS, 'mju_abs': {'inline': True},
    'ray_ellipsoid': {
        'params': _P, 'requires': {'no_normal_requested': 'normal == NULL', 'sizes': 'size[0] > 0 and size[1] > 0 and size[2] > 0'}, 'assigns': [],
        'ensures': {'minus_one_or_nonneg': 'result == -1 or result >= 0',
                    'hit_point_lies_on_the_ellipsoid': 'implies(result >= 0, ON_ELLIPSOID(result))',
                    'no_nearer_point_of_the_ray_lies_on_the_ellipsoid': 'implies(result >= 0, forall_real(lambda y: implies(0 <= y and y < result, not ON_ELLIPSOID(y))))',
                    'minus_one_only_if_the_ray_misses': 'implies(result < 0 and SI(0)*LV(0)*LV(0) + SI(1)*LV(1)*LV(1) + SI(2)*LV(2)*LV(2) >= dbl(1e-15), forall_real(lambda y: implies(y >= 0, not ON_ELLIPSOID(y))))'},
        'no_error': True},
    'ray_cylinder': {
        'params': _P, 'requires': {'no_normal_requested': 'normal == NULL', 'sizes': 'size[0] >= 0 and size[1] >= 0'}, 'assigns': [],
        'ensures': {'minus_one_or_nonneg': 'result == -1 or result >= 0',
                    'hit_point_lies_on_the_round_side_or_a_flat_cap': 'implies(result >= 0, ON_CYL_SIDE(result) or ON_CYL_CAP(result))'},
        'loops': {0: {'unroll': 2}},
        'no_error': True},
    'ray_box': {
        'params': dict(_P, all={'null': True}), 'requires': {'no_outputs_requested': 'normal == NULL and all == NULL', 'sizes': 'size[0] >= 0 and size[1] >= 0 and size[2] >= 0'}, 'assigns': [],
        'ensures': {'minus_one_or_nonneg': 'result == -1 or result >= 0',
                    'hit_point_lies_on_a_face': 'implies(result >= 0, ON_FACE(result, 0, 1, 2) or ON_FACE(result, 1, 0, 2) or ON_FACE(result, 2, 0, 1))',
                    'no_nearer_point_of_the_ray_lies_on_a_face_it_is_not_parallel_to': 'implies(result >= 0, forall_real(lambda y: implies(0 <= y and y < result, '
                        'not (absr(LV(0)) > dbl(1e-15) and ON_FACE(y, 0, 1, 2)) and not (absr(LV(1)) > dbl(1e-15) and ON_FACE(y, 1, 0, 2)) and not (absr(LV(2)) > dbl(1e-15) and ON_FACE(y, 2, 0, 1)))))'},
        'loops': {0: {'unroll': 3}, 1: {'unroll': 2}},
        'no_error': True},
}


# the capsule in the abstract frame as well (replaces the frame polynomials of the first version: same clauses, 60x faster)
CAPSULE = {
    '__defs__': dict(CAP_DEFS, **ABS_FRAME), '__no_merge__': True,
    'ray_quad': QUAD_ROOTS, 'ray_sphere': QUAD['ray_sphere'], 'ray_map': RAY_MAP_ABS, 'mju_abs': {'inline': True},
    'ray_capsule': {
        'params': _P,
        'requires': {'no_normal_requested': 'normal == NULL', 'sizes': 'size[0] >= 0 and size[1] >= 0'},
        'assigns': [],
        'ensures': {
            'minus_one_or_nonneg': 'result == -1 or result >= 0',
            'hit_point_lies_on_the_capsule_surface': 'implies(result >= 0, ON_SURFACE(result))',
        }, 'no_error': True},
}
RAYGEOM['ray_capsule'] = CAPSULE['ray_capsule']


# mju_rayGeom with every primitive under its proved contract (the first version named ellipsoid / cylinder / box by ghost values)
RAYGEOM_FULL = {
    '__defs__': dict(dict(PLANE_DEFS, **SHAPE_DEFS), **{k: CAP_DEFS[k] for k in ('DIF', 'LP', 'LV')}), '__no_merge__': True,
    'ray_plane': PLANE['ray_plane'], 'ray_sphere': QUAD['ray_sphere'], 'ray_capsule': dict(CAPSULE['ray_capsule'], assumed=True),
    'ray_ellipsoid': dict(SHAPES['ray_ellipsoid'], assumed=True), 'ray_cylinder': dict(SHAPES['ray_cylinder'], assumed=True), 'ray_box': dict(SHAPES['ray_box'], assumed=True),
    'mju_rayGeom': {
        'params': _P,
        'requires': {'no_normal_requested': 'normal == NULL', 'sizes': 'size[0] >= 0 and size[1] >= 0 and size[2] >= 0 and implies(geomtype == mjGEOM_ELLIPSOID, size[0] > 0 and size[1] > 0 and size[2] > 0)'},
        'assigns': [],
        'ensures': {
            'plane_hit_lies_in_the_plane_inside_the_rendered_rectangle': 'implies(geomtype == mjGEOM_PLANE and result >= 0, H(2) == 0 and (size[0] <= 0 or absr(H(0)) <= size[0]) and (size[1] <= 0 or absr(H(1)) <= size[1]))',
            'sphere_hit_lies_on_the_sphere_of_radius_size0': 'implies(geomtype == mjGEOM_SPHERE and result >= 0, HP(0)*HP(0) + HP(1)*HP(1) + HP(2)*HP(2) == size[0]*size[0])',
            'capsule_hit_lies_on_the_capsule_surface': 'implies(geomtype == mjGEOM_CAPSULE and result >= 0, ON_SURFACE(result))',
            'ellipsoid_hit_lies_on_the_ellipsoid': 'implies(geomtype == mjGEOM_ELLIPSOID and result >= 0, ON_ELLIPSOID(result))',
            'cylinder_hit_lies_on_the_cylinder_surface': 'implies(geomtype == mjGEOM_CYLINDER and result >= 0, ON_CYL_SIDE(result) or ON_CYL_CAP(result))',
            'box_hit_lies_on_a_face': 'implies(geomtype == mjGEOM_BOX and result >= 0, ON_FACE(result, 0, 1, 2) or ON_FACE(result, 1, 0, 2) or ON_FACE(result, 2, 0, 1))',
            'minus_one_or_nonneg': 'result == -1 or result >= 0',
        },
        'error_only_if': 'not (geomtype == mjGEOM_PLANE or geomtype == mjGEOM_SPHERE or geomtype == mjGEOM_CAPSULE or geomtype == mjGEOM_ELLIPSOID or geomtype == mjGEOM_CYLINDER or geomtype == mjGEOM_BOX)',
    },
}


# ray_sphere against its full contract (nearest point, and -1 only for a miss); callers keep using the short form above, so that the
# quantified clauses do not enter their queries
SPHERE_FULL = {'__auto_inline__': True, '__no_merge__': True, 'ray_quad': QUAD['ray_quad'],
               'ray_sphere': dict(QUAD['ray_sphere'], ensures=dict(QUAD['ray_sphere']['ensures'], **{
                   'no_nearer_point_of_the_ray_lies_on_the_sphere': 'implies(result >= 0, forall_real(lambda y: implies(0 <= y and y < result, '
                                                                    '(pnt[0] + y*vec[0] - pos[0])*(pnt[0] + y*vec[0] - pos[0]) + (pnt[1] + y*vec[1] - pos[1])*(pnt[1] + y*vec[1] - pos[1])'
                                                                    ' + (pnt[2] + y*vec[2] - pos[2])*(pnt[2] + y*vec[2] - pos[2]) != dist_sqr)))',
                   'minus_one_only_if_the_ray_misses': 'implies(result < 0 and vec[0]*vec[0] + vec[1]*vec[1] + vec[2]*vec[2] >= dbl(1e-15), forall_real(lambda y: implies(y >= 0, '
                                                       '(pnt[0] + y*vec[0] - pos[0])*(pnt[0] + y*vec[0] - pos[0]) + (pnt[1] + y*vec[1] - pos[1])*(pnt[1] + y*vec[1] - pos[1])'
                                                       ' + (pnt[2] + y*vec[2] - pos[2])*(pnt[2] + y*vec[2] - pos[2]) != dist_sqr)))',
               }))}
