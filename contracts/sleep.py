"""C18 contracts: the sleep-cycle structure of tree_asleep (src/engine/engine_sleep.c), math ints.

tree_asleep[x] < 0: tree x is awake; >= 0: x is asleep and the value is the next tree of its sleep cycle.
Logical parameters describing ONE cycle (the one tree i belongs to): cid[x] = cycle label, C = label of i's cycle,
L = its length, ord[x] = position of x in the cycle counted from i (ord[i] == 0).  InCycle says the trees labelled C are
exactly one closed cycle of length L under the successor map tree_asleep."""

DEFS = {
    'a': 'tree_asleep',
    'InCycle': ('forall(lambda x: implies(0 <= x and x < ntree and cid[x] == C, '
                '0 <= a[x] and a[x] < ntree and cid[a[x]] == C and 0 <= ord[x] and ord[x] < L and '
                'ord[a[x]] == (ord[x] + 1 if ord[x] + 1 < L else 0))) and '
                'forall(lambda x, y: implies(0 <= x and x < ntree and 0 <= y and y < ntree and cid[x] == C and cid[y] == C and ord[x] == ord[y], x == y))'),
}

WAKE = {
    'ghost_params': {'cid': 'array', 'ord': 'array', 'C': 'int', 'L': 'int'},
    'params': {'tree_asleep': {'len': 'ntree'}, 'reason': {'null': True}},
    'requires': {'size': '0 < ntree and ntree < 2**30', 'tree_in_range': '0 <= i and i < ntree', 'wake_value_means_awake': 'wakeval < 0',
                 'cycle_of_i': 'implies(a[i] >= 0, cid[i] == C and ord[i] == 0 and 1 <= L and L <= ntree and InCycle)'},
    'assigns': ['tree_asleep[*]'],
    'ensures': {
        'awake_tree_only_lowers_its_own_counter': 'implies(old(a[i]) < 0, result == 0 and a[i] == imin(wakeval, old(a[i])) and '
                                                  'forall(lambda x: implies(0 <= x and x < ntree and x != i, a[x] == old(a[x]))))',
        'sleeping_tree_wakes_its_whole_cycle': 'implies(old(a[i]) >= 0, forall(lambda x: implies(0 <= x and x < ntree and cid[x] == C, a[x] == wakeval)))',
        'and_nothing_else': 'implies(old(a[i]) >= 0, forall(lambda x: implies(0 <= x and x < ntree and cid[x] != C, a[x] == old(a[x]))))',
        'returns_the_cycle_length': 'implies(old(a[i]) >= 0, result == L)',
    },
    'loops': {0: {'invariant': {
        'position': '0 <= nwoke and nwoke < L and 0 <= current and current < ntree and cid[current] == C and ord[current] == nwoke',
        'woken_prefix': 'forall(lambda x: implies(0 <= x and x < ntree and cid[x] == C and ord[x] < nwoke, a[x] == wakeval))',
        'rest_untouched': 'forall(lambda x: implies(0 <= x and x < ntree and (cid[x] != C or ord[x] >= nwoke), a[x] == old(a[x])))',
    }, 'variant': 'L - nwoke'}},
    'no_error': True,
}


CYCLE = {
    'ghost_params': {'cid': 'array', 'ord': 'array', 'C': 'int', 'L': 'int'},
    'params': {'tree_asleep': {'len': 'ntree'}},
    'requires': {'size': '0 <= ntree and ntree < 2**30',
                 'cycle_of_i': 'implies(0 <= i and i < ntree and a[i] >= 0, cid[i] == C and ord[i] == 0 and 1 <= L and L <= ntree and InCycle)'},
    'assigns': [],
    'ensures': {
        'minus_one_or_a_tree_not_above_i': 'result == -1 or (0 <= result and result <= i and result < ntree)',
        'out_of_range_index_gives_minus_one': 'implies(i < 0 or i >= ntree, result == -1)',
        'awake_tree_gives_minus_one': 'implies(0 <= i and i < ntree and a[i] < 0, result == -1)',
        'on_a_closed_cycle_returns_one_of_its_trees': 'implies(0 <= i and i < ntree and a[i] >= 0, result >= 0 and cid[result] == C)',
    },
    'loops': {0: {'invariant': {
        'walk': '0 <= i and i < ntree and 0 <= current and current < ntree and 0 <= smallest and smallest <= i and 0 <= count and count <= ntree',
        'on_cycle': 'implies(a[i] >= 0, cid[current] == C and cid[smallest] == C and ord[current] == count and count < L)',
        'awake_start': 'implies(a[i] < 0, current == i and count == 0)',
    }, 'variant': 'ntree + 1 - count'}},
    'no_error': True,
}

ZERO = {   # mju_zero(res, n): typed memset (body in engine_util_blas.c, verified here as its own unit)
    'requires': {'n': 'n >= 0'},
    'assigns': ['res[*]'],
    'ensures': {'zeroed': 'forall(lambda j: implies(off(res) <= j and j < off(res) + n, elem(res, j) == num_zero()))',
                'rest': 'forall(lambda j: implies(j < off(res) or j >= off(res) + n, elem(res, j) == old(elem(res, j))))'},
    'no_error': True,
}

# mj_sleepTrees(m, d, tree, n): the listed trees (distinct, all "ready to sleep" == -1) become one new cycle in list order.
# pos[x] = index of tree x in the list, or -1 (ghost inverse of the injective list)
T_A = 'd.tree_asleep'
LIST_OK = ('forall(lambda k: implies(0 <= k and k < n, 0 <= tree[k] and tree[k] < m.ntree and pos[tree[k]] == k)) and '
           'forall(lambda x: implies(0 <= x and x < m.ntree, pos[x] == -1 or (0 <= pos[x] and pos[x] < n and tree[pos[x]] == x)))')
SLEEPTREES = {
    'ghost_params': {'pos': 'array'},
    'params': {'m': {'n': 1, 'ptrfields': {'tree_dofadr': {'len': 'm.ntree'}, 'tree_dofnum': {'len': 'm.ntree'}}},
               'd': {'n': 1, 'ptrfields': {'tree_asleep': {'len': 'm.ntree'}, 'qvel': {'len': 'm.nv'}, 'qacc': {'len': 'm.nv'}}},
               'tree': {'len': 'n'}},
    'requires': {'sizes': '1 <= n and n <= m.ntree and m.ntree < 2**30 and 0 <= m.nv and m.nv < 2**30',
                 'list_of_distinct_trees': LIST_OK,
                 'all_ready_to_sleep': 'forall(lambda k: implies(0 <= k and k < n, %s[tree[k]] == -1))' % T_A,
                 'dof_ranges': 'forall(lambda x: implies(0 <= x and x < m.ntree, 0 <= m.tree_dofadr[x] and 0 <= m.tree_dofnum[x] and m.tree_dofadr[x] + m.tree_dofnum[x] <= m.nv))'},
    'assigns': ['d.tree_asleep[*]', 'd.qvel[*]', 'd.qacc[*]'],
    'ensures': {
        'listed_trees_form_one_cycle_in_list_order': 'forall(lambda k: implies(0 <= k and k < n, %s[tree[k]] == (tree[0] if k == n - 1 else tree[k + 1])))' % T_A,
        'other_trees_untouched': 'forall(lambda x: implies(0 <= x and x < m.ntree and pos[x] == -1, %s[x] == old(%s[x])))' % (T_A, T_A),
        'their_velocities_and_accelerations_are_zeroed': 'forall(lambda k, j: implies(0 <= k and k < n and m.tree_dofadr[tree[k]] <= j and j < m.tree_dofadr[tree[k]] + m.tree_dofnum[tree[k]], '
                                                         'd.qvel[j] == num_zero() and d.qacc[j] == num_zero()))',
    },
    'loops': {0: {'invariant': {
        'range': '0 <= i and i <= n',
        'linked_prefix': 'forall(lambda k: implies(0 <= k and k < i, %s[tree[k]] == (tree[0] if k == n - 1 else tree[k + 1])))' % T_A,
        'rest_still_ready': 'forall(lambda k: implies(i <= k and k < n, %s[tree[k]] == -1))' % T_A,
        'others': 'forall(lambda x: implies(0 <= x and x < m.ntree and pos[x] == -1, %s[x] == old(%s[x])))' % (T_A, T_A),
        'zeroed_prefix': 'forall(lambda k, j: implies(0 <= k and k < i and m.tree_dofadr[tree[k]] <= j and j < m.tree_dofadr[tree[k]] + m.tree_dofnum[tree[k]], '
                         'd.qvel[j] == num_zero() and d.qacc[j] == num_zero()))',
    }}},
    'no_error': True,
}


# mj_updateSleepInit: the derived arrays are exactly what the documented predicates select
BODY_STATE = ('(d.body_awake[b] == (mjS_AWAKE if (m.body_mocapid[m.body_rootid[b]] >= 0 or flg_staticawake != 0) else mjS_STATIC)) if m.body_treeid[b] < 0 '
              'else (d.body_awake[b] == (mjS_AWAKE if d.tree_asleep[m.body_treeid[b]] < 0 else mjS_ASLEEP))')
UPDATE = {
    'params': {'m': {'n': 1, 'ptrfields': {k: {'len': 'm.nbody'} for k in ('body_treeid', 'body_parentid', 'body_rootid', 'body_mocapid')} | {'dof_bodyid': {'len': 'm.nv'}}},
               'd': {'n': 1, 'ptrfields': {'tree_asleep': {'len': 'm.ntree'}, 'tree_awake': {'len': 'm.ntree'}, 'body_awake': {'len': 'm.nbody'},
                                           'body_awake_ind': {'len': 'm.nbody'}, 'parent_awake_ind': {'len': 'm.nbody'}, 'dof_awake_ind': {'len': 'm.nv'}}}},
    'requires': {'sizes': '0 <= m.ntree and m.ntree < 2**30 and 1 <= m.nbody and m.nbody < 2**30 and 0 <= m.nv and m.nv < 2**30',
                 'model_ids': 'forall(lambda b: implies(0 <= b and b < m.nbody, -1 <= m.body_treeid[b] and m.body_treeid[b] < m.ntree and 0 <= m.body_rootid[b] and '
                              'm.body_rootid[b] < m.nbody and 0 <= m.body_parentid[b] and m.body_parentid[b] < m.nbody and (b == 0 or m.body_parentid[b] < b))) and '
                              'forall(lambda j: implies(0 <= j and j < m.nv, 0 <= m.dof_bodyid[j] and m.dof_bodyid[j] < m.nbody))'},
    'assigns': ['d.tree_awake[*]', 'd.body_awake[*]', 'd.body_awake_ind[*]', 'd.parent_awake_ind[*]', 'd.dof_awake_ind[*]', 'd.ntree_awake', 'd.nbody_awake', 'd.nparent_awake', 'd.nv_awake'],
    'ensures': {
        'tree_awake_is_the_sign_of_tree_asleep': 'forall(lambda t: implies(0 <= t and t < m.ntree, d.tree_awake[t] == (1 if d.tree_asleep[t] < 0 else 0)))',
        'body_state': 'forall(lambda b: implies(0 <= b and b < m.nbody, %s))' % BODY_STATE,
        'counts_in_range': '0 <= d.ntree_awake and d.ntree_awake <= m.ntree and 0 <= d.nbody_awake and d.nbody_awake <= m.nbody and '
                           '0 <= d.nparent_awake and d.nparent_awake <= m.nbody and 0 <= d.nv_awake and d.nv_awake <= m.nv',
        'body_list_increasing_and_not_asleep': 'forall(lambda k: implies(0 <= k and k < d.nbody_awake, 0 <= d.body_awake_ind[k] and d.body_awake_ind[k] < m.nbody and '
                                               'd.body_awake[d.body_awake_ind[k]] != mjS_ASLEEP and (k == 0 or d.body_awake_ind[k - 1] < d.body_awake_ind[k])))',
        'parent_list_increasing_with_parents_not_asleep': 'forall(lambda k: implies(0 <= k and k < d.nparent_awake, 1 <= d.parent_awake_ind[k] and d.parent_awake_ind[k] < m.nbody and '
                                                          'd.body_awake[m.body_parentid[d.parent_awake_ind[k]]] != mjS_ASLEEP and (k == 0 or d.parent_awake_ind[k - 1] < d.parent_awake_ind[k])))',
        'dof_list_increasing_and_awake': 'forall(lambda k: implies(0 <= k and k < d.nv_awake, 0 <= d.dof_awake_ind[k] and d.dof_awake_ind[k] < m.nv and '
                                         'm.body_treeid[m.dof_bodyid[d.dof_awake_ind[k]]] >= 0 and d.body_awake[m.dof_bodyid[d.dof_awake_ind[k]]] == mjS_AWAKE and '
                                         '(k == 0 or d.dof_awake_ind[k - 1] < d.dof_awake_ind[k])))',
    },
    'loops': {
        0: {'invariant': {'range': '0 <= i and i <= ntree and ntree == m.ntree and nbody == m.nbody and nv == m.nv and 0 <= ntree_awake and ntree_awake <= i',
                          'done': 'forall(lambda t: implies(0 <= t and t < i, d.tree_awake[t] == (1 if d.tree_asleep[t] < 0 else 0)))'}},
        1: {'invariant': {'range': '0 <= i and i <= nbody and 0 <= nbody_awake and nbody_awake <= i and 0 <= nparent_awake and nparent_awake <= i',
                          'trees': 'forall(lambda t: implies(0 <= t and t < m.ntree, d.tree_awake[t] == (1 if d.tree_asleep[t] < 0 else 0)))',
                          'states': 'forall(lambda b: implies(0 <= b and b < i, %s))' % BODY_STATE,
                          'body_list': 'forall(lambda k: implies(0 <= k and k < nbody_awake, 0 <= d.body_awake_ind[k] and d.body_awake_ind[k] < i and '
                                       'd.body_awake[d.body_awake_ind[k]] != mjS_ASLEEP and (k == 0 or d.body_awake_ind[k - 1] < d.body_awake_ind[k])))',
                          'parent_list': 'forall(lambda k: implies(0 <= k and k < nparent_awake, 1 <= d.parent_awake_ind[k] and d.parent_awake_ind[k] < i and '
                                         'd.body_awake[m.body_parentid[d.parent_awake_ind[k]]] != mjS_ASLEEP and (k == 0 or d.parent_awake_ind[k - 1] < d.parent_awake_ind[k])))'}},
        2: {'invariant': {'range': '0 <= i and i <= nv and 0 <= nv_awake and nv_awake <= i',
                          'dof_list': 'forall(lambda k: implies(0 <= k and k < nv_awake, 0 <= d.dof_awake_ind[k] and d.dof_awake_ind[k] < i and '
                                      'm.body_treeid[m.dof_bodyid[d.dof_awake_ind[k]]] >= 0 and d.body_awake[m.dof_bodyid[d.dof_awake_ind[k]]] == mjS_AWAKE and '
                                      '(k == 0 or d.dof_awake_ind[k - 1] < d.dof_awake_ind[k])))'}},
    },
    'no_error': True,
}


# treeCanSleep(m, d, i, tol) with tol == 0 (the call mj_wake makes): a tree may stay asleep only if nothing was applied to it
CANSLEEP = {
    'params': {'m': {'n': 1, 'ptrfields': {'tree_sleep_policy': {'len': 'm.ntree'}, 'tree_bodyadr': {'len': 'm.ntree'}, 'tree_bodynum': {'len': 'm.ntree'},
                                           'tree_dofadr': {'len': 'm.ntree'}, 'tree_dofnum': {'len': 'm.ntree'}, 'dof_length': {'len': 'm.nv'}}},
               'd': {'n': 1, 'ptrfields': {'xfrc_applied': {'len': '6 * m.nbody'}, 'qfrc_applied': {'len': 'm.nv'}, 'qvel': {'len': 'm.nv'}}}},
    'requires': {'sizes': '0 <= i and i < m.ntree and m.ntree < 2**20 and 0 <= m.nbody and m.nbody < 2**20 and 0 <= m.nv and m.nv < 2**20',
                 'exact_test': 'fpEQ(tol, fp(0.0))',
                 'tree_ranges': '0 <= m.tree_bodyadr[i] and 0 <= m.tree_bodynum[i] and m.tree_bodyadr[i] + m.tree_bodynum[i] <= m.nbody and '
                                '0 <= m.tree_dofadr[i] and 0 <= m.tree_dofnum[i] and m.tree_dofadr[i] + m.tree_dofnum[i] <= m.nv'},
    'assigns': [],
    'defs': {'PZ': 'lambda v: v == fp(0.0)'},
    'ensures': {
        'zero_or_one': 'result == 0 or result == 1',
        'a_force_on_any_body_of_the_tree_forbids_sleep': 'implies(exists(lambda q: 6 * m.tree_bodyadr[i] <= q and q < 6 * (m.tree_bodyadr[i] + m.tree_bodynum[i]) and not PZ(d.xfrc_applied[q])), result == 0)',
        'a_generalized_force_on_any_dof_forbids_sleep': 'implies(exists(lambda q: m.tree_dofadr[i] <= q and q < m.tree_dofadr[i] + m.tree_dofnum[i] and not PZ(d.qfrc_applied[q])), result == 0)',
        'a_velocity_on_any_dof_forbids_sleep': 'implies(exists(lambda q: m.tree_dofadr[i] <= q and q < m.tree_dofadr[i] + m.tree_dofnum[i] and not PZ(d.qvel[q])), result == 0)',
        'never_policies_forbid_sleep': 'implies(m.tree_sleep_policy[i] == mjSLEEP_NEVER or m.tree_sleep_policy[i] == mjSLEEP_AUTO_NEVER, result == 0)',
        'otherwise_it_may_sleep': 'implies(result == 0, m.tree_sleep_policy[i] == mjSLEEP_NEVER or m.tree_sleep_policy[i] == mjSLEEP_AUTO_NEVER or '
                                  'exists(lambda q: 6 * m.tree_bodyadr[i] <= q and q < 6 * (m.tree_bodyadr[i] + m.tree_bodynum[i]) and not PZ(d.xfrc_applied[q])) or '
                                  'exists(lambda q: m.tree_dofadr[i] <= q and q < m.tree_dofadr[i] + m.tree_dofnum[i] and (not PZ(d.qfrc_applied[q]) or not PZ(d.qvel[q]))))',
    },
    'no_error': True, 'prune_ms': 300,
}


def contracts():
    return {'__defs__': DEFS, 'treeCanSleep': CANSLEEP, 'isSmaller': {'inline': True}, 'mj_wakeIsland': WAKE, 'mj_sleepCycle': CYCLE, 'mj_sleepTrees': SLEEPTREES, 'mj_updateSleepInit': UPDATE, 'mju_zero': ZERO, '__effect_free__': ('mju_isTopicEnabled',)}


CONTRACTS = contracts()
