"""C18 contracts: the sleep-cycle structure of tree_asleep (src/engine/engine_sleep.c), math ints.

tree_asleep[x] < 0: tree x is awake; >= 0: x is asleep and the value is the next tree of its sleep cycle.
Logical parameters describing ONE cycle (the one tree i belongs to): cid[x] = cycle label, C = label of i's cycle,
L = its length, ord[x] = position of x in the cycle counted from i (ord[i] == 0).  InCycle says the trees labelled C are
exactly one closed cycle of length L under the successor map tree_asleep."""

DEFS = {
    'a': 'tree_asleep',
    'InCycle': ('forall(lambda x: implies(0 <= x and x < ntree and cid[x] == C, '
                '0 <= a[x] and a[x] < ntree and cid[a[x]] == C and 0 <= ord[x] and ord[x] < L and '
                'ord[a[x]] == (ord[x] + 1 if ord[x] + 1 < L else 0))) and '
                'forall(lambda x, y: implies(0 <= x and x < ntree and 0 <= y and y < ntree and cid[x] == C and cid[y] == C and ord[x] == ord[y], x == y))'),
}

WAKE = {
    'ghost_params': {'cid': 'array', 'ord': 'array', 'C': 'int', 'L': 'int'},
    'params': {'tree_asleep': {'len': 'ntree'}, 'reason': {'null': True}},
    'requires': {'size': '0 < ntree and ntree < 2**30', 'tree_in_range': '0 <= i and i < ntree', 'wake_value_means_awake': 'wakeval < 0',
                 'cycle_of_i': 'implies(a[i] >= 0, cid[i] == C and ord[i] == 0 and 1 <= L and L <= ntree and InCycle)'},
    'assigns': ['tree_asleep[*]'],
    'ensures': {
        'awake_tree_only_lowers_its_own_counter': 'implies(old(a[i]) < 0, result == 0 and a[i] == imin(wakeval, old(a[i])) and '
                                                  'forall(lambda x: implies(0 <= x and x < ntree and x != i, a[x] == old(a[x]))))',
        'sleeping_tree_wakes_its_whole_cycle': 'implies(old(a[i]) >= 0, forall(lambda x: implies(0 <= x and x < ntree and cid[x] == C, a[x] == wakeval)))',
        'and_nothing_else': 'implies(old(a[i]) >= 0, forall(lambda x: implies(0 <= x and x < ntree and cid[x] != C, a[x] == old(a[x]))))',
        'returns_the_cycle_length': 'implies(old(a[i]) >= 0, result == L)',
    },
    'loops': {0: {'invariant': {
        'position': '0 <= nwoke and nwoke < L and 0 <= current and current < ntree and cid[current] == C and ord[current] == nwoke',
        'woken_prefix': 'forall(lambda x: implies(0 <= x and x < ntree and cid[x] == C and ord[x] < nwoke, a[x] == wakeval))',
        'rest_untouched': 'forall(lambda x: implies(0 <= x and x < ntree and (cid[x] != C or ord[x] >= nwoke), a[x] == old(a[x])))',
    }, 'variant': 'L - nwoke'}},
    'no_error': True,
}


CYCLE = {
    'ghost_params': {'cid': 'array', 'ord': 'array', 'C': 'int', 'L': 'int'},
    'params': {'tree_asleep': {'len': 'ntree'}},
    'requires': {'size': '0 <= ntree and ntree < 2**30',
                 'cycle_of_i': 'implies(0 <= i and i < ntree and a[i] >= 0, cid[i] == C and ord[i] == 0 and 1 <= L and L <= ntree and InCycle)'},
    'assigns': [],
    'ensures': {
        'minus_one_or_a_tree_not_above_i': 'result == -1 or (0 <= result and result <= i and result < ntree)',
        'out_of_range_index_gives_minus_one': 'implies(i < 0 or i >= ntree, result == -1)',
        'awake_tree_gives_minus_one': 'implies(0 <= i and i < ntree and a[i] < 0, result == -1)',
        'on_a_closed_cycle_returns_one_of_its_trees': 'implies(0 <= i and i < ntree and a[i] >= 0, result >= 0 and cid[result] == C)',
    },
    'loops': {0: {'invariant': {
        'walk': '0 <= i and i < ntree and 0 <= current and current < ntree and 0 <= smallest and smallest <= i and 0 <= count and count <= ntree',
        'on_cycle': 'implies(a[i] >= 0, cid[current] == C and cid[smallest] == C and ord[current] == count and count < L)',
        'awake_start': 'implies(a[i] < 0, current == i and count == 0)',
    }, 'variant': 'ntree + 1 - count'}},
    'no_error': True,
}

ZERO = {   # mju_zero(res, n): typed memset (body in engine_util_blas.c, verified here as its own unit)
    'requires': {'n': 'n >= 0'},
    'assigns': ['res[*]'],
    'ensures': {'zeroed': 'forall(lambda j: implies(off(res) <= j and j < off(res) + n, elem(res, j) == num_zero()))',
                'rest': 'forall(lambda j: implies(j < off(res) or j >= off(res) + n, elem(res, j) == old(elem(res, j))))'},
    'no_error': True,
}

# mj_sleepTrees(m, d, tree, n): the listed trees (distinct, all "ready to sleep" == -1) become one new cycle in list order.
# pos[x] = index of tree x in the list, or -1 (ghost inverse of the injective list)
T_A = 'd.tree_asleep'
LIST_OK = ('forall(lambda k: implies(0 <= k and k < n, 0 <= tree[k] and tree[k] < m.ntree and pos[tree[k]] == k)) and '
           'forall(lambda x: implies(0 <= x and x < m.ntree, pos[x] == -1 or (0 <= pos[x] and pos[x] < n and tree[pos[x]] == x)))')
SLEEPTREES = {
    'ghost_params': {'pos': 'array'},
    'params': {'m': {'n': 1, 'ptrfields': {'tree_dofadr': {'len': 'm.ntree'}, 'tree_dofnum': {'len': 'm.ntree'}}},
               'd': {'n': 1, 'ptrfields': {'tree_asleep': {'len': 'm.ntree'}, 'qvel': {'len': 'm.nv'}, 'qacc': {'len': 'm.nv'}}},
               'tree': {'len': 'n'}},
    'requires': {'sizes': '1 <= n and n <= m.ntree and m.ntree < 2**30 and 0 <= m.nv and m.nv < 2**30',
                 'list_of_distinct_trees': LIST_OK,
                 'all_ready_to_sleep': 'forall(lambda k: implies(0 <= k and k < n, %s[tree[k]] == -1))' % T_A,
                 'dof_ranges': 'forall(lambda x: implies(0 <= x and x < m.ntree, 0 <= m.tree_dofadr[x] and 0 <= m.tree_dofnum[x] and m.tree_dofadr[x] + m.tree_dofnum[x] <= m.nv))'},
    'assigns': ['d.tree_asleep[*]', 'd.qvel[*]', 'd.qacc[*]'],
    'ensures': {
        'listed_trees_form_one_cycle_in_list_order': 'forall(lambda k: implies(0 <= k and k < n, %s[tree[k]] == (tree[0] if k == n - 1 else tree[k + 1])))' % T_A,
        'other_trees_untouched': 'forall(lambda x: implies(0 <= x and x < m.ntree and pos[x] == -1, %s[x] == old(%s[x])))' % (T_A, T_A),
        'their_velocities_and_accelerations_are_zeroed': 'forall(lambda k, j: implies(0 <= k and k < n and m.tree_dofadr[tree[k]] <= j and j < m.tree_dofadr[tree[k]] + m.tree_dofnum[tree[k]], '
                                                         'd.qvel[j] == num_zero() and d.qacc[j] == num_zero()))',
    },
    'loops': {0: {'invariant': {
        'range': '0 <= i and i <= n',
        'linked_prefix': 'forall(lambda k: implies(0 <= k and k < i, %s[tree[k]] == (tree[0] if k == n - 1 else tree[k + 1])))' % T_A,
        'rest_still_ready': 'forall(lambda k: implies(i <= k and k < n, %s[tree[k]] == -1))' % T_A,
        'others': 'forall(lambda x: implies(0 <= x and x < m.ntree and pos[x] == -1, %s[x] == old(%s[x])))' % (T_A, T_A),
        'zeroed_prefix': 'forall(lambda k, j: implies(0 <= k and k < i and m.tree_dofadr[tree[k]] <= j and j < m.tree_dofadr[tree[k]] + m.tree_dofnum[tree[k]], '
                         'd.qvel[j] == num_zero() and d.qacc[j] == num_zero()))',
    }}},
    'no_error': True,
}


# mj_updateSleepInit: the derived arrays are exactly what the documented predicates select
BODY_STATE = ('(d.body_awake[b] == (mjS_AWAKE if (m.body_mocapid[m.body_rootid[b]] >= 0 or flg_staticawake != 0) else mjS_STATIC)) if m.body_treeid[b] < 0 '
              'else (d.body_awake[b] == (mjS_AWAKE if d.tree_asleep[m.body_treeid[b]] < 0 else mjS_ASLEEP))')
UPDATE = {
    'params': {'m': {'n': 1, 'ptrfields': {k: {'len': 'm.nbody'} for k in ('body_treeid', 'body_parentid', 'body_rootid', 'body_mocapid')} | {'dof_bodyid': {'len': 'm.nv'}}},
               'd': {'n': 1, 'ptrfields': {'tree_asleep': {'len': 'm.ntree'}, 'tree_awake': {'len': 'm.ntree'}, 'body_awake': {'len': 'm.nbody'},
                                           'body_awake_ind': {'len': 'm.nbody'}, 'parent_awake_ind': {'len': 'm.nbody'}, 'dof_awake_ind': {'len': 'm.nv'}}}},
    'requires': {'sizes': '0 <= m.ntree and m.ntree < 2**30 and 1 <= m.nbody and m.nbody < 2**30 and 0 <= m.nv and m.nv < 2**30',
                 'model_ids': 'forall(lambda b: implies(0 <= b and b < m.nbody, -1 <= m.body_treeid[b] and m.body_treeid[b] < m.ntree and 0 <= m.body_rootid[b] and '
                              'm.body_rootid[b] < m.nbody and 0 <= m.body_parentid[b] and m.body_parentid[b] < m.nbody and (b == 0 or m.body_parentid[b] < b))) and '
                              'forall(lambda j: implies(0 <= j and j < m.nv, 0 <= m.dof_bodyid[j] and m.dof_bodyid[j] < m.nbody))'},
    'assigns': ['d.tree_awake[*]', 'd.body_awake[*]', 'd.body_awake_ind[*]', 'd.parent_awake_ind[*]', 'd.dof_awake_ind[*]', 'd.ntree_awake', 'd.nbody_awake', 'd.nparent_awake', 'd.nv_awake'],
    'ensures': {
        'tree_awake_is_the_sign_of_tree_asleep': 'forall(lambda t: implies(0 <= t and t < m.ntree, d.tree_awake[t] == (1 if d.tree_asleep[t] < 0 else 0)))',
        'body_state': 'forall(lambda b: implies(0 <= b and b < m.nbody, %s))' % BODY_STATE,
        'counts_in_range': '0 <= d.ntree_awake and d.ntree_awake <= m.ntree and 0 <= d.nbody_awake and d.nbody_awake <= m.nbody and '
                           '0 <= d.nparent_awake and d.nparent_awake <= m.nbody and 0 <= d.nv_awake and d.nv_awake <= m.nv',
        'body_list_increasing_and_not_asleep': 'forall(lambda k: implies(0 <= k and k < d.nbody_awake, 0 <= d.body_awake_ind[k] and d.body_awake_ind[k] < m.nbody and '
                                               'd.body_awake[d.body_awake_ind[k]] != mjS_ASLEEP and (k == 0 or d.body_awake_ind[k - 1] < d.body_awake_ind[k])))',
        'parent_list_increasing_with_parents_not_asleep': 'forall(lambda k: implies(0 <= k and k < d.nparent_awake, 1 <= d.parent_awake_ind[k] and d.parent_awake_ind[k] < m.nbody and '
                                                          'd.body_awake[m.body_parentid[d.parent_awake_ind[k]]] != mjS_ASLEEP and (k == 0 or d.parent_awake_ind[k - 1] < d.parent_awake_ind[k])))',
        'dof_list_increasing_and_awake': 'forall(lambda k: implies(0 <= k and k < d.nv_awake, 0 <= d.dof_awake_ind[k] and d.dof_awake_ind[k] < m.nv and '
                                         'm.body_treeid[m.dof_bodyid[d.dof_awake_ind[k]]] >= 0 and d.body_awake[m.dof_bodyid[d.dof_awake_ind[k]]] == mjS_AWAKE and '
                                         '(k == 0 or d.dof_awake_ind[k - 1] < d.dof_awake_ind[k])))',
    },
    'loops': {
        0: {'invariant': {'range': '0 <= i and i <= ntree and ntree == m.ntree and nbody == m.nbody and nv == m.nv and 0 <= ntree_awake and ntree_awake <= i',
                          'done': 'forall(lambda t: implies(0 <= t and t < i, d.tree_awake[t] == (1 if d.tree_asleep[t] < 0 else 0)))'}},
        1: {'invariant': {'range': '0 <= i and i <= nbody and 0 <= nbody_awake and nbody_awake <= i and 0 <= nparent_awake and nparent_awake <= i',
                          'trees': 'forall(lambda t: implies(0 <= t and t < m.ntree, d.tree_awake[t] == (1 if d.tree_asleep[t] < 0 else 0)))',
                          'states': 'forall(lambda b: implies(0 <= b and b < i, %s))' % BODY_STATE,
                          'body_list': 'forall(lambda k: implies(0 <= k and k < nbody_awake, 0 <= d.body_awake_ind[k] and d.body_awake_ind[k] < i and '
                                       'd.body_awake[d.body_awake_ind[k]] != mjS_ASLEEP and (k == 0 or d.body_awake_ind[k - 1] < d.body_awake_ind[k])))',
                          'parent_list': 'forall(lambda k: implies(0 <= k and k < nparent_awake, 1 <= d.parent_awake_ind[k] and d.parent_awake_ind[k] < i and '
                                         'd.body_awake[m.body_parentid[d.parent_awake_ind[k]]] != mjS_ASLEEP and (k == 0 or d.parent_awake_ind[k - 1] < d.parent_awake_ind[k])))'}},
        2: {'invariant': {'range': '0 <= i and i <= nv and 0 <= nv_awake and nv_awake <= i',
                          'dof_list': 'forall(lambda k: implies(0 <= k and k < nv_awake, 0 <= d.dof_awake_ind[k] and d.dof_awake_ind[k] < i and '
                                      'm.body_treeid[m.dof_bodyid[d.dof_awake_ind[k]]] >= 0 and d.body_awake[m.dof_bodyid[d.dof_awake_ind[k]]] == mjS_AWAKE and '
                                      '(k == 0 or d.dof_awake_ind[k - 1] < d.dof_awake_ind[k])))'}},
    },
    'no_error': True,
}


# treeCanSleep(m, d, i, tol) with tol == 0 (the call mj_wake makes): a tree may stay asleep only if nothing was applied to it
CANSLEEP = {
    'params': {'m': {'n': 1, 'ptrfields': {'tree_sleep_policy': {'len': 'm.ntree'}, 'tree_bodyadr': {'len': 'm.ntree'}, 'tree_bodynum': {'len': 'm.ntree'},
                                           'tree_dofadr': {'len': 'm.ntree'}, 'tree_dofnum': {'len': 'm.ntree'}, 'dof_length': {'len': 'm.nv'}}},
               'd': {'n': 1, 'ptrfields': {'xfrc_applied': {'len': '6 * m.nbody'}, 'qfrc_applied': {'len': 'm.nv'}, 'qvel': {'len': 'm.nv'}}}},
    'requires': {'sizes': '0 <= i and i < m.ntree and m.ntree < 2**20 and 0 <= m.nbody and m.nbody < 2**20 and 0 <= m.nv and m.nv < 2**20',
                 'exact_test': 'fpEQ(tol, fp(0.0))',
                 'tree_ranges': '0 <= m.tree_bodyadr[i] and 0 <= m.tree_bodynum[i] and m.tree_bodyadr[i] + m.tree_bodynum[i] <= m.nbody and '
                                '0 <= m.tree_dofadr[i] and 0 <= m.tree_dofnum[i] and m.tree_dofadr[i] + m.tree_dofnum[i] <= m.nv'},
    'assigns': [],
    'defs': {'PZ': 'lambda v: v == fp(0.0)'},
    'ensures': {
        'zero_or_one': 'result == 0 or result == 1',
        'a_force_on_any_body_of_the_tree_forbids_sleep': 'implies(exists(lambda q: 6 * m.tree_bodyadr[i] <= q and q < 6 * (m.tree_bodyadr[i] + m.tree_bodynum[i]) and not PZ(d.xfrc_applied[q])), result == 0)',
        'a_generalized_force_on_any_dof_forbids_sleep': 'implies(exists(lambda q: m.tree_dofadr[i] <= q and q < m.tree_dofadr[i] + m.tree_dofnum[i] and not PZ(d.qfrc_applied[q])), result == 0)',
        'a_velocity_on_any_dof_forbids_sleep': 'implies(exists(lambda q: m.tree_dofadr[i] <= q and q < m.tree_dofadr[i] + m.tree_dofnum[i] and not PZ(d.qvel[q])), result == 0)',
        'never_policies_forbid_sleep': 'implies(m.tree_sleep_policy[i] == mjSLEEP_NEVER or m.tree_sleep_policy[i] == mjSLEEP_AUTO_NEVER, result == 0)',
        'otherwise_it_may_sleep': 'implies(result == 0, m.tree_sleep_policy[i] == mjSLEEP_NEVER or m.tree_sleep_policy[i] == mjSLEEP_AUTO_NEVER or '
                                  'exists(lambda q: 6 * m.tree_bodyadr[i] <= q and q < 6 * (m.tree_bodyadr[i] + m.tree_bodynum[i]) and not PZ(d.xfrc_applied[q])) or '
                                  'exists(lambda q: m.tree_dofadr[i] <= q and q < m.tree_dofadr[i] + m.tree_dofnum[i] and (not PZ(d.qfrc_applied[q]) or not PZ(d.qvel[q]))))',
    },
    'no_error': True, 'prune_ms': 300,
}


def contracts():
    return {'__defs__': DEFS, 'treeCanSleep': CANSLEEP, 'isSmaller': {'inline': True}, 'mj_wakeIsland': WAKE, 'mj_sleepCycle': CYCLE, 'mj_sleepTrees': SLEEPTREES, 'mj_updateSleepInit': UPDATE, 'mju_zero': ZERO, '__effect_free__': ('mju_isTopicEnabled',)}


CONTRACTS = contracts()


# ---------------------------------------------------------------------------------------------------------------
# The wake sweeps.  They call mj_wakeIsland / mj_sleepCycle without knowing the cycle structure, so they use a second,
# weaker VIEW of the two primitives: no ghost description of the cycle, the error exits allowed (mjERROR does not return),
# and only what every normal return guarantees - tree i ends awake, no awake tree falls asleep, nothing but the wake
# value is written.  Both views are verified against the same real bodies (props/C18.py); the strong one above carries
# "the whole cycle and nothing else", the weak one carries "the events the documentation lists do wake the tree".
WAKE_VIEW = {
    'params': {'tree_asleep': {'len': 'ntree'}, 'reason': {'null': True}},
    'requires': {'size': '0 < ntree and ntree < 2**30', 'wake_value_means_awake': 'wakeval < 0'},
    'assigns': ['tree_asleep[*]'],
    'ensures': {
        'tree_i_ends_awake': 'implies(0 <= i and i < ntree, a[i] < 0)',
        'no_awake_tree_falls_asleep': 'forall(lambda x: implies(0 <= x and x < ntree and old(a[x]) < 0, a[x] < 0))',
        'only_the_wake_value_is_written': 'forall(lambda x: implies(0 <= x and x < ntree and x != i, a[x] == old(a[x]) or a[x] == wakeval))',
        'count_not_negative': 'result >= 0 and result <= ntree',
    },
    'loops': {0: {'invariant': {
        'position': '0 <= nwoke and nwoke < ntree and 0 <= current and current < ntree and 0 <= i and i < ntree and old(a[i]) >= 0',
        'start_woken_after_first_step': 'implies(nwoke > 0, a[i] == wakeval)',
        'first_step_starts_at_i': 'implies(nwoke == 0, current == i)',
        'writes': 'forall(lambda x: implies(0 <= x and x < ntree, a[x] == old(a[x]) or a[x] == wakeval))',
    }}},
}

CYCLE_VIEW = {
    'params': {'tree_asleep': {'len': 'ntree'}},
    'requires': {'size': '0 <= ntree and ntree < 2**30'},
    'assigns': [],
    'ensures': {'minus_one_or_a_tree': 'result == -1 or (0 <= result and result < ntree)'},
    'loops': {0: {'invariant': {'walk': '0 <= i and i < ntree and 0 <= current and current < ntree and 0 <= smallest and smallest < ntree and 0 <= count and count <= ntree + 1'}}},
    'no_error': True,
}

# tendonLimit(m, ten_length, i) (engine_core_util.c): number of violated length limits of tendon i, a pure function of its arguments;
# callers name its value by the ghost array lim
TENDON_LIMIT = {
    'ghost_params': {'lim': 'array'},
    'assumed': True, 'requires': {}, 'assigns': [], 'pure': True,
    'ensures': {'value_named_by_the_ghost': 'result == lim[i]'},
}
TENDON_LIMIT_BODY = {
    'params': {'m': {'n': 1, 'ptrfields': {'tendon_limited': {'len': 'm.ntendon'}, 'tendon_margin': {'len': 'm.ntendon'}, 'tendon_range': {'len': '2 * m.ntendon'}}},
               'ten_length': {'len': 'm.ntendon'}},
    'requires': {'range': '0 <= i and i < m.ntendon and m.ntendon < 2**28'},
    'assigns': [],
    'ensures': {
        'unlimited_tendons_never_count': 'implies(m.tendon_limited[i] == 0, result == 0)',
        'zero_one_or_two': '0 <= result and result <= 2',
        'counts_the_violated_sides': 'implies(m.tendon_limited[i] != 0, (result >= 1) == '
                                     '(fpLT(z3.fpMul(z3.RNE(), fp(-1.0), z3.fpSub(z3.RNE(), m.tendon_range[2 * i], ten_length[i])), m.tendon_margin[i]) or '
                                     'fpLT(z3.fpMul(z3.RNE(), fp(1.0), z3.fpSub(z3.RNE(), m.tendon_range[2 * i + 1], ten_length[i])), m.tendon_margin[i])))',
    },
    'loops': {0: {'unroll': 2}},
    'no_error': True,
}

TA, TW = 'd.tree_asleep', 'd.tree_awake'
SLEEP_ON = '((m.opt.enableflags % 2**32) / mjENBL_SLEEP) % 2 == 1'      # the mjENBL_SLEEP bit of the enable flags (math ints: bit test by division)
CONSISTENT = 'forall(lambda t: implies(0 <= t and t < m.ntree, (%s[t] != 0) == (%s[t] < 0)))' % (TW, TA)   # what mj_updateSleepInit establishes (proved above)
MONO = 'forall(lambda x: implies(0 <= x and x < m.ntree and old(%s[x]) < 0, %s[x] < 0))' % (TA, TA)

# a limited two-tree tendon between an awake and a sleeping tree
TENDON_EVENT = ('lambda k: m.tendon_treenum[k] == 2 and lim[k] != 0 and (%s[m.tendon_treeid[2 * k]] != 0) != (%s[m.tendon_treeid[2 * k + 1]] != 0)' % (TW, TW))
WAKE_TENDON = {
    'ghost_params': {'lim': 'array'},
    'params': {'m': {'n': 1, 'ptrfields': {'tendon_treenum': {'len': 'm.ntendon'}, 'tendon_treeid': {'len': '2 * m.ntendon'}}},
               'd': {'n': 1, 'ptrfields': {'tree_asleep': {'len': 'm.ntree'}, 'tree_awake': {'len': 'm.ntree'}, 'ten_length': {'len': 'm.ntendon'}}}},
    'defs': {'EVENT': TENDON_EVENT},
    'requires': {'sizes': '0 <= m.ntree and m.ntree < 2**30 and 0 <= m.ntendon and m.ntendon < 2**28',
                 'tendon_trees': 'forall(lambda k: implies(0 <= k and k < m.ntendon and m.tendon_treenum[k] == 2, 0 <= m.tendon_treeid[2 * k] and m.tendon_treeid[2 * k] < m.ntree and '
                                 '0 <= m.tendon_treeid[2 * k + 1] and m.tendon_treeid[2 * k + 1] < m.ntree))',
                 'derived_flags_current': CONSISTENT,
                 'wake_counter_fits_an_int': '(m.ntendon + 1) * m.ntree < 2**31'},      # domain restriction: the sum of the per-call counts is bounded by calls * ntree here
    'assigns': ['d.tree_asleep[*]'],
    'ensures': {
        'a_limited_tendon_to_an_awake_tree_wakes_the_sleeping_one': 'implies(%s, forall(lambda k: implies(0 <= k and k < m.ntendon and EVENT(k), '
                                                                    '%s[m.tendon_treeid[2 * k]] < 0 and %s[m.tendon_treeid[2 * k + 1]] < 0)))' % (SLEEP_ON, TA, TA),
        'no_awake_tree_falls_asleep': MONO,
        'nothing_happens_with_sleep_disabled': 'implies(not (%s), result == 0 and forall(lambda x: implies(0 <= x and x < m.ntree, %s[x] == old(%s[x]))))' % (SLEEP_ON, TA, TA),
        'count_not_negative': 'result >= 0',
    },
    'loops': {0: {'invariant': {
        'range': '0 <= i and i <= ntendon and ntendon == m.ntendon and nwoke >= 0 and nwoke <= i * m.ntree and %s' % SLEEP_ON,
        'mono': MONO,
        'done': 'forall(lambda k: implies(0 <= k and k < i and EVENT(k), %s[m.tendon_treeid[2 * k]] < 0 and %s[m.tendon_treeid[2 * k + 1]] < 0))' % (TA, TA),
    }}},
    'ghost_args': {'tendonLimit': {'lim': 'lim'}},
}


# mj_wakeEquality: an active connect / weld / joint equality between a sleeping tree and an awake one (a tree that is awake, or a
# dof-less body marked awake: mocap) wakes the sleeping tree.  B1/B2 = the two bodies, T1/T2 their trees, S1/S2 their sleep states, all as
# functions of the model and of the derived flags at entry (the sweep reads tree_awake, which it does not update).
EXACT_FLAGS = 'forall(lambda t: implies(0 <= t and t < m.ntree, %s[t] == (1 if %s[t] < 0 else 0)))' % (TW, TA)   # ensures of mj_updateSleepInit
EQ_DEFS = {
    'CW': 'lambda k: m.eq_type[k] == mjEQ_CONNECT or m.eq_type[k] == mjEQ_WELD',
    'B1': 'lambda k: ((m.eq_obj1id[k] if m.eq_objtype[k] == mjOBJ_BODY else m.site_bodyid[m.eq_obj1id[k]]) if CW(k) else (m.jnt_bodyid[m.eq_obj1id[k]] if m.eq_obj1id[k] >= 0 else -1))',
    'B2': 'lambda k: ((m.eq_obj2id[k] if m.eq_objtype[k] == mjOBJ_BODY else m.site_bodyid[m.eq_obj2id[k]]) if CW(k) else (m.jnt_bodyid[m.eq_obj2id[k]] if m.eq_obj2id[k] >= 0 else -1))',
    'TR': 'lambda b: (m.body_treeid[b] if b >= 0 else -1)',
    'ST': 'lambda b: (d.tree_awake[TR(b)] if TR(b) >= 0 else (d.body_awake[b] if b >= 0 else mjS_STATIC))',
    'EVENT': ('lambda k: d.eq_active[k] != 0 and (CW(k) or m.eq_type[k] == mjEQ_JOINT) and TR(B1(k)) != TR(B2(k)) and '
              'ST(B1(k)) != mjS_STATIC and ST(B2(k)) != mjS_STATIC and (ST(B1(k)) == mjS_ASLEEP) != (ST(B2(k)) == mjS_ASLEEP)'),
    'WOKEN': 'lambda k: (%s[TR(B1(k))] < 0 if ST(B1(k)) == mjS_ASLEEP else %s[TR(B2(k))] < 0)' % (TA, TA),
    'BODY_OK': 'lambda b: 0 <= b and b < m.nbody',
    'FLEXEQ': 'lambda k: m.eq_type[k] == mjEQ_FLEX or m.eq_type[k] == mjEQ_FLEXVERT or m.eq_type[k] == mjEQ_FLEXSTRAIN',
}
WAKE_EQUALITY = {
    'params': {'m': {'n': 1, 'ptrfields': {'eq_type': {'len': 'm.neq'}, 'eq_obj1id': {'len': 'm.neq'}, 'eq_obj2id': {'len': 'm.neq'}, 'eq_objtype': {'len': 'm.neq'},
                                           'site_bodyid': {'len': 'm.nsite'}, 'jnt_bodyid': {'len': 'm.njnt'}, 'body_treeid': {'len': 'm.nbody'},
                                           'flex_interp': {'len': 'm.nflex'}, 'flex_nodenum': {'len': 'm.nflex'}, 'flex_nodeadr': {'len': 'm.nflex'},
                                           'flex_vertnum': {'len': 'm.nflex'}, 'flex_vertadr': {'len': 'm.nflex'},
                                           'flex_nodebodyid': {'len': 'm.nflexnode'}, 'flex_vertbodyid': {'len': 'm.nflexvert'}}},
               'd': {'n': 1, 'ptrfields': {'tree_asleep': {'len': 'm.ntree'}, 'tree_awake': {'len': 'm.ntree'}, 'body_awake': {'len': 'm.nbody'}, 'eq_active': {'len': 'm.neq'}}}},
    'defs': EQ_DEFS,
    'requires': {
        'sizes': '0 <= m.ntree and m.ntree < 2**30 and 0 <= m.neq and m.neq < 2**28 and 1 <= m.nbody and m.nbody < 2**30 and 0 <= m.nsite and m.nsite < 2**30 and '
                 '0 <= m.njnt and m.njnt < 2**30 and 0 <= m.nflex and m.nflex < 2**30 and 0 <= m.nflexnode and m.nflexnode < 2**30 and 0 <= m.nflexvert and m.nflexvert < 2**30',
        'wake_counter_fits_an_int': '2 * (m.neq + 1) * m.ntree < 2**31',
        'derived_flags_current': EXACT_FLAGS,
        'trees_of_bodies': 'forall(lambda b: implies(0 <= b and b < m.nbody, -1 <= m.body_treeid[b] and m.body_treeid[b] < m.ntree))',
        'dofless_bodies_are_static_or_awake': 'forall(lambda b: implies(0 <= b and b < m.nbody and m.body_treeid[b] < 0, d.body_awake[b] == mjS_STATIC or d.body_awake[b] == mjS_AWAKE))',   # ensures of mj_updateSleepInit
        'bodies_of_sites_and_joints': 'forall(lambda s: implies(0 <= s and s < m.nsite, BODY_OK(m.site_bodyid[s]))) and forall(lambda j: implies(0 <= j and j < m.njnt, BODY_OK(m.jnt_bodyid[j])))',
        'equality_objects': 'forall(lambda k: implies(0 <= k and k < m.neq, '
                            '(implies(CW(k) and m.eq_objtype[k] == mjOBJ_BODY, BODY_OK(m.eq_obj1id[k]) and BODY_OK(m.eq_obj2id[k])) and '
                            'implies(CW(k) and m.eq_objtype[k] != mjOBJ_BODY, 0 <= m.eq_obj1id[k] and m.eq_obj1id[k] < m.nsite and 0 <= m.eq_obj2id[k] and m.eq_obj2id[k] < m.nsite) and '
                            'implies(m.eq_type[k] == mjEQ_JOINT, -1 <= m.eq_obj1id[k] and m.eq_obj1id[k] < m.njnt and -1 <= m.eq_obj2id[k] and m.eq_obj2id[k] < m.njnt) and '
                            'implies(FLEXEQ(k), 0 <= m.eq_obj1id[k] and m.eq_obj1id[k] < m.nflex))))',
        'flex_ranges': 'forall(lambda f: implies(0 <= f and f < m.nflex, 0 <= m.flex_nodeadr[f] and 0 <= m.flex_nodenum[f] and m.flex_nodeadr[f] + m.flex_nodenum[f] <= m.nflexnode and '
                       '0 <= m.flex_vertadr[f] and 0 <= m.flex_vertnum[f] and m.flex_vertadr[f] + m.flex_vertnum[f] <= m.nflexvert)) and '
                       'forall(lambda q: implies(0 <= q and q < m.nflexnode, BODY_OK(m.flex_nodebodyid[q]))) and forall(lambda q: implies(0 <= q and q < m.nflexvert, BODY_OK(m.flex_vertbodyid[q])))',
    },
    'assigns': ['d.tree_asleep[*]'],
    'ensures': {
        'an_active_equality_to_an_awake_side_wakes_the_sleeping_tree': 'implies(%s, forall(lambda k: implies(0 <= k and k < m.neq and EVENT(k), WOKEN(k))))' % SLEEP_ON,
        'no_awake_tree_falls_asleep': MONO,
        'nothing_happens_with_sleep_disabled': 'implies(not (%s), result == 0 and forall(lambda x: implies(0 <= x and x < m.ntree, %s[x] == old(%s[x]))))' % (SLEEP_ON, TA, TA),
        'count_not_negative': 'result >= 0',
    },
    'loops': {
        0: {'invariant': {
            'range': '0 <= i and i <= neq and neq == m.neq and nwoke >= 0 and nwoke <= 2 * i * m.ntree and %s' % SLEEP_ON,
            'mono': MONO,
            'done': 'forall(lambda k: implies(0 <= k and k < i and EVENT(k), WOKEN(k)))'}},
        1: {'invariant': {'range': '0 <= j and j <= num'}},
        2: {'invariant': {'range': '0 <= j and j <= num and 0 <= i and i < neq and neq == m.neq and nwoke >= 0 and nwoke <= 2 * i * m.ntree and %s' % SLEEP_ON,
                          'mono': MONO,
                          'done': 'forall(lambda k: implies(0 <= k and k < i and EVENT(k), WOKEN(k)))'}},
    },
    'prune_ms': 300,
}


# mj_wakeCollision, geom-geom contacts (contract domain: no flex contacts, con.geom[0..1] >= 0; the flex side lookup mj_flexBody is not
# under contract).  A contact between a sleeping tree and an awake tree - or a dof-less body marked awake (mocap) - wakes the sleeping tree.
CON_DEFS = {
    'CB': 'lambda c, s: m.geom_bodyid[d.contact[c].geom[s]]',
    'CT': 'lambda c, s: m.body_treeid[CB(c, s)]',
    'BOTH_TREES': 'lambda c: CT(c, 0) >= 0 and CT(c, 1) >= 0 and (d.tree_awake[CT(c, 0)] != 0) != (d.tree_awake[CT(c, 1)] != 0)',
    'MOCAP_SIDE': 'lambda c, s: CT(c, s) < 0 and CT(c, 1 - s) >= 0 and d.tree_awake[CT(c, 1 - s)] == 0 and d.body_awake[CB(c, s)] == mjS_AWAKE',
}
WAKE_COLLISION = {
    'params': {'m': {'n': 1, 'ptrfields': {'geom_bodyid': {'len': 'm.ngeom'}, 'body_treeid': {'len': 'm.nbody'}}},
               'd': {'n': 1, 'ptrfields': {'tree_asleep': {'len': 'm.ntree'}, 'tree_awake': {'len': 'm.ntree'}, 'body_awake': {'len': 'm.nbody'}, 'contact': {'len': 'd.ncon'}}}},
    'defs': CON_DEFS,
    'requires': {
        'sizes': '0 <= m.ntree and m.ntree < 2**30 and 0 <= d.ncon and d.ncon < 2**28 and 1 <= m.nbody and m.nbody < 2**30 and 0 <= m.ngeom and m.ngeom < 2**30',
        'wake_counter_fits_an_int': '(d.ncon + 1) * m.ntree < 2**31',
        'derived_flags_current': EXACT_FLAGS,
        'geom_contacts_only': 'forall(lambda c: implies(0 <= c and c < d.ncon, 0 <= d.contact[c].geom[0] and d.contact[c].geom[0] < m.ngeom and 0 <= d.contact[c].geom[1] and d.contact[c].geom[1] < m.ngeom))',
        'bodies_of_geoms': 'forall(lambda g: implies(0 <= g and g < m.ngeom, 0 <= m.geom_bodyid[g] and m.geom_bodyid[g] < m.nbody))',
        'trees_of_bodies': 'forall(lambda b: implies(0 <= b and b < m.nbody, -1 <= m.body_treeid[b] and m.body_treeid[b] < m.ntree))',
    },
    'assigns': ['d.tree_asleep[*]'],
    'ensures': {
        'a_contact_with_an_awake_tree_wakes_the_sleeping_tree': 'implies(%s, forall(lambda c: implies(0 <= c and c < d.ncon and BOTH_TREES(c), %s[CT(c, 0)] < 0 and %s[CT(c, 1)] < 0)))' % (SLEEP_ON, TA, TA),
        'a_contact_with_an_awake_dofless_body_wakes_the_sleeping_tree': 'implies(%s, forall(lambda c: implies(0 <= c and c < d.ncon, implies(MOCAP_SIDE(c, 0), %s[CT(c, 1)] < 0) and implies(MOCAP_SIDE(c, 1), %s[CT(c, 0)] < 0))))' % (SLEEP_ON, TA, TA),
        'no_awake_tree_falls_asleep': MONO,
        'nothing_happens_with_sleep_disabled': 'implies(not (%s), result == 0 and forall(lambda x: implies(0 <= x and x < m.ntree, %s[x] == old(%s[x]))))' % (SLEEP_ON, TA, TA),
        'count_not_negative': 'result >= 0',
    },
    'loops': {0: {'invariant': {
        'range': '0 <= i and i <= ncon and ncon == d.ncon and ntree == m.ntree and nwoke >= 0 and nwoke <= i * m.ntree and %s' % SLEEP_ON,
        'mono': MONO,
        'done_trees': 'forall(lambda c: implies(0 <= c and c < i and BOTH_TREES(c), %s[CT(c, 0)] < 0 and %s[CT(c, 1)] < 0))' % (TA, TA),
        'done_mocap': 'forall(lambda c: implies(0 <= c and c < i, implies(MOCAP_SIDE(c, 0), %s[CT(c, 1)] < 0) and implies(MOCAP_SIDE(c, 1), %s[CT(c, 0)] < 0)))' % (TA, TA),
    }}},
    'prune_ms': 300,
}

# mj_wake: a sleeping tree whose qpos was changed (flagged in tree_awake by the kinematics pass) or which carries any applied force or
# velocity is woken; with sleeping disabled every tree is set awake when some still sleep
FORCE_ON = ('lambda t: exists(lambda q: 6 * m.tree_bodyadr[t] <= q and q < 6 * (m.tree_bodyadr[t] + m.tree_bodynum[t]) and not (d.xfrc_applied[q] == fp(0.0))) or '
            'exists(lambda q: m.tree_dofadr[t] <= q and q < m.tree_dofadr[t] + m.tree_dofnum[t] and (not (d.qfrc_applied[q] == fp(0.0)) or not (d.qvel[q] == fp(0.0))))')
WAKE_USER = {
    'params': {'m': {'n': 1, 'ptrfields': {'tree_sleep_policy': {'len': 'm.ntree'}, 'tree_bodyadr': {'len': 'm.ntree'}, 'tree_bodynum': {'len': 'm.ntree'},
                                           'tree_dofadr': {'len': 'm.ntree'}, 'tree_dofnum': {'len': 'm.ntree'}, 'dof_length': {'len': 'm.nv'}}},
               'd': {'n': 1, 'ptrfields': {'xfrc_applied': {'len': '6 * m.nbody'}, 'qfrc_applied': {'len': 'm.nv'}, 'qvel': {'len': 'm.nv'},
                                           'tree_asleep': {'len': 'm.ntree'}, 'tree_awake': {'len': 'm.ntree'}}}},
    'defs': {'FORCE_ON': FORCE_ON},
    'requires': {
        'sizes': '0 <= m.ntree and m.ntree < 2**15 and 0 <= m.nbody and m.nbody < 2**20 and 0 <= m.nv and m.nv < 2**20 and 0 <= d.ntree_awake and d.ntree_awake <= m.ntree',
        'tree_ranges': 'forall(lambda t: implies(0 <= t and t < m.ntree, 0 <= m.tree_bodyadr[t] and 0 <= m.tree_bodynum[t] and m.tree_bodyadr[t] + m.tree_bodynum[t] <= m.nbody and '
                       '0 <= m.tree_dofadr[t] and 0 <= m.tree_dofnum[t] and m.tree_dofadr[t] + m.tree_dofnum[t] <= m.nv))',
    },
    'assigns': ['d.tree_asleep[*]'],
    'ensures': {
        'a_flagged_qpos_change_wakes_the_tree': 'implies(%s, forall(lambda t: implies(0 <= t and t < m.ntree and d.tree_awake[t] != 0, %s[t] < 0)))' % (SLEEP_ON, TA),
        'an_applied_force_or_velocity_wakes_the_tree': 'implies(%s, forall(lambda t: implies(0 <= t and t < m.ntree and FORCE_ON(t), %s[t] < 0)))' % (SLEEP_ON, TA),
        'no_awake_tree_falls_asleep': MONO,
        'with_sleep_disabled_sleeping_trees_are_all_woken': 'implies(not (%s) and d.ntree_awake < m.ntree, forall(lambda t: implies(0 <= t and t < m.ntree, %s[t] < 0)))' % (SLEEP_ON, TA),
        'count_not_negative': 'result >= 0',
    },
    'loops': {0: {'invariant': {
        'range': '0 <= i and i <= ntree and ntree == m.ntree and nwoke >= 0 and nwoke <= i * m.ntree and %s' % SLEEP_ON,
        'mono': MONO,
        'done_flagged': 'forall(lambda t: implies(0 <= t and t < i and d.tree_awake[t] != 0, %s[t] < 0))' % TA,
        'done_forced': 'forall(lambda t: implies(0 <= t and t < i and FORCE_ON(t), %s[t] < 0))' % TA,
    }}},
    'prune_ms': 300,
}

FILL_INT = {   # mju_fillInt(res, val, n) (engine_util_misc.c), verified as its own unit
    'requires': {'n': 'n >= 0'},
    'assigns': ['res[*]'],
    'ensures': {'filled': 'forall(lambda j: implies(off(res) <= j and j < off(res) + n, elem(res, j) == val))',
                'rest': 'forall(lambda j: implies(j < off(res) or j >= off(res) + n, elem(res, j) == old(elem(res, j))))'},
    'loops': {0: {'invariant': {'range': '0 <= i and i <= n',
                                'filled': 'forall(lambda j: implies(off(res) <= j and j < off(res) + i, elem(res, j) == val))',
                                'rest': 'forall(lambda j: implies(j < off(res) or j >= off(res) + i, elem(res, j) == old(elem(res, j))))'}}},
    'no_error': True,
}


# mj_sleep, PREFIX contract (entry .. exit of the first sweep): the countdown of awake trees.  treeCanSleep with the model's tolerance is named by
# the ghost array CS (a pure function of the tree for fixed model and data; its exact form with tol == 0 is proved above).
CANSLEEP_NAMED = {'assumed': True, 'ghost_params': {'CS': 'array'}, 'requires': {}, 'assigns': [], 'pure': True,
                  'ensures': {'value_named_by_the_ghost': 'result == CS[i]'}}
from contracts import modeltab as _mt
MINAWAKE = '(-(1 + %d))' % _mt.int_macros()['mjMINAWAKE']       # read from mjmodel.h on every run
SLEEP_PREFIX = {
    'ghost_params': {'CS': 'array'},
    'params': {'m': {'n': 1}, 'd': {'n': 1, 'ptrfields': {'tree_asleep': {'len': 'm.ntree'}}}},
    'requires': {'sizes': '0 <= m.ntree and m.ntree < 2**30'},
    'assigns': ['d.tree_asleep[*]'],
    'ensures': {'nothing_happens_with_sleep_disabled_or_without_islands': 'forall(lambda t: implies(0 <= t and t < m.ntree, %s[t] == old(%s[t])))' % (TA, TA), 'none_slept': 'result == 0'},
    'loops': {0: {
        'invariant': {'range': '0 <= i and i <= ntree and ntree == m.ntree and nslept == 0',
                      'done': 'forall(lambda t: implies(0 <= t and t < i, %s[t] == (old(%s[t]) if old(%s[t]) >= 0 else ((imin(old(%s[t]) + 1, -1)) if CS[t] != 0 else %s))))' % (TA, TA, TA, TA, MINAWAKE),
                      'rest': 'forall(lambda t: implies(i <= t and t < m.ntree, %s[t] == old(%s[t])))' % (TA, TA)},
        'stop_after': {
            'sleeping_trees_are_left_alone': 'forall(lambda t: implies(0 <= t and t < m.ntree and old(%s[t]) >= 0, %s[t] == old(%s[t])))' % (TA, TA, TA),
            'an_awake_tree_that_may_sleep_counts_up_to_minus_one': 'forall(lambda t: implies(0 <= t and t < m.ntree and old(%s[t]) < 0 and CS[t] != 0, %s[t] == imin(old(%s[t]) + 1, -1)))' % (TA, TA, TA),
            'an_awake_tree_that_may_not_sleep_restarts_its_countdown': 'forall(lambda t: implies(0 <= t and t < m.ntree and old(%s[t]) < 0 and CS[t] == 0, %s[t] == %s))' % (TA, TA, MINAWAKE),
            'no_tree_falls_asleep_in_the_countdown_sweep': 'forall(lambda t: implies(0 <= t and t < m.ntree and old(%s[t]) < 0, %s[t] < 0))' % (TA, TA),
        }},
    },
    'ghost_args': {'treeCanSleep': {'CS': 'CS'}},
}


def sleep_prefix_contracts():
    return {'__defs__': DEFS, 'mj_sleep': SLEEP_PREFIX, 'treeCanSleep': CANSLEEP_NAMED, 'isSmaller': {'inline': True}, '__effect_free__': ('mju_isTopicEnabled',)}


def wake_contracts():
    """contracts for the wake sweeps: the two primitives through their weak views"""
    return {'__defs__': DEFS, 'mj_wakeIsland': WAKE_VIEW, 'mj_sleepCycle': CYCLE_VIEW, 'tendonLimit': TENDON_LIMIT, 'mj_wakeTendon': WAKE_TENDON, 'mj_wakeEquality': WAKE_EQUALITY, 'mj_wakeCollision': WAKE_COLLISION, 'mj_wake': WAKE_USER, 'mju_fillInt': FILL_INT, 'mj_flexBody': {'inline': True, 'pure_inline': True},
            'treeCanSleep': CANSLEEP, 'isSmaller': {'inline': True}, '__effect_free__': ('mju_isTopicEnabled',)}
