"""C26 contracts: the state vector API (src/engine/engine_support.c), math ints, opaque mjtNum.

The component table below is written from the documentation of mjtState / mjData (include/mujoco/mjtype.h,
mjdata.h), NOT read from the code: bit b selects component COMP[b] of length ESZ[b]."""

NSTATE = 14
# (bit, field of mjData, length in mjModel terms, kind)
TABLE = [
    (0, 'time', '1', 'scalar'),
    (1, 'qpos', 'm.nq', 'num'),
    (2, 'qvel', 'm.nv', 'num'),
    (3, 'act', 'm.na', 'num'),
    (4, 'history', 'm.nhistory', 'num'),
    (5, 'qacc_warmstart', 'm.nv', 'num'),
    (6, 'ctrl', 'm.nu', 'num'),
    (7, 'qfrc_applied', 'm.nv', 'num'),
    (8, 'xfrc_applied', '6 * m.nbody', 'num'),
    (9, 'eq_active', 'm.neq', 'byte'),     # mjtBool (C bool) per element, widened to mjtNum in the state vector
    (10, 'mocap_pos', '3 * m.nmocap', 'num'),
    (11, 'mocap_quat', '4 * m.nmocap', 'num'),
    (12, 'userdata', 'm.nuserdata', 'num'),
    (13, 'plugin_state', 'm.npluginstate', 'num'),
]
SIZES = ['nq', 'nv', 'na', 'nhistory', 'nu', 'nbody', 'neq', 'nmocap', 'nuserdata', 'npluginstate']


def bit(sig, b):
    """bit b of the 32-bit two's-complement value sig."""
    return '(((%s %% 4294967296) / %d) %% 2 == 1)' % (sig, 1 << b)


def esz(b):
    return '(' + TABLE[b][2] + ')'


def adr(sig, b):
    """offset of component b in the state vector for signature sig."""
    return '(' + ' + '.join(['0'] + ['(%s if %s else 0)' % (esz(c), bit(sig, c)) for c in range(b)]) + ')'


def size(sig):
    return adr(sig, NSTATE)


def comp(dname, b, k, old=False):
    f = TABLE[b][1]
    e = '%s.time' % dname if TABLE[b][3] == 'scalar' else '%s.%s[%s]' % (dname, f, k)
    return 'old(%s)' % e if old else e


def comp_as_num(dname, b, k, old=False):
    e = comp(dname, b, k, old)
    return 'num_of_int(%s)' % e if TABLE[b][3] == 'byte' else e


MODEL_INV = ' and '.join('m.%s >= 0' % s for s in SIZES)
# sizes small enough that no int sum below overflows (a model whose state has 2^31 entries cannot be allocated)
NO_OVERFLOW = ' and '.join('m.%s <= 2**24' % s for s in SIZES)
SIG_OK = '0 <= sig and sig < 2**14'

D_FIELDS = {TABLE[b][1]: {'len': TABLE[b][2]} for b in range(1, NSTATE)}
D_SPEC = {'n': 1, 'ptrfields': D_FIELDS}


def get_ensures(state, sig, dname):
    ens = {}
    for b in range(NSTATE):
        ens['segment_%d_%s' % (b, TABLE[b][1])] = (
            'implies(%s, forall(lambda k: implies(0 <= k and k < %s, %s[%s + k] == %s)))'
            % (bit(sig, b), esz(b), state, adr(sig, b), comp_as_num(dname, b, 'k')))
    ens['writes_exactly_stateSize'] = 'forall(lambda k: implies(k < 0 or k >= %s, %s[k] == old(%s[k])))' % (size(sig), state, state)
    return ens


def set_ensures(state, sig, dname):
    ens = {}
    for b in range(NSTATE):
        val = 'old(%s[%s + k])' % (state, adr(sig, b))
        if TABLE[b][3] == 'byte':
            val = 'bool_of_num(%s)' % val
        ens['loads_%d_%s' % (b, TABLE[b][1])] = (
            'implies(%s, forall(lambda k: implies(0 <= k and k < %s, %s == %s)))' % (bit(sig, b), esz(b), comp(dname, b, 'k'), val))
        ens['keeps_%d_%s' % (b, TABLE[b][1])] = (
            'implies(not %s, forall(lambda k: %s == %s))' % (bit(sig, b), comp(dname, b, 'k'), comp(dname, b, 'k', old=True)))
    return ens


SET_ASSIGNS = ['d.time'] + ['d.%s[*]' % TABLE[b][1] for b in range(1, NSTATE)]

INNER_GET = {'invariant': {
    'j': '0 <= j and j <= neq and neq == m.neq',
    'adr': 'adr == entry(adr) + j',
    'copied': 'forall(lambda k: implies(0 <= k and k < j, state[entry(adr) + k] == num_of_int(d.eq_active[k])))',
    'rest': 'forall(lambda k: implies(k < entry(adr) or k >= entry(adr) + j, state[k] == entry(state[k])))',
}}
INNER_SET = {'invariant': {
    'j': '0 <= j and j <= neq and neq == m.neq',
    'adr': 'adr == entry(adr) + j',
    'copied': 'forall(lambda k: implies(0 <= k and k < j, d.eq_active[k] == bool_of_num(state[entry(adr) + k])))',
    'rest': 'forall(lambda k: implies(k < 0 or k >= j, d.eq_active[k] == entry(d.eq_active[k])))',
}}
# second formulations that do not name the loop-bound temporary (so a rewritten loop header still binds)
INNER_GET2 = {'invariant': {
    'j': '0 <= j and j <= m.neq',
    'copied': 'forall(lambda k: implies(0 <= k and k < j, state[entry(adr) + k] == num_of_int(d.eq_active[k])))',
    'rest': 'forall(lambda k: implies(k < entry(adr) or k >= entry(adr) + j, state[k] == entry(state[k])))',
}}
INNER_SET2 = {'invariant': {
    'j': '0 <= j and j <= m.neq',
    'copied': 'forall(lambda k: implies(0 <= k and k < j, d.eq_active[k] == bool_of_num(state[entry(adr) + k])))',
    'rest': 'forall(lambda k: implies(k < 0 or k >= j, d.eq_active[k] == entry(d.eq_active[k])))',
}}
INNER_COPY = {'invariant': {
    'j': '0 <= j and j <= neq and neq == m.neq',
    'copied': 'forall(lambda k: implies(0 <= k and k < j, dst.eq_active[k] == src.eq_active[k]))',
    'rest': 'forall(lambda k: implies(k < 0 or k >= j, dst.eq_active[k] == entry(dst.eq_active[k])))',
}}

REQ = {'model': MODEL_INV, 'sizes_fit_int': NO_OVERFLOW}


def cut(inv_at):
    return {'cut_unroll': True, 'keep': ['i'], 'unroll': 20, 'invariant_at': inv_at, 'forget_pc': True}


def get_inv(i):
    ens = get_ensures('state', 'sig', 'd')
    inv = {k: v for k, v in ens.items() if k.startswith('segment_') and int(k.split('_')[1]) < i}
    inv['adr'] = 'adr == ' + adr('sig', i)
    inv['rest'] = 'forall(lambda k: implies(k < 0 or k >= adr, state[k] == old(state[k])))'
    inv['sig'] = SIG_OK
    return inv


def set_inv(i):
    ens = set_ensures('state', 'sig', 'd')
    inv = {k: v for k, v in ens.items() if int(k.split('_')[1]) < i}
    inv['adr'] = 'adr == ' + adr('sig', i)
    inv['sig'] = SIG_OK
    return inv


def copy_inv(i):
    ens = CONTRACTS['mj_copyState']['ensures']
    inv = {k: v for k, v in ens.items() if int(k.split('_')[1]) < i}
    inv['sig'] = SIG_OK
    return inv


def size_inv(i):
    return {'size': 'size == ' + adr('sig', i), 'sig': SIG_OK}


def extract_inv(i):
    ens = CONTRACTS['mj_extractState']['ensures']
    inv = {}
    inv['src_at'] = 'off(src) == ' + adr('srcsig', i) + ' and same_obj(src, old(src))'
    inv['dst_at'] = 'off(dst) == ' + adr('dstsig', i) + ' and same_obj(dst, old(dst))'
    inv['rest'] = 'forall(lambda k: implies(k < 0 or k >= off(dst), now(old(dst))[k] == old(dst[k])))'
    for c in range(NSTATE):
        inv['nonneg_src_%d' % c] = '(%s if %s else 0) >= 0' % (esz(c), bit('srcsig', c))
        inv['nonneg_dst_%d' % c] = '(%s if %s else 0) >= 0' % (esz(c), bit('dstsig', c))
    inv['sigs'] = '0 <= srcsig and srcsig < 2**14 and And(*[implies(%s, %s) for b in range(14)])'.replace('%s', '{}').format(
        '(((dstsig % 4294967296) / 2**b) % 2 == 1)', '(((srcsig % 4294967296) / 2**b) % 2 == 1)')
    return inv


CONTRACTS = {
    'mj_stateElemSize': {'inline': True},
    'mj_stateElemPtr': {'inline': True},
    'mj_stateElemConstPtr': {'inline': True},
    'mju_copy': {
        'requires': {'n': 'n >= 0'},
        'assigns': ['res[*]'],
        'ensures': {
            'copied': 'forall(lambda j: implies(off(res) <= j and j < off(res) + n, elem(res, j) == old(elem(vec, j - off(res) + off(vec)))))',
            'rest': 'forall(lambda j: implies(j < off(res) or j >= off(res) + n, elem(res, j) == old(elem(res, j))))',
        },
        'no_error': True,
    },
    'mj_stateSize': {
        'drop_dead_ptr_locals': True,   # per-iteration pointer temporaries (ptr, dst_ptr, src_ptr) are dead at the joins
        'requires': REQ,
        'assigns': [],
        'ensures': {'sum_of_selected_sizes': 'result == ' + size('sig')},
        'error_only_if': 'not (%s)' % SIG_OK,
        'loops': {0: cut(size_inv)},
    },
    'mj_getState': {
        'drop_dead_ptr_locals': True,   # per-iteration pointer temporaries (ptr, dst_ptr, src_ptr) are dead at the joins
        'requires': REQ,
        'params': {'d': D_SPEC, 'state': {'len': 'ite(%s, %s, 0)' % (SIG_OK, size('sig'))}},
        'assigns': ['state[*]'],
        'ensures': get_ensures('state', 'sig', 'd'),
        'error_only_if': 'not (%s)' % SIG_OK,
        'loops': {0: cut(get_inv), 1: [INNER_GET, INNER_GET2]},
    },
    'mj_setState': {
        'drop_dead_ptr_locals': True,   # per-iteration pointer temporaries (ptr, dst_ptr, src_ptr) are dead at the joins
        'requires': REQ,
        'params': {'d': D_SPEC, 'state': {'len': 'ite(%s, %s, 0)' % (SIG_OK, size('sig'))}},
        'assigns': SET_ASSIGNS,
        'ensures': set_ensures('state', 'sig', 'd'),
        'error_only_if': 'not (%s)' % SIG_OK,
        'loops': {0: cut(set_inv), 1: [INNER_SET, INNER_SET2]},
    },
    'mj_copyState': {
        'drop_dead_ptr_locals': True,   # per-iteration pointer temporaries (ptr, dst_ptr, src_ptr) are dead at the joins
        'requires': REQ,
        'params': {'src': D_SPEC, 'dst': D_SPEC},
        'assigns': ['dst.time'] + ['dst.%s[*]' % TABLE[b][1] for b in range(1, NSTATE)],
        'ensures': dict(
            [('copies_%d_%s' % (b, TABLE[b][1]),
              'implies(%s, forall(lambda k: implies(0 <= k and k < %s, %s == %s)))' % (bit('sig', b), esz(b), comp('dst', b, 'k'), comp('src', b, 'k', old=True)))
             for b in range(NSTATE)] +
            [('keeps_%d_%s' % (b, TABLE[b][1]),
              'implies(not %s, forall(lambda k: %s == %s))' % (bit('sig', b), comp('dst', b, 'k'), comp('dst', b, 'k', old=True)))
             for b in range(NSTATE)]),
        'error_only_if': 'not (%s)' % SIG_OK,
        'loops': {0: cut(copy_inv), 1: INNER_COPY},
    },
    'mj_extractState': {
        'drop_dead_ptr_locals': True,   # per-iteration pointer temporaries (ptr, dst_ptr, src_ptr) are dead at the joins
        'requires': REQ,
        'params': {'src': {'len': 'ite(0 <= srcsig and srcsig < 2**14, %s, 0)' % size('srcsig')},
                   'dst': {'len': 'ite(0 <= srcsig and srcsig < 2**14 and 0 <= dstsig and dstsig < 2**14, %s, 0)' % size('dstsig')}},
        'assigns': ['dst[*]'],
        # the CONTENT clause (segment b of dst equals segment b of src for every b in dstsig) is not part of the
        # deductive contract: its cut-point proof left solver timeouts at the late iterations (DESIGN.md, C26); it is
        # covered by the bounded stand-in in props/C26.py. Proved here: layout (final offsets), bounds, frame, error-iff.
        'ensures': dict(
            [('writes_exactly_dst_size', 'forall(lambda k: implies(k < 0 or k >= %s, now(old(dst))[k] == old(dst[k])))' % size('dstsig'))]),
        'error_only_if': 'not (0 <= srcsig and srcsig < 2**14) or not And(*[implies(%s, %s) for b in range(14)]) or dstsig < 0 or dstsig >= 2**14'
                         .replace('%s', '{}').format('(((dstsig % 4294967296) / 2**b) % 2 == 1)', '(((srcsig % 4294967296) / 2**b) % 2 == 1)'),
        'loops': {0: cut(extract_inv)},
    },

    # ---- keyframes ---------------------------------------------------------------------------------
    '_resetData': {
        'assumed': True,     # 300-line field-by-field initialiser: only its frame is used (it may rewrite all of mjData's
                             # scalars and arrays, it does not reallocate them); its own postcondition is NOT verified
        'requires': {}, 'ensures': {},
        'assigns': ['d.*nonptr'] + ['d.%s[*]' % TABLE[b][1] for b in range(1, NSTATE)],
    },
    'mj_resetDataKeyframe': {
        'requires': dict(REQ, nkey='m.nkey >= 0 and m.nkey <= 2**20'),
        'params': {'d': D_SPEC, 'm': {'n': 1, 'ptrfields': {
            'key_time': {'len': 'm.nkey'}, 'key_qpos': {'len': 'm.nkey * m.nq'}, 'key_qvel': {'len': 'm.nkey * m.nv'},
            'key_act': {'len': 'm.nkey * m.na'}, 'key_mpos': {'len': 'm.nkey * 3 * m.nmocap'},
            'key_mquat': {'len': 'm.nkey * 4 * m.nmocap'}, 'key_ctrl': {'len': 'm.nkey * m.nu'}}}},
        'ensures': dict(
            [('loads_time', 'implies(0 <= key and key < m.nkey, d.time == m.key_time[key])')] +
            [('loads_' + f, 'implies(0 <= key and key < m.nkey, forall(lambda k: implies(0 <= k and k < %s, d.%s[k] == m.%s[key * (%s) + k])))' % (n, f, kf, n))
             for f, kf, n in (('qpos', 'key_qpos', 'm.nq'), ('qvel', 'key_qvel', 'm.nv'), ('act', 'key_act', 'm.na'),
                              ('mocap_pos', 'key_mpos', '3 * m.nmocap'), ('mocap_quat', 'key_mquat', '4 * m.nmocap'),
                              ('ctrl', 'key_ctrl', 'm.nu'))]),
        'no_error': True,
    },
    'mj_setKeyframe': {
        'requires': dict(REQ, nkey='m.nkey >= 0 and m.nkey <= 2**20'),
        'params': {'d': D_SPEC, 'm': {'n': 1, 'ptrfields': {
            'key_time': {'len': 'm.nkey'}, 'key_qpos': {'len': 'm.nkey * m.nq'}, 'key_qvel': {'len': 'm.nkey * m.nv'},
            'key_act': {'len': 'm.nkey * m.na'}, 'key_mpos': {'len': 'm.nkey * 3 * m.nmocap'},
            'key_mquat': {'len': 'm.nkey * 4 * m.nmocap'}, 'key_ctrl': {'len': 'm.nkey * m.nu'}}}},
        'assigns': ['m.key_time[*]', 'm.key_qpos[*]', 'm.key_qvel[*]', 'm.key_act[*]', 'm.key_mpos[*]', 'm.key_mquat[*]', 'm.key_ctrl[*]'],
        'ensures': dict(
            [('stores_time', 'm.key_time[k] == d.time')] +
            [('stores_' + f, 'forall(lambda j: implies(0 <= j and j < %s, m.%s[k * (%s) + j] == d.%s[j]))' % (n, kf, n, f))
             for f, kf, n in (('qpos', 'key_qpos', 'm.nq'), ('qvel', 'key_qvel', 'm.nv'), ('act', 'key_act', 'm.na'),
                              ('mocap_pos', 'key_mpos', '3 * m.nmocap'), ('mocap_quat', 'key_mquat', '4 * m.nmocap'),
                              ('ctrl', 'key_ctrl', 'm.nu'))] +
            [('other_keys_' + kf, 'forall(lambda j: implies(j < k * (%s) or j >= (k + 1) * (%s), m.%s[j] == old(m.%s[j])))' % (n, n, kf, kf))
             for kf, n in (('key_qpos', 'm.nq'), ('key_qvel', 'm.nv'), ('key_act', 'm.na'), ('key_mpos', '3 * m.nmocap'),
                           ('key_mquat', '4 * m.nmocap'), ('key_ctrl', 'm.nu'))]),
        'error_only_if': 'k < 0 or k >= m.nkey',
    },

    # ---- client lemma (shims/c26_client.c): get followed by set, by contract -------------------------
    'c26_roundtrip': {
        'requires': dict(REQ, sig=SIG_OK,
                         ieee_small_ints='num_of_int(0) == num_zero() and num_of_int(1) != num_zero()'),
        'params': {'d': D_SPEC, 'd2': D_SPEC},
        'ensures': dict(
            [('restores_%d_%s' % (b, TABLE[b][1]),
              'implies(%s, forall(lambda k: implies(0 <= k and k < %s, %s == %s)))' % (bit('sig', b), esz(b), comp('d2', b, 'k'), comp('d', b, 'k', old=True)))
             for b in range(NSTATE)] +
            [('untouched_%d_%s' % (b, TABLE[b][1]),
              'implies(not %s, forall(lambda k: %s == %s))' % (bit('sig', b), comp('d2', b, 'k'), comp('d2', b, 'k', old=True)))
             for b in range(NSTATE)]),
        'no_error': True,
    },
}
