"""C27 contracts: the clamping primitives of actuation (IEEE doubles, exact) and the actuator-group mask."""

FPEQ = 'lambda a, b: fpEQ(a, b)'
DEFS = {'inrange': 'lambda v, lo, hi: fpLEQ(lo, v) and fpLEQ(v, hi)'}

CLIP = {
    'requires': {}, 'assigns': [], 'pure': True, 'no_error': True,
    'ensures': {
        'inside_range_when_ordered': 'implies(not isnan(x) and fpLEQ(min, max), inrange(result, min, max))',
        'identity_inside': 'implies(inrange(x, min, max), result == x)',
        'saturates_low': 'implies(fpLT(x, min), result == min)',
        'saturates_high': 'implies(not fpLT(x, min) and fpGT(x, max), result == max)',
        'nan_passes_through': 'implies(isnan(x), isnan(result))',
    },
}
MIN = {'requires': {}, 'assigns': [], 'pure': True, 'no_error': True,
       'ensures': {'one_of_the_arguments': 'result == a or result == b',
                   'lower_bound': 'implies(not isnan(a) and not isnan(b), fpLEQ(result, a) and fpLEQ(result, b))'}}
MAX = {'requires': {}, 'assigns': [], 'pure': True, 'no_error': True,
       'ensures': {'one_of_the_arguments': 'result == a or result == b',
                   'upper_bound': 'implies(not isnan(a) and not isnan(b), fpGEQ(result, a) and fpGEQ(result, b))'}}

# clampVec(vec, range, limited, n, index): index == NULL (entries in place) and index given (injective)
IDX = lambda k, null: k if null else 'index[%s]' % k


def clampvec(null_index):
    j = lambda k: IDX(k, null_index)
    req = {'sizes': '0 <= n and n < 2**30',
           'ranges_ordered_no_nan': 'forall(lambda k: implies(0 <= k and k < n and limited[k] != 0, fpLEQ(range[2*k], range[2*k+1])))',
           'values_not_nan': 'forall(lambda k: implies(0 <= k and k < LEN, not isnan(vec[k])))'}
    if not null_index:
        req['index_injective_in_range'] = ('forall(lambda k: implies(0 <= k and k < n, 0 <= index[k] and index[k] < LEN)) and '
                                          'forall(lambda k, l: implies(0 <= k and k < l and l < n, index[k] != index[l]))')
    con = {
        'ghost_params': {'LEN': 'int'},
        'params': {'vec': {'len': 'LEN'}, 'range': {'len': '2 * n'}, 'limited': {'len': 'n'},
                   'index': ({'null': True} if null_index else {'len': 'n'})},
        'requires': dict(req, length=('LEN == n' if null_index else 'LEN >= 0 and LEN < 2**30')),
        'assigns': ['vec[*]'],
        'ensures': {
            'limited_entries_end_inside_their_range': 'forall(lambda k: implies(0 <= k and k < n and limited[k] != 0, inrange(vec[%s], range[2*k], range[2*k+1])))' % j('k'),
            'limited_entries_inside_are_unchanged': 'forall(lambda k: implies(0 <= k and k < n and limited[k] != 0 and old(inrange(vec[%s], range[2*k], range[2*k+1])), vec[%s] == old(vec[%s])))' % (j('k'), j('k'), j('k')),
            'unlimited_entries_untouched': 'forall(lambda k: implies(0 <= k and k < n and limited[k] == 0, vec[%s] == old(vec[%s])))' % (j('k'), j('k')),
        },
        'loops': {0: {'invariant': {
            'range': '0 <= i and i <= n',
            'done': 'forall(lambda k: implies(0 <= k and k < i and limited[k] != 0, inrange(vec[%s], range[2*k], range[2*k+1])))' % j('k'),
            'done_inside_unchanged': 'forall(lambda k: implies(0 <= k and k < i and limited[k] != 0 and old(inrange(vec[%s], range[2*k], range[2*k+1])), vec[%s] == old(vec[%s])))' % (j('k'), j('k'), j('k')),
            'rest_untouched': 'forall(lambda k: implies(0 <= k and k < n and (k >= i or limited[k] == 0), vec[%s] == old(vec[%s])))' % (j('k'), j('k')),
        }}},
        'no_error': True,
    }
    return con



# a second VIEW of clampVec (index == NULL) for callers whose vector may hold anything, NaN included (mj_fwdActuation clamps the
# controls BEFORE it checks them): a NaN stays a NaN, everything else ends inside its range
CLAMP_ANY = {
    'params': {'vec': {'len': 'n'}, 'range': {'len': '2 * n'}, 'limited': {'len': 'n'}, 'index': {'null': True}},
    'requires': {'sizes': '0 <= n and n < 2**30', 'no_index_list': 'index == NULL',
                 'ranges_ordered_no_nan': 'forall(lambda k: implies(0 <= k and k < n and limited[k] != 0, fpLEQ(range[2*k], range[2*k+1])))'},
    'assigns': ['vec[*]'],
    'ensures': {
        'limited_entries_end_inside_their_range_unless_nan': 'forall(lambda k: implies(0 <= k and k < n and limited[k] != 0, (isnan(vec[k]) and isnan(old(vec[k]))) or (inrange(vec[k], range[2*k], range[2*k+1]) and not isnan(old(vec[k])))))',
        'limited_entries_inside_are_unchanged': 'forall(lambda k: implies(0 <= k and k < n and limited[k] != 0 and old(inrange(vec[k], range[2*k], range[2*k+1])), vec[k] == old(vec[k])))',
        'unlimited_entries_untouched': 'forall(lambda k: implies(0 <= k and k < n and limited[k] == 0, vec[k] == old(vec[k])))',
    },
    'loops': {0: {'invariant': {
        'range': '0 <= i and i <= n',
        'done': 'forall(lambda k: implies(0 <= k and k < i and limited[k] != 0, (isnan(vec[k]) and isnan(old(vec[k]))) or (inrange(vec[k], range[2*k], range[2*k+1]) and not isnan(old(vec[k])))))',
        'done_inside_unchanged': 'forall(lambda k: implies(0 <= k and k < i and limited[k] != 0 and old(inrange(vec[k], range[2*k], range[2*k+1])), vec[k] == old(vec[k])))',
        'rest_untouched': 'forall(lambda k: implies(0 <= k and k < n and (k >= i or limited[k] == 0), vec[k] == old(vec[k])))',
    }}},
    'no_error': True,
}


DISABLED = {
    'params': {'m': {'n': 1, 'ptrfields': {'actuator_group': {'len': 'm.nactuator'}}}},
    'requires': {'index': '0 <= i and i < m.nactuator'},
    'assigns': [],
    'ensures': {'zero_or_one': 'result == 0 or result == 1',
                'groups_outside_0_30_are_never_disabled': 'implies(m.actuator_group[i] < 0 or m.actuator_group[i] > 30, result == 0)',
                'bit_of_the_group': 'And(*[implies(m.actuator_group[i] == g, (result == 1) == (((m.opt.disableactuator % 4294967296) / (2 ** g)) % 2 == 1)) for g in range(31)])'},
    'no_error': True,
}


# muscle activation dynamics (real arithmetic): the activation moves toward the clamped control, whatever the timescale
MUSCLE_DYN = {
    'params': {'prm': {'n': 3}},
    'requires': {'positive_time_constants': 'prm[0] > 0 and prm[1] > 0'},
    'assigns': [], 'no_error': True,
    'defs': {'CC': '(0 if ctrl < 0 else (1 if ctrl > 1 else ctrl))'},
    'ensures': {'rises_when_below_the_clamped_control': 'implies(act < CC, result > 0)',
                'falls_when_above_the_clamped_control': 'implies(act > CC, result < 0)',
                'rests_at_the_clamped_control': 'implies(act == CC, result == 0)'},
}
SIGMOID = {'requires': {}, 'assigns': [], 'pure': True, 'assumed': True,
           'ensures': {'in_unit_interval': 'result >= 0 and result <= 1'}}       # mju_sigmoid: a smooth step with values in [0,1] (assumed here)


def contracts():
    return {'__defs__': DEFS, 'mju_clip': CLIP, 'mju_min': MIN, 'mju_max': MAX}


def muscle_contracts():
    return {'__defs__': {}, '__auto_inline__': True, 'mju_muscleDynamics': MUSCLE_DYN, 'mju_sigmoid': SIGMOID}


CONTRACTS = contracts()
