"""C31 contracts: binary model files (src/engine/engine_io.c), math ints.

REFS below is the specification of "all cross-references are in bounds". It is written from the field documentation
of mjModel (include/mujoco/mjmodel.h: what each id / adr field points into), NOT copied from the code's own
MJMODEL_REFERENCES table: an entry dropped or mis-targeted in the code fails the corresponding clause here.
(array, number of entries, size of the target, companion 'num' array or None)"""
from contracts import modeltab

REFS = [
    # bodies
    ('body_parentid', 'nbody', 'nbody', None), ('body_rootid', 'nbody', 'nbody', None), ('body_weldid', 'nbody', 'nbody', None),
    ('body_mocapid', 'nbody', 'nmocap', None),
    ('body_jntadr', 'nbody', 'njnt', 'body_jntnum'), ('body_dofadr', 'nbody', 'nv', 'body_dofnum'),
    ('body_geomadr', 'nbody', 'ngeom', 'body_geomnum'), ('body_bvhadr', 'nbody', 'nbvh', 'body_bvhnum'),
    ('body_plugin', 'nbody', 'nplugin', None),
    # joints, dofs, trees
    ('jnt_qposadr', 'njnt', 'nq', None), ('jnt_dofadr', 'njnt', 'nv', None), ('jnt_bodyid', 'njnt', 'nbody', None),
    ('dof_bodyid', 'nv', 'nbody', None), ('dof_jntid', 'nv', 'njnt', None), ('dof_parentid', 'nv', 'nv', None),
    ('dof_Madr', 'nv', 'nM', None),
    ('tree_bodyadr', 'ntree', 'nbody', 'tree_bodynum'), ('tree_dofadr', 'ntree', 'nv', 'tree_dofnum'),
    # geoms, sites, cameras, lights
    ('geom_bodyid', 'ngeom', 'nbody', None), ('geom_matid', 'ngeom', 'nmat', None),
    ('site_bodyid', 'nsite', 'nbody', None), ('site_matid', 'nsite', 'nmat', None),
    ('cam_bodyid', 'ncam', 'nbody', None), ('cam_targetbodyid', 'ncam', 'nbody', None),
    ('light_bodyid', 'nlight', 'nbody', None), ('light_targetbodyid', 'nlight', 'nbody', None),
    # meshes
    ('mesh_vertadr', 'nmesh', 'nmeshvert', 'mesh_vertnum'), ('mesh_normaladr', 'nmesh', 'nmeshnormal', 'mesh_normalnum'),
    ('mesh_texcoordadr', 'nmesh', 'nmeshtexcoord', 'mesh_texcoordnum'), ('mesh_faceadr', 'nmesh', 'nmeshface', 'mesh_facenum'),
    ('mesh_bvhadr', 'nmesh', 'nbvh', 'mesh_bvhnum'), ('mesh_graphadr', 'nmesh', 'nmeshgraph', None),
    ('mesh_polyadr', 'nmesh', 'nmeshpoly', 'mesh_polynum'), ('mesh_polyvertadr', 'nmeshpoly', 'nmeshpolyvert', 'mesh_polyvertnum'),
    ('mesh_polymapadr', 'nmeshvert', 'nmeshpolymap', 'mesh_polymapnum'),
    # flexes
    ('flex_vertadr', 'nflex', 'nflexvert', 'flex_vertnum'), ('flex_edgeadr', 'nflex', 'nflexedge', 'flex_edgenum'),
    ('flex_elemadr', 'nflex', 'nflexelem', 'flex_elemnum'), ('flex_evpairadr', 'nflex', 'nflexevpair', 'flex_evpairnum'),
    ('flex_texcoordadr', 'nflex', 'nflextexcoord', None), ('flex_elemdataadr', 'nflex', 'nflexelemdata', None),
    ('flex_elemedgeadr', 'nflex', 'nflexelemedge', None), ('flex_shelldataadr', 'nflex', 'nflexshelldata', None),
    ('flex_edge', 'nflexedge * 2', 'nflexvert', None), ('flex_elem', 'nflexelemdata', 'nflexvert', None),
    ('flex_elemedge', 'nflexelemedge', 'nflexedge', None), ('flex_shell', 'nflexshelldata', 'nflexvert', None),
    ('flex_bvhadr', 'nflex', 'nbvh', 'flex_bvhnum'),
    # skins
    ('skin_matid', 'nskin', 'nmat', None), ('skin_vertadr', 'nskin', 'nskinvert', 'skin_vertnum'),
    ('skin_texcoordadr', 'nskin', 'nskintexvert', None), ('skin_faceadr', 'nskin', 'nskinface', 'skin_facenum'),
    ('skin_boneadr', 'nskin', 'nskinbone', 'skin_bonenum'), ('skin_bonevertadr', 'nskinbone', 'nskinbonevert', 'skin_bonevertnum'),
    ('skin_bonebodyid', 'nskinbone', 'nbody', None), ('skin_bonevertid', 'nskinbonevert', 'nskinvert', None),
    # pairs, actuators, sensors, plugins, tendons
    ('pair_geom1', 'npair', 'ngeom', None), ('pair_geom2', 'npair', 'ngeom', None),
    ('actuator_plugin', 'nactuator', 'nplugin', None), ('actuator_actadr', 'nactuator', 'na', 'actuator_actnum'),
    ('actuator_ctrladr', 'nactuator', 'nu', 'actuator_ctrlnum'), ('actuator_outadr', 'nactuator', 'nout', 'actuator_outnum'),
    ('sensor_plugin', 'nsensor', 'nplugin', None),
    ('plugin_stateadr', 'nplugin', 'npluginstate', 'plugin_statenum'), ('plugin_attradr', 'nplugin', 'npluginattr', None),
    ('tendon_adr', 'ntendon', 'nwrap', 'tendon_num'), ('tendon_matid', 'ntendon', 'nmat', None),
    ('tendon_treeid', 'ntendon * 2', 'ntree', None),
    # custom fields
    ('numeric_adr', 'nnumeric', 'nnumericdata', 'numeric_size'), ('text_adr', 'ntext', 'ntextdata', 'text_size'),
    ('tuple_adr', 'ntuple', 'ntupledata', 'tuple_size'),
    # names and paths
] + [(name, nr, 'nnames', None) for name, (typ, nr, nc) in modeltab.model_pointers().items()      # every name_*adr array of the
     if name.startswith('name_') and name.endswith('adr')                                        # model points into `names`
] + [(name, nr, 'npaths', None) for name, (typ, nr, nc) in modeltab.model_pointers().items()     # every *_pathadr into `paths`
     if name.endswith('_pathadr')]


# Reference fields the documentation describes as ids / addresses into other arrays that mj_validateReferences does not
# look at at all (decided structurally: the array never occurs in the path condition of the accepting path).
# (array, number of entries, size of the target)
UNCHECKED_REFS = [
    ('body_treeid', 'nbody', 'ntree'), ('dof_treeid', 'nv', 'ntree'),
    ('flex_vertbodyid', 'nflexvert', 'nbody'), ('flex_nodebodyid', 'nflexnode', 'nbody'), ('flex_matid', 'nflex', 'nmat'),
    ('light_texid', 'nlight', 'ntex'), ('mat_texid', 'nmat * mjNTEXROLE', 'ntex'),
    ('jnt_actuatorid', 'njnt', 'nactuator'), ('tendon_actuatorid', 'ntendon', 'nactuator'),
]


def _cnt(e):
    return ' * '.join(('m.' + t) if t[0].isalpha() else t for t in e.split(' * '))


def model_spec():
    """parameter spec of a const mjModel*: every pointer field is an array of the length mjxmacro.h gives it."""
    P = modeltab.model_pointers()
    return {'n': 1, 'ptrfields': {name: {'len': modeltab.length_expr(nr, nc)} for name, (typ, nr, nc) in P.items()}}


def sizes_requires():
    """what mj_makeModel establishes for every size it accepts: non-negative and below INT_MAX (byte arrays excepted)."""
    S = [x for x in modeltab.model_sizes() if x in modeltab.make_model_params()]
    big = ('ntexdata', 'ntextdata')
    return {'sizes_nonneg_and_fit_int': ' and '.join('m.%s >= 0' % s + ('' if s in big else ' and m.%s < 2**31 - 1' % s) for s in S),
            'nbody_positive': 'm.nbody >= 1'}


SIZEOF = {'int': 4, 'mjtNum': 8, 'float': 4, 'mjtByte': 1, 'char': 1, 'mjtSize': 8, 'mjtBool': 1}


def arrays_fit_int():
    """every array of a model read from (or written to) a buffer whose size is an `int` has fewer than 2^31 bytes.
    mj_loadModelBuffer establishes this before it calls mj_validateReferences (obligation at that call site); stated for
    the arrays whose column count is a constant (the linear cases)."""
    out = []
    for name, (typ, nr, nc) in modeltab.model_pointers().items():
        nc = str(modeltab.int_macros().get(nc, nc))
        if nc.isdigit():
            out.append('m.%s * %d <= 2**31 - 1' % (nr, int(nc) * SIZEOF[typ]))
    return ' and '.join(sorted(set(out)))


def validate_ensures():
    ens = {}
    for arr, cnt, tgt, num in REFS:
        n = 'm.%s[i]' % num if num else '1'
        body = '-1 <= m.%s[i] and m.%s[i] + %s <= m.%s' % (arr, arr, n, tgt)
        if num:
            body = 'm.%s[i] >= 0 and (m.%s[i] == 0 or m.%s[i] >= 0) and %s' % (num, num, arr, body)
        ens['ref_in_bounds/' + arr] = 'implies(result == NULL, forall(lambda i: implies(0 <= i and i < %s, %s)))' % (_cnt(cnt), body)
    q = lambda rng, body: 'implies(result == NULL, forall(lambda i: implies(0 <= i and i < m.%s, %s)))' % (rng, body)
    ens['tree_order/body_parentid'] = q('nbody', 'i == 0 or m.body_parentid[i] < i')
    ens['tree_order/body_rootid'] = q('nbody', 'm.body_rootid[i] <= i')
    ens['tree_order/body_weldid'] = q('nbody', 'm.body_weldid[i] <= i')
    ens['tree_order/dof_parentid'] = q('nv', 'm.dof_parentid[i] < i')
    ens['jnt_type_valid'] = q('njnt', '0 <= m.jnt_type[i] and m.jnt_type[i] < 4')
    for t, (npos, nvel) in enumerate(((7, 6), (4, 3), (1, 1), (1, 1))):
        ens['jnt_address_width/type%d' % t] = q('njnt', 'implies(m.jnt_type[i] == %d, 0 <= m.jnt_qposadr[i] and m.jnt_qposadr[i] + %d <= m.nq'
                                                        ' and 0 <= m.jnt_dofadr[i] and m.jnt_dofadr[i] + %d <= m.nv)' % (t, npos, nvel))
    ens['geom_condim'] = q('ngeom', '0 <= m.geom_condim[i] and m.geom_condim[i] <= 6')
    ens['geom_dataid/hfield'] = q('ngeom', 'implies(m.geom_type[i] == mjGEOM_HFIELD, -1 <= m.geom_dataid[i] and m.geom_dataid[i] < m.nhfield)')
    ens['geom_dataid/mesh'] = q('ngeom', 'implies(m.geom_type[i] == mjGEOM_MESH or m.geom_type[i] == mjGEOM_SDF, -1 <= m.geom_dataid[i] and m.geom_dataid[i] < m.nmesh)')
    ens['hfield_extent'] = q('nhfield', '0 <= m.hfield_adr[i] and m.hfield_adr[i] + m.hfield_nrow[i] * m.hfield_ncol[i] <= m.nhfielddata')
    ens['tex_extent'] = q('ntex', '0 <= m.tex_adr[i] and m.tex_adr[i] + m.tex_nchannel[i] * m.tex_height[i] * m.tex_width[i] <= m.ntexdata')
    ens['pair_signature'] = q('npair', '0 <= m.pair_signature[i] % 65536 and m.pair_signature[i] % 65536 < m.nbody'
                                       ' and 0 <= m.pair_signature[i] / 65536 and m.pair_signature[i] / 65536 < m.nbody')
    ens['exclude_signature'] = q('nexclude', '0 <= m.exclude_signature[i] % 65536 and m.exclude_signature[i] % 65536 < m.nbody'
                                             ' and 0 <= m.exclude_signature[i] / 65536 and m.exclude_signature[i] / 65536 < m.nbody')
    eq = lambda types, lo1, n1, lo2, n2, extra='True': q('neq', 'implies((%s) and %s, %s <= m.eq_obj1id[i] and m.eq_obj1id[i] < m.%s and %s <= m.eq_obj2id[i] and m.eq_obj2id[i] < m.%s)' % (
        ' or '.join('m.eq_type[i] == %s' % t for t in types), extra, lo1, n1, lo2, n2))
    ens['eq_obj/joint'] = eq(['mjEQ_JOINT'], 0, 'njnt', -1, 'njnt')
    ens['eq_obj/tendon'] = eq(['mjEQ_TENDON'], 0, 'ntendon', -1, 'ntendon')
    ens['eq_obj/body'] = eq(['mjEQ_WELD', 'mjEQ_CONNECT'], 0, 'nbody', 0, 'nbody', 'm.eq_objtype[i] == mjOBJ_BODY')
    ens['eq_obj/site'] = eq(['mjEQ_WELD', 'mjEQ_CONNECT'], 0, 'nsite', 0, 'nsite', 'm.eq_objtype[i] == mjOBJ_SITE')
    ens['eq_obj/weld_type'] = q('neq', 'implies(m.eq_type[i] == mjEQ_WELD or m.eq_type[i] == mjEQ_CONNECT, m.eq_objtype[i] == mjOBJ_BODY or m.eq_objtype[i] == mjOBJ_SITE)')
    ens['eq_obj/flex'] = q('neq', 'implies(m.eq_type[i] == mjEQ_FLEX or m.eq_type[i] == mjEQ_FLEXVERT or m.eq_type[i] == mjEQ_FLEXSTRAIN, 0 <= m.eq_obj1id[i] and m.eq_obj1id[i] < m.nflex and m.eq_obj2id[i] == -1)')
    wrap = lambda types, n: q('nwrap', 'implies(%s, 0 <= m.wrap_objid[i] and m.wrap_objid[i] < m.%s)' % (' or '.join('m.wrap_type[i] == %s' % t for t in types), n))
    ens['wrap_objid/joint'] = wrap(['mjWRAP_JOINT'], 'njnt')
    ens['wrap_objid/site'] = wrap(['mjWRAP_SITE'], 'nsite')
    ens['wrap_objid/geom'] = wrap(['mjWRAP_SPHERE', 'mjWRAP_CYLINDER'], 'ngeom')
    trn = lambda types, n, second=None: q('nactuator', 'implies(%s, 0 <= m.actuator_trnid[2 * i] and m.actuator_trnid[2 * i] < m.%s%s)' % (
        ' or '.join('m.actuator_trntype[i] == %s' % t for t in types), n,
        (' and 0 <= m.actuator_trnid[2 * i + 1] and m.actuator_trnid[2 * i + 1] < m.%s' % second) if second else ''))
    ens['actuator_trnid/joint'] = trn(['mjTRN_JOINT', 'mjTRN_JOINTINPARENT'], 'njnt')
    ens['actuator_trnid/tendon'] = trn(['mjTRN_TENDON'], 'ntendon')
    ens['actuator_trnid/site'] = trn(['mjTRN_SITE'], 'nsite')
    ens['actuator_trnid/slidercrank'] = trn(['mjTRN_SLIDERCRANK'], 'nsite', 'nsite')
    ens['actuator_trnid/body'] = trn(['mjTRN_BODY'], 'nbody')
    ens['sensor_adr'] = q('nsensor', '0 <= m.sensor_adr[i] and m.sensor_adr[i] <= m.nsensordata')
    return ens


def refs_in_bounds(mname, guard):
    """the validate postcondition restated for another model expression (the loader's result)."""
    out = {}
    for k, v in validate_ensures().items():
        body = v[len('implies(result == NULL, '):-1]
        out[k] = (guard, body.replace('m.', mname + '.'))
    return out


def layout():
    """the documented .mjb layout as (description, byte-count expression) in file order, written from the X-macro tables of
    mjxmacro.h (sizes, pointers) and the fixed header - the specification mj_sizeModel / mj_saveModel are checked against."""
    seq = [('header', '20')]
    seq += [('size:' + nm, '8') for nm in modeltab.model_sizes()]
    seq += [('opt', 'sizeof("mjOption")'), ('vis', 'sizeof("mjVisual")'), ('stat', 'sizeof("mjStatistic")')]
    seq += [(f, '1') for f in modeltab.model_flags()]        # every derived flag of the struct, from mjmodel.h
    for name, (typ, nr, nc) in modeltab.model_pointers().items():
        seq.append(('array:' + name, '%d * (%s)' % (SIZEOF[typ], modeltab.length_expr(nr, nc))))
    return seq


def prefix(k):
    """bytes before item k of the layout."""
    return 'Sum([lit(0), ' + ', '.join(e for _, e in layout()[:k]) + '])'


def total():
    return prefix(len(layout()))


def product_lemmas():
    """arrays whose column count is itself a model size: their element count is a product of two non-negative sizes."""
    out = {}
    macros = modeltab.int_macros()
    for name, (typ, nr, nc) in modeltab.model_pointers().items():
        if not str(macros.get(nc, nc)).isdigit() and 'MJ_M' in nc:
            out['nonneg_length/' + name] = '%s >= 0' % modeltab.length_expr(nr, nc)
    return out


def nonneg_sizes():
    return ' and '.join('m.%s >= 0 and m.%s < 2**31 - 1' % (x, x) for x in modeltab.make_model_params() if x not in ('ntexdata', 'ntextdata')) \
        + ' and m.ntexdata >= 0 and m.ntextdata >= 0 and m.nnames_map >= 0 and m.nnames_map < 2**31 - 1'


N_PROLOGUE_READS = 2 + 3 + len(modeltab.model_flags())      # header, sizes block, opt, vis, stat, flags

NAMED_TYPES = ['nbody', 'njnt', 'ngeom', 'nsite', 'ncam', 'nlight', 'nflex', 'nmesh', 'nskin', 'nhfield', 'ntex', 'nmat', 'npair',
               'nexclude', 'neq', 'ntendon', 'nactuator', 'nsensor', 'nnumeric', 'ntext', 'ntuple', 'nkey', 'nplugin']


def make_model_hook(exe, st, node, args):
    """Contract of mj_makeModel(&m, sizes...) as the loader uses it, applied at its call sites.  The part about the size
    checks, the size fields, nnames_map and nbuffer is PROVED on the body of mj_makeModel (unit mj_makeModel, makemodel_contract
    below states the same facts); what stays assumed is the object view of the buffer: the pointer fields are separate arrays
    of the X-macro lengths (mj_setPtrModel places them inside one raw buffer; not verified).  Either *dest is left alone, or it points to a fresh mjModel whose size fields
    hold the arguments BY PARAMETER NAME (names and order read from the real declaration), whose pointer fields are
    separate arrays of the lengths the X-macro table gives for those sizes, with nnames_map = mjLOAD_MULTIPLE * (number
    of nameable objects), and the arguments satisfy the size checks mj_makeModel makes before allocating."""
    import z3
    from vlib.cast import fn_params, FrontEndError
    from vlib.state import Ptr
    exe.assumed.add('contract of mj_makeModel is assumed (fresh model, size fields = arguments by name, arrays of the X-macro lengths, nnames_map = 2 * named objects, arguments passed its size checks)')
    decl = exe.tu.functions.get('mj_makeModel') or exe.tu.fn_decls['mj_makeModel']
    pnames = [p.get('name') for p in fn_params(decl)]
    if len(pnames) != len(args) or pnames[0] != 'dest':
        raise FrontEndError('mj_makeModel signature changed')
    val = dict(zip(pnames[1:], args[1:]))
    exe.nsym += 1
    tag = 'model#%d' % exe.nsym
    mt = exe.tu.ctype('mjModel')
    M = exe.new_obj(tag, mt, n=1)
    macros = modeltab.int_macros()
    nmap = z3.Int('nnames_map@' + tag)
    val_all = dict(val, nnames_map=nmap)
    fields = {}
    for name, (typ, nr, nc) in modeltab.model_pointers().items():
        if nr not in val_all:
            raise FrontEndError('array %s is sized by %s, which is not a parameter of mj_makeModel' % (name, nr))
        import re as _re
        ns = dict(macros)
        ns.update(exe.tu.enum_consts)
        ns.update(val_all)
        ncv = eval(_re.sub(r'MJ_M\((\w+)\)', r'\1', nc), {'__builtins__': {}}, ns)
        fields[name] = {'len': val_all[nr] * ncv}
    M.meta['ptrfields'] = fields
    ok = z3.Bool('made(%s)' % tag)
    for nm, v in val_all.items():
        st.store(Ptr(M, (0,), (nm,), mt.field(nm)), v)
    nb = z3.Int('nbuffer@' + tag)
    st.store(Ptr(M, (0,), ('nbuffer',), mt.field('nbuffer')), nb)
    facts = [val['nmocap'] <= val['nbody'], nb >= 0, nb < 2**63, nmap == 2 * sum(val[t] for t in NAMED_TYPES), nmap < 2**31 - 1, val['nbody'] >= 1]
    for nm, v in val.items():
        facts.append(v >= 0)
        if nm not in ('ntexdata', 'ntextdata'):
            facts.append(v < 2**31 - 1)
    # the allocation succeeded: the byte size of every array was added to nbuffer without overflow (safeAddToBufferSize)
    for name, f in fields.items():
        typ = modeltab.model_pointers()[name][0]
        facts.append(f['len'] * SIZEOF[typ] <= nb)
    for f in facts:
        st.assume(z3.Implies(ok, f))
    dest = args[0]
    st.store(exe._normalize(dest), Ptr(M, (0,), (), mt, isnull=z3.Not(ok)))
    return None


SKIPF = 'lambda x: (64 - x % 64) % 64'       # SKIP(offset): bytes to the next 64-byte boundary
SAFEADD = {
    'params': {'offset': {'len': '1'}, 'nbuffer': {'len': '1'}},
    'defs': {'SKIPF': SKIPF, 'ADD': 'old(type_size * nr * nc + SKIPF(offset[0]))'},
    'requires': {'position': 'offset[0] >= 0 and nbuffer[0] >= 0'},
    'assigns': ['offset[*]', 'nbuffer[*]'],
    'ensures': {'zero_or_one': 'result == 0 or result == 1',
                'success_means_no_overflow_and_both_counters_advance_by_the_padded_size':
                    'implies(result == 1, nr >= 0 and nc >= 0 and nbuffer[0] == old(nbuffer[0]) + ADD and offset[0] == old(offset[0]) + ADD and '
                    'nbuffer[0] < 2**63 and offset[0] < 2**63)',
                'failure_only_on_negative_size_or_overflow':
                    'implies(result == 0, nr < 0 or nc < 0 or nr * nc >= 2**64 or old(nbuffer[0]) + ADD >= 2**63 or old(offset[0]) + ADD >= 2**63 or type_size * nr * nc + 63 >= 2**64)'},
    'no_error': True,
}

def pointer_layout_defs():
    """ghost definitions of the documented buffer layout: O_k = offset after k arrays, S_k = 64-byte aligned start of array k"""
    defs = [('O_0', '0')]
    names = list(modeltab.model_pointers())
    for k, name in enumerate(names):
        typ, nr, nc = modeltab.model_pointers()[name]
        defs.append(('S_%d' % k, 'O_%d + (64 - O_%d %% 64) %% 64' % (k, k)))
        defs.append(('O_%d' % (k + 1), 'S_%d + %d * (%s)' % (k, SIZEOF[typ], modeltab.length_expr(nr, nc))))
    return defs, names


def setptr_contract():
    defs, names = pointer_layout_defs()
    n = len(names)
    ens = {}
    for k, name in enumerate(names):
        ens['placed/' + name] = 'same_obj(m.%s, m.buffer) and off(m.%s) == S_%d' % (name, name, k)
    return {
        'params': {'m': {'n': 1, 'ptrfields': {'buffer': {'ct': 'unsigned char', 'len': 'm.nbuffer'}}}},
        'ghost_defs': defs,
        'requires': {'sizes': nonneg_sizes(), 'mocap_bodies_are_bodies': 'm.nmocap <= m.nbody', 'arrays_fit_int': arrays_fit_int(),
                     'buffer': 'm.buffer != NULL and u64(m.buffer) % 64 == 0 and m.nbuffer >= 0 and m.nbuffer < 2**62'},
        # consequences of the definitions, proved in order (each uses the previous one): offsets are non-negative, every
        # array start is 64-byte aligned and not before the end of the previous array
        'lemmas': dict(product_lemmas(), **{'layout/%d' % k: 'O_%d >= 0 and S_%d >= O_%d and S_%d %% 64 == 0 and O_%d >= S_%d' % (k, k, k, k, k + 1, k) for k in range(n)}),
        'assigns': ['m.*'],
        'error_only_if': 'm.nbuffer != O_%d' % n,
        'ensures': ens,
        'cut_after_call': {'SKIP': {'invariant_at': lambda k: ({'at_documented_offset': 'same_obj(ptr, m.buffer) and off(ptr) == O_%d' % (k // 2)} if k % 2 == 0 and k // 2 < n
                                                                else (None if k // 2 < n else {'no_more_arrays_than_documented': 'false'})),
                                    'havoc': ['ptr']}},
        'strict_unsigned': True, 'opaque_products': True, 'keep_byte_offsets': True,
    }


def makemodel_setup(exe, st, res):
    """*dest == NULL at entry (the loader's call: a fresh model is requested)"""
    from vlib.state import NULLP
    d = res.params['dest']
    st.store(exe._normalize(d), NULLP(d.ct.to if hasattr(d.ct, 'to') else None))


def makemodel_contract():
    """mj_makeModel(&m, sizes...): verified against what the loader's hook assumes about it.  mju_malloc returns NULL or a
    fresh object; mj_setPtrModel (array placement) and the mj_default* initialisers are effect-free on the size fields."""
    params = modeltab.make_model_params()
    P = modeltab.model_pointers()
    made = 'dest[0] != NULL'
    ens = {'sizes_passed_the_checks': (made, ' and '.join('%s >= 0' % p + ('' if p in ('ntexdata', 'ntextdata') else ' and %s < 2**31 - 1' % p) for p in params)),
           'nbody_positive_and_mocap_bodies_are_bodies': (made, 'nbody >= 1 and nmocap <= nbody'),
           'size_fields_hold_the_arguments': (made, ' and '.join('dest[0].%s == %s' % (p, p) for p in params)),
           'names_map_size': (made, 'dest[0].nnames_map == 2 * (%s) and dest[0].nnames_map < 2**31 - 1' % ' + '.join(NAMED_TYPES)),
           'buffer_size_in_range': (made, 'dest[0].nbuffer >= 0 and dest[0].nbuffer < 2**63')}
    return {
        'params': {'dest': {'n': 1}},
        'requires': {},
        'ensures': ens, 'quiet_trivial': True, 'strict_unsigned': True, 'opaque_products': True, 'prune_ms': 0,
        'error_only_if': 'true',        # the two allocation-failure exits (mjERROR) are the documented out-of-memory behaviour
    }


VALIDATE = {
    'params': {'m': None},       # filled in contracts()
    'requires': {},
    'assigns': [],
    'auto_search': True,
    'quiet_trivial': True,
    # the one accumulator loop (collision geoms of a tactile sensor's body): counter bounded by the index
    'loops': {'ivar:b': {'invariant': {'counter': '0 <= b and 0 <= collision_geoms and collision_geoms <= b'}}},
    'ensures': {},
}


def contracts():
    C = {'__defs__': {k: str(v) for k, v in modeltab.int_macros().items()}}
    v = dict(VALIDATE)
    v['params'] = {'m': model_spec()}
    v['requires'] = dict(sizes_requires(), arrays_fit_int=arrays_fit_int())
    v['ensures'] = validate_ensures()
    C['mj_validateReferences'] = v
    C['mj_loadModelBuffer'] = {
        'params': {'buffer': {'ct': 'unsigned char', 'len': 'buffer_sz', 'blob_buffer': True}},
        'requires': {'buffer_has_buffer_sz_bytes': 'buffer != NULL and buffer_sz >= 0'},
        'no_error': True,          # no corrupt or truncated buffer reaches bufread's internal mjERROR
        'strict_unsigned': True,
        'opaque_products': True,
        # cut point after every read: the read position stays inside the buffer (its exact value is forgotten)
        # (not inside the fixed-size prologue - header, sizes, three structs, two flags - whose single length check covers
        #  five consecutive reads and needs the exact position)
        'cut_after_call': {'bufread': {'invariant_at': lambda k: None if k < N_PROLOGUE_READS - 1 else {'position_in_buffer': '0 <= ptrbuf and ptrbuf <= buffer_sz'},
                                       'havoc': ['ptrbuf'], 'sequential': 'ptrbuf'}},
        'ensures': refs_in_bounds('result', 'result != NULL'),
        'quiet_trivial': True,
    }
    call_v = dict(v)
    call_v.pop('auto_search'); call_v.pop('loops', None)
    call_v['requires'] = dict(v['requires'])
    C['__load__'] = {'mj_validateReferences': call_v}
    C['mj_sizeModel'] = {
        'params': {'m': {'n': 1}},
        'requires': {'sizes': nonneg_sizes(), 'model_fits_in_memory': '%s <= 2**62' % total(),
                     'mocap_bodies_are_bodies': 'm.nmocap <= m.nbody', 'arrays_fit_int': arrays_fit_int()},
        'assigns': [],
        'lemmas': product_lemmas(),
        'ensures': {'equals_documented_layout': 'result == %s' % total()},
        'strict_unsigned': True,
        'opaque_products': True,       # unsigned wrap-around and value-changing conversions are obligations here
        'no_error': True,
    }
    n_items = len(layout())
    C['mj_saveModel'] = {
        'params': {'m': model_spec(), 'buffer': {'ct': 'unsigned char', 'len': 'buffer_sz', 'blob_buffer': True}, 'filename': {'null': True}},
        'requires': {'sizes': nonneg_sizes(), 'buffer_holds_the_model': 'buffer != NULL and buffer_sz >= %s' % total(),
                     'mocap_bodies_are_bodies': 'm.nmocap <= m.nbody'},
        'lemmas': product_lemmas(),
        'no_error': True,          # never trips bufwrite's bound check
        'strict_unsigned': True,
        'opaque_products': True,
        # cut point after every write: the write position is exactly the documented offset of the next item, so the last
        # cut states "bytes written == the documented total" (== mj_sizeModel by its own contract)
        'cut_after_call': {'bufwrite': {'invariant_at': lambda k: {'position_is_documented_offset': 'ptrbuf == %s' % prefix(k + 1)} if k < n_items
                                        else {'no_more_items_than_documented': 'false'},
                                        'havoc': ['ptrbuf'], 'sequential': 'ptrbuf'}},
    }
    for f in ('bufread', 'bufwrite', 'getnsize', 'getnptr', 'SKIP'):
        C[f] = {'inline': True}
    C['__effect_free__'] = ('mj_version', 'mj_deleteModel', 'mju_free')
    C['__blob_memcpy__'] = True
    C['__blob_forget_all__'] = True
    C['safeAddToBufferSize'] = SAFEADD
    C['mj_makeModel'] = makemodel_contract()
    # callees of mj_makeModel (assumed): the allocator returns NULL or a fresh block; the placement of the array pointers and
    # the default initialisers do not touch the size fields
    C['mju_malloc'] = {'assumed': True, 'requires': {}, 'assigns': [], 'ensures': {}, 'result_bytes': 'size'}
    C['mj_setPtrModel'] = {'assumed': True, 'requires': {}, 'assigns': [], 'ensures': {}}
    C['mj_defaultOption'] = {'assumed': True, 'requires': {}, 'assigns': ['opt.*'], 'ensures': {}}
    C['mj_defaultVisual'] = {'assumed': True, 'requires': {}, 'assigns': ['vis.*'], 'ensures': {}}
    C['mj_defaultStatistic'] = {'assumed': True, 'requires': {}, 'assigns': ['stat.*'], 'ensures': {}}
    C['freeModelBuffers'] = {'assumed': True, 'requires': {}, 'assigns': [], 'ensures': {}}
    # mj_setPtrModel: contract written (setptr_contract: every array pointer lands on its documented, 64-byte aligned offset of
    # the buffer; error exactly when nbuffer differs from the documented total) but its ~6000 obligations - modular arithmetic
    # over the 486-step layout recurrence - are not discharged within a usable budget, so it is NOT registered as a unit.
    C['numObjects'] = {'inline': True}
    C['__callbacks__'] = ('nsensordata',)
    C['mjp_getPluginAtSlot'] = {'assumed': True, 'requires': {}, 'assigns': [], 'nullable_result': False, 'ensures': {}}
    C['sensorSize'] = {'inline': True}
    return C


CONTRACTS = contracts()
