"""C24 contracts: group laws of the rotation / pose utilities, as postconditions of the client functions in
shims/c24_laws.c (which only call the real utilities; their bodies are executed symbolically, `real` mode)."""

DEFS = {
    'n2': 'lambda q: q[0]*q[0] + q[1]*q[1] + q[2]*q[2] + q[3]*q[3]',
    'v2': 'lambda v: v[0]*v[0] + v[1]*v[1] + v[2]*v[2]',
    'dot3': 'lambda a, i, b, j: a[i]*b[j] + a[i+1]*b[j+1] + a[i+2]*b[j+2]',
    'M': 'lambda m, r, c: m[3*r + c]',
    # textbook rotation matrix of a quaternion (specification, written independently of the code), entry (r,c)
    'QM': 'lambda q, r, c: QM_TABLE(q)[3*r + c]',
    'QM_TABLE': 'lambda q: [q[0]*q[0] + q[1]*q[1] - q[2]*q[2] - q[3]*q[3], 2*(q[1]*q[2] - q[0]*q[3]), 2*(q[1]*q[3] + q[0]*q[2]),'
                ' 2*(q[1]*q[2] + q[0]*q[3]), q[0]*q[0] - q[1]*q[1] + q[2]*q[2] - q[3]*q[3], 2*(q[2]*q[3] - q[0]*q[1]),'
                ' 2*(q[1]*q[3] - q[0]*q[2]), 2*(q[2]*q[3] + q[0]*q[1]), q[0]*q[0] - q[1]*q[1] - q[2]*q[2] + q[3]*q[3]]',
    # Hamilton product (specification)
    'HP': 'lambda a, b: [a[0]*b[0] - a[1]*b[1] - a[2]*b[2] - a[3]*b[3], a[0]*b[1] + a[1]*b[0] + a[2]*b[3] - a[3]*b[2],'
          ' a[0]*b[2] - a[1]*b[3] + a[2]*b[0] + a[3]*b[1], a[0]*b[3] + a[1]*b[2] - a[2]*b[1] + a[3]*b[0]]',
}
Q4 = {'n': 4}
V3 = {'n': 3}
M9 = {'n': 9}


def eqs(a, b, n):
    return {'eq%d' % k: '%s[%d] == %s[%d]' % (a, k, b, k) for k in range(n)}


def matmul_eq(ab, a, b):
    return {'m%d%d' % (r, c): 'M(%s,%d,%d) == ' % (ab, r, c) + ' + '.join('M(%s,%d,%d)*M(%s,%d,%d)' % (a, r, k, b, k, c) for k in range(3))
            for r in range(3) for c in range(3)}


CONTRACTS = {
    '__defs__': DEFS,
    '__auto_inline__': True,
    '__no_merge__': True,      # few branches, polynomial goals: one obligation per path keeps the queries ite-free
    'c24_assoc': {'params': dict(l=Q4, r=Q4, a=Q4, b=Q4, c=Q4), 'ensures': eqs('l', 'r', 4), 'no_error': True},
    'c24_mul': {'params': dict(ab=Q4, a=Q4, b=Q4), 'ensures': dict([('norm_multiplicative', 'n2(ab) == n2(a) * n2(b)')] + [('hamilton_%d' % k, 'ab[%d] == HP(a, b)[%d]' % (k, k)) for k in range(4)]), 'no_error': True},
    'c24_neg': {'params': dict(p=Q4, n=Q4, a=Q4),
                'ensures': {'inverse_up_to_norm': 'p[0] == n2(a) and p[1] == 0 and p[2] == 0 and p[3] == 0'}, 'no_error': True},
    'c24_mat': {'params': dict(m=M9, q=Q4),
                'ensures': dict(
                    [('mtm_%d%d' % (r, c), ' + '.join('M(m,%d,%d)*M(m,%d,%d)' % (k, r, k, c) for k in range(3)) +
                      ' == ' + ('n2(q)*n2(q)' if r == c else '0')) for r in range(3) for c in range(3)] +
                    [('formula_%d%d' % (r, c), 'M(m,%d,%d) == QM(q,%d,%d)' % (r, c, r, c)) for r in range(3) for c in range(3)] +
                    [('det', 'M(m,0,0)*(M(m,1,1)*M(m,2,2) - M(m,1,2)*M(m,2,1)) - M(m,0,1)*(M(m,1,0)*M(m,2,2) - M(m,1,2)*M(m,2,0))'
                             ' + M(m,0,2)*(M(m,1,0)*M(m,2,1) - M(m,1,1)*M(m,2,0)) == n2(q)*n2(q)*n2(q)')]),
                'no_error': True},
    # homomorphism M(ab) == M(a) M(b): proved on the code for every path except the one where a*b happens to be exactly
    # the null quaternion while a, b are not (a conditional polynomial identity neither solver settles); that case, and
    # every other, follows from the chain in props/C24.py: code == spec formulas (c24_mat, c24_mul) and the
    # specification-level polynomial identity QM(HP(a,b)) == QM(a) QM(b).
    'c24_mat_hom': {'params': dict(mab=M9, ma=M9, mb=M9, a=Q4, b=Q4),
                    'requires': {'product_not_exactly_identity_unless_factor_is': 'not (HP(a,b)[0] == 1 and HP(a,b)[1] == 0 and HP(a,b)[2] == 0 and HP(a,b)[3] == 0)'
                                 ' or (a[0] == 1 and a[1] == 0 and a[2] == 0 and a[3] == 0) or (b[0] == 1 and b[1] == 0 and b[2] == 0 and b[3] == 0)'},
                    'ensures': matmul_eq('mab', 'ma', 'mb'), 'no_error': True},
    'c24_rot': {'params': dict(r=V3, m=M9, v=V3, q=Q4), 'requires': {'unit': 'n2(q) == 1'},
                'ensures': dict([('row%d' % k, 'r[%d] == M(m,%d,0)*v[0] + M(m,%d,1)*v[1] + M(m,%d,2)*v[2]' % (k, k, k, k)) for k in range(3)] +
                                [('isometry', 'v2(r) == v2(v)')]), 'no_error': True},
    'c24_rot_inline': {'params': dict(r=V3, m=M9, v=V3, q=Q4), 'requires': {'unit': 'n2(q) == 1'},
                       'ensures': dict([('row%d' % k, 'r[%d] == M(m,%d,0)*v[0] + M(m,%d,1)*v[1] + M(m,%d,2)*v[2]' % (k, k, k, k)) for k in range(3)] +
                                       [('isometry', 'v2(r) == v2(v)')]), 'no_error': True},
    'c24_mulaxis': {'params': dict(l=Q4, r=Q4, q=Q4, axis=V3), 'ensures': eqs('l', 'r', 4), 'no_error': True},
    'c24_mul_inline': {'params': dict(l=Q4, r=Q4, a=Q4, b=Q4), 'ensures': eqs('l', 'r', 4), 'no_error': True},
    'c24_axisangle': {'params': dict(q=Q4, axis=V3), 'requires': {'unit_axis': 'v2(axis) == 1'},
                      'ensures': {'unit': 'n2(q) == 1',
                                  'identity_at_zero': 'implies(angle == 0, q[0] == 1 and q[1] == 0 and q[2] == 0 and q[3] == 0)'},
                      'no_error': True},
    'c24_integrate': {'params': dict(l=Q4, r=Q4, q=Q4, vel=V3), 'requires': {'unit': 'n2(q) == 1'},
                      'ensures': dict(eqs('l', 'r', 4), unit='n2(l) == 1'), 'no_error': True},
    'c24_cross': {'params': dict(c=V3, d=V3, a=V3, b=V3),
                  'ensures': {'perp_a': 'dot3(c,0,a,0) == 0', 'perp_b': 'dot3(c,0,b,0) == 0',
                              'antisym': 'd[0] == -c[0] and d[1] == -c[1] and d[2] == -c[2]',
                              'lagrange': 'v2(c) == v2(a)*v2(b) - dot3(a,0,b,0)*dot3(a,0,b,0)'}, 'no_error': True},
    'c24_deriv': {'params': dict(dq=Q4, r=Q4, q=Q4, w=V3),
                  'ensures': {'half_w_times_q_%d' % k: '2*dq[%d] == r[%d]' % (k, k) for k in range(4)}, 'no_error': True},
    'c24_pose_inv': {'params': dict(p=V3, q=Q4, pos=V3, quat=Q4), 'requires': {'unit': 'n2(quat) == 1'},
                     'ensures': {'pos_zero': 'p[0] == 0 and p[1] == 0 and p[2] == 0',
                                 'quat_identity': 'q[0] == 1 and q[1] == 0 and q[2] == 0 and q[3] == 0'}, 'no_error': True},
    'c24_trn': {'params': dict(l=V3, r=V3, rq=Q4, pos=V3, quat=Q4, v=V3), 'requires': {'unit': 'n2(quat) == 1'},
                'ensures': eqs('l', 'r', 3), 'no_error': True},
}

FRAME_CONTRACT = {
    'params': dict(f=M9),
    'ensures': {
        'x_unit': 'dot3(f,0,f,0) == 1', 'y_unit': 'dot3(f,3,f,3) == 1', 'z_unit': 'dot3(f,6,f,6) == 1',
        'xy_orth': 'dot3(f,0,f,3) == 0', 'xz_orth': 'dot3(f,0,f,6) == 0', 'yz_orth': 'dot3(f,3,f,6) == 0',
        'x_parallel_to_input': 'f[0]*old(f[1]) == f[1]*old(f[0]) and f[0]*old(f[2]) == f[2]*old(f[0]) and f[1]*old(f[2]) == f[2]*old(f[1])'
                               ' and dot3(f,0,old(f),0) > 0',
    },
    'error_only_if': 'old(dot3(f,0,f,0)) < 0.25',
}
MAT2QUAT_CONTRACT = {      # written but out of reach: 9 conditional polynomial identities per branch with sqrt and division time out
    'params': dict(m2=M9, q2=Q4, q=Q4), 'requires': {'unit': 'n2(q) == 1'},
    'ensures': dict([('roundtrip_%d' % k, 'm2[%d] == QM_TABLE(q)[%d]' % (k, k)) for k in range(9)] + [('unit', 'n2(q2) == 1')]),
    'no_error': True,
}


def euler_contract(seq):
    """mju_euler2Quat for one concrete sequence string: intrinsic (lower case) rotations compose on the right,
    extrinsic (upper case) on the left; every factor is the unit quaternion about one coordinate axis."""
    acc = '[1, 0, 0, 0]'
    for i, ch in enumerate(seq):
        ax = 'xyz'.index(ch.lower()) + 1
        rot = ['cos_of(e[%d]/2)' % i, '0', '0', '0']
        rot[ax] = 'sin_of(e[%d]/2)' % i
        rot = '[' + ', '.join(rot) + ']'
        acc = 'HP(%s, %s)' % ((acc, rot) if ch.islower() else (rot, acc))
    ens = {'composition_%d' % k: 'q[%d] == %s[%d]' % (k, acc, k) for k in range(4)}
    ens['unit'] = 'n2(q) == 1'
    return {'params': dict(q=Q4, e=V3, seq={'n': 4, 'init': [ord(c) for c in seq] + [0]}), 'ensures': ens, 'no_error': True,
            'loops': {0: {'unroll': 4}}}


EULER_SEQS = [a + b + c for a in 'xyzXYZ' for b in 'xyzXYZ' for c in 'xyzXYZ']
