"""C30 contracts: mju_isBad (IEEE double, exact) and the three state checks of engine_forward.c (math ints, fp doubles)."""
from contracts import arena

BAD = 'lambda x: isnan(x) or fpGT(x, fp(1e10)) or fpLT(x, fp(-1e10))'
DEFS = {
    'bad': BAD,
    'autoreset': '((m.opt.disableflags % 4294967296) / mjDSBL_AUTORESET) % 2 == 0',
    'sleepflt': '(((m.opt.enableflags % 4294967296) / mjENBL_SLEEP) % 2 == 1) and d.nv_awake < m.nv',
    'cnt': 'lambda w: d.warning[w].number',
}

RESET = {       # mj_resetData / mj_forward: assumed contracts (bodies are the whole engine); what C30 needs from them
    'assumed': True, 'requires': {},
    'assigns': ['d.*nonptr', 'd.qpos[*]', 'd.qvel[*]', 'd.qacc[*]'],
    'ensures': {'warnings_cleared': 'And(*[d.warning[w].number == 0 for w in range(mjNWARNING)])'},
}
FORWARD = {'assumed': True, 'requires': {}, 'assigns': ['d.*nonptr', 'd.qacc[*]'],
           'ensures': {'keeps_warnings': 'And(*[d.warning[w].number == old(d.warning[w].number) and d.warning[w].lastinfo == old(d.warning[w].lastinfo) for w in range(mjNWARNING)])'}}


def check_contract(arr, n, warn, filtered, calls_forward=False):
    """contract of mj_checkPos / mj_checkVel / mj_checkAcc. `arr`: checked array, `n`: its length in the model."""
    if filtered:
        idx = lambda j: '(d.dof_awake_ind[%s] if sleepflt else %s)' % (j, j)
        count = '(d.nv_awake if sleepflt else m.nv)'
    else:
        idx = lambda j: j
        count = n
    anybad = 'exists(lambda j: 0 <= j and j < %s and bad(d.%s[%s]))' % (count, arr, idx('j'))
    allgood = 'old(forall(lambda j: implies(0 <= j and j < %s, not bad(d.%s[%s]))))' % (count, arr, idx('j'))
    req = {'sizes': 'm.nq >= 0 and m.nv >= 0 and m.nq < 2**31 and m.nv < 2**31 and d.nv_awake >= 0 and d.nv_awake <= m.nv',
           'counters': 'And(*[d.warning[w].number >= 0 and d.warning[w].number < 2**31 - 2 for w in range(mjNWARNING)])'}
    if filtered:
        req['awake_indices_valid'] = 'forall(lambda j: implies(0 <= j and j < d.nv_awake, 0 <= d.dof_awake_ind[j] and d.dof_awake_ind[j] < m.nv))'
    con = {
        'requires': req,
        'params': {'d': {'n': 1, 'ptrfields': {arr: {'len': n}, 'dof_awake_ind': {'len': 'm.nv'}}}, 'm': {'n': 1}},
        'assigns': ['d.*nonptr', 'd.qpos[*]', 'd.qvel[*]', 'd.qacc[*]'],
        'ensures': {
            'all_good_means_untouched': 'implies(%s, And(*[d.warning[w].number == old(d.warning[w].number) for w in range(mjNWARNING)])'
                                        ' and forall(lambda k: d.%s[k] == old(d.%s)[k]))' % (allgood, arr, arr),
            'bad_is_counted': 'implies(not (%s), cnt(%s) >= 1 and (autoreset or cnt(%s) > old(cnt(%s))))' % (allgood, warn, warn, warn),
            'bad_with_autoreset_resets': 'implies(not (%s) and autoreset, And(*[d.warning[w].number == (1 if w == %s else 0) for w in range(mjNWARNING)]))' % (allgood, warn),
            'lastinfo_is_first_bad_index': 'implies(not (%s), 0 <= d.warning[%s].lastinfo and d.warning[%s].lastinfo < %s)' % (allgood, warn, warn, n),
        },
        'loops': {0: {'invariant': {
            'range': '0 <= LV and LV <= %s' % count,
            'good_so_far': 'forall(lambda k: implies(0 <= k and k < LV, not bad(d.%s[%s])))' % (arr, idx('k')),
        }}},
        'no_error': True,
    }
    return con


def contracts():
    C = {'__defs__': DEFS,
         'mju_isBad': {'requires': {}, 'assigns': [], 'pure': True,
                       'ensures': {'exactly_nan_or_beyond_limit': '(result != 0) == bad(x)', 'zero_or_one': 'result == 0 or result == 1'},
                       'no_error': True},
         'mj_warning': arena.CONTRACTS['mj_warning'],
         'mju_warningText': arena.CONTRACTS['mju_warningText'],
         'mj_resetData': RESET, 'mj_forward': FORWARD}
    for fn, arr, n, warn, flt, fwd, lv in (('mj_checkPos', 'qpos', 'm.nq', 'mjWARN_BADQPOS', False, False, 'i'),
                                          ('mj_checkVel', 'qvel', 'm.nv', 'mjWARN_BADQVEL', True, False, 'j'),
                                          ('mj_checkAcc', 'qacc', 'm.nv', 'mjWARN_BADQACC', True, True, 'j')):
        con = check_contract(arr, n, warn, flt, fwd)
        con['defs'] = {'LV': lv}
        C[fn] = con
    return C
CONTRACTS = contracts()
