"""C20 contracts: callers of mj_arenaAllocByte handle exhaustion gracefully.
The callee is used through its C19 contract only (NULL, or a valid block of `bytes` bytes)."""
from contracts import memory

DEFS = dict(memory.DEFS)
DEFS.update({
    'SZC': "sizeof('mjContact')",
    # arena layout invariant between pipeline stages: the contact array sits at the arena start
    'CONTACTS_FIT': 'd.ncon >= 0 and d.ncon * SZC <= d.parena',
    'warned': 'lambda w: d.warning[w].number == old(d.warning[w].number) + 1',
})

ARENA = dict(memory.CONTRACTS['mj_arenaAllocByte'])
ARENA.pop('concretize', None)
ARENA['result_bytes'] = 'bytes'

CONTRACTS = {
    '__defs__': DEFS,
    'mj_arenaAllocByte': ARENA,
    'mju_warningText': {'assumed': True, 'nullable_result': False, 'requires': {}, 'ensures': {}, 'assigns': []},
    'mj_warning': {
        'requires': {},
        'assigns': ['d.warning'],
        'ensures': {
            'counted': 'd.warning[warning].number == old(d.warning[warning].number) + 1',
            'info': 'd.warning[warning].lastinfo == info',
            'others_unchanged': 'And(*[implies(w != warning, d.warning[w].number == old(d.warning[w].number) and d.warning[w].lastinfo == old(d.warning[w].lastinfo)) for w in range(mjNWARNING)])',
        },
        'error_only_if': 'warning < 0 or warning >= mjNWARNING',
    },
    'mj_clearEfc': {
        'requires': {'ncon': 'd.ncon >= 0'},
        'assigns': ['d.*', 'typed(d.arena, "mjContact")[*]'],
        'ensures': {
            'counts': 'd.nefc == 0 and d.nisland == 0 and d.nJ == 0 and d.nY == 0 and d.nA == 0',
            'keeps': 'd.ncon == old(d.ncon) and d.parena == old(d.parena) and d.pstack == old(d.pstack) and d.narena == old(d.narena)'
                     ' and u64(d.arena) == old(u64(d.arena)) and d.pbase == old(d.pbase) and d.threadlock == old(d.threadlock)',
            'warnings_kept': 'And(*[d.warning[w].number == old(d.warning[w].number) for w in range(mjNWARNING)])',
        },
        'loops': {0: {'invariant': {'i': '0 <= i'}}},
        'no_error': True,
    },
    'clearIsland': {'inline': True},

    'pushPairArena': {
        'requires': {'wf': 'WF'},
        'assigns': ['d.parena', 'd.maxuse_arena'],
        'ensures': {'block_taken': 'd.parena >= old(d.parena) + sizeof("mjcPair")', 'wf': 'WF'},
        'error_only_if': 'old(d.parena) + sizeof("mjcPair") + 8 > d.narena - d.pstack',
    },
    'effAlloc': {
        'requires': {'wf': 'WF', 'al': 'is_pow2(align) and align <= 64'},
        'concretize': {'align': [1, 2, 4, 8, 16, 32, 64]},
        'assigns': ['d.parena', 'd.maxuse_arena'],
        'ensures': {'nonnull': 'result != NULL', 'wf': 'WF',
                    'inside': 'A + old(d.parena) <= u64(result) and u64(result) + bytes <= top'},
        'error_only_if': 'old(d.parena) + bytes + align > d.narena - d.pstack',
    },
    'mj_addContact': {
        'requires': {'wf': 'WF', 'contacts': 'CONTACTS_FIT', 'count_fits_int': 'd.ncon < 2**31 - 1'},
        'assigns': ['d.*', 'typed(d.arena, "mjContact")[*]'],
        'ensures': {
            'result_01': 'result == 0 or result == 1',
            'full_keeps_count': 'implies(result == 1, d.ncon == old(d.ncon))',
            'full_warns': 'implies(result == 1, warned(mjWARN_CONTACTFULL))',
            'full_is_real': 'implies(result == 1, old(d.ncon) * SZC + SZC > d.narena - d.pstack)',
            'ok_counts': 'implies(result == 0, d.ncon == old(d.ncon) + 1)',
            'arena_at_contacts_end': 'd.parena == d.ncon * SZC',
            'efc_invalidated': 'd.nefc == 0',
            'wf': 'WF and CONTACTS_FIT',
        },
        'no_error': True,
    },
    'arenaAllocEfc': {
        'requires': {'wf': 'WF', 'contacts': 'CONTACTS_FIT'},
        'assigns': ['d.*', 'typed(d.arena, "mjContact")[*]'],
        'ensures': {
            'result_01': 'result == 0 or result == 1',
            'fail_warns': 'implies(result == 0, warned(mjWARN_CNSTRFULL))',
            'fail_clears': 'implies(result == 0, d.nefc == 0 and d.parena == d.ncon * SZC)',
            'wf': 'WF and CONTACTS_FIT',
        },
        'no_error': True,
    },
    'arenaAllocIsland': {
        'requires': {'wf': 'WF'},
        'assigns': ['d.*'],
        'ensures': {
            'result_01': 'result == 0 or result == 1',
            'fail_warns': 'implies(result == 0, warned(mjWARN_CNSTRFULL))',
            'fail_restores_arena': 'implies(result == 0, d.parena == old(d.parena) and d.nefc == 0 and d.nisland == 0 and d.nidof == 0)',
            'wf': 'WF',
        },
        'no_error': True,
    },
}
