"""C19 contracts: stack / arena allocator (src/engine/engine_memory.c), math mode: unsigned arithmetic is exact modulo 2^64, signed overflow is an obligation;
the alignment parameter is concretised to each power of two (exhaustiveness is its own obligation).

Postconditions are taken from the property text ("every returned block is aligned, lies
inside the arena and overlaps no other live block ... freeing restores the marked stack
pointer, exhaustion is reported as an error (stack) or a NULL result (arena)").
Specification arithmetic is mathematical (136-bit), so `A + d.parena + bytes` below never wraps.
"""
import z3
from vlib.state import Ptr, RAW

FILE = 'src/engine/engine_memory.c'

DEFS = {
    'A': 'u64(d.arena)',
    'bottom': 'A + d.narena',
    'top': 'bottom - d.pstack',
    'limit': 'A + d.parena',
    'tl': 'd.threadlock != 0',
    # data invariant of an mjData arena (A % 64: what mju_malloc(…, 64) guarantees)
    'WFT': 'pmod(A, 64) == 0 and A != 0 and bottom < 2**64 and d.narena >= 0 and d.parena <= d.narena',
    'WF': 'WFT and d.parena + d.pstack <= d.narena',
    'pad': 'pmod(alignment - pmod(old(d.parena), alignment), alignment)',
    # where the stack allocator must place a block of sz bytes aligned to al (mathematically)
    'start': 'lambda sz, al: (old(top) - sz) - pmod(old(top) - sz, al)',
    'fits': 'lambda sz, al: sz <= old(top) - old(limit) and start(sz, al) >= old(limit)',
    'unchanged_static': 'd.parena == old(d.parena) and d.narena == old(d.narena) and u64(d.arena) == old(u64(d.arena))'
                        ' and d.threadlock == old(d.threadlock)',
    'raw_same_from': 'lambda lo: forall(lambda a: implies(a % 8 == 0 and a >= lo, raw64(a) == old(raw64(a))))',
    'raw_same_outside': 'lambda lo, hi: forall(lambda a: implies(a % 8 == 0 and (a < lo or a >= hi), raw64(a) == old(raw64(a))))',
}


def _raw_result(name):
    def mk(exe, st, args, node):
        exe.nsym += 1
        a = z3.Const('%s()#%d' % (name, exe.nsym), exe._rawsort()[0])
        if exe.sem.int_mode != 'bv':
            st.assume(z3.And(a >= 0, a < (1 << 64)))
        return Ptr(RAW, (a,), (), exe.tu.ctype('unsigned char'), isnull=(a == 0))
    return mk


STACKALLOC_REQ = {'wf': 'WFT and implies(not tl, WF)', 'al': 'is_pow2(alignment)'}


def stack_ensures(size, alignment):
    """ensures clauses of the stack allocators, parameterised by the byte-count / alignment expressions."""
    S, AL = size, alignment
    return {
        'zero_is_noop': 'implies(%s == 0, result == NULL and d.pstack == old(d.pstack))' % S,
        'nonnull': 'implies(%s != 0, result != NULL)' % S,
        'aligned': 'implies(%s != 0, pmod(u64(result), %s) == 0)' % (S, AL),
        'inside_arena_low': 'implies(%s != 0, old(limit) <= u64(result))' % S,
        'inside_arena_high': 'implies(%s != 0, u64(result) + %s <= bottom)' % (S, S),
        'below_live_stack': 'implies(%s != 0 and not tl, u64(result) + %s <= old(top))' % (S, S),
        'new_top_is_block': 'implies(%s != 0 and not tl, top == u64(result))' % S,
        'stack_grows': 'd.pstack >= old(d.pstack)',
        'wf': 'implies(not tl, WF)',
        'threadlock_region': 'implies(%s != 0 and tl, bottom - old(d.pstack) - (%s + %s - 1) <= u64(result)'
                             ' and u64(result) + %s <= bottom - old(d.pstack)'
                             ' and d.pstack == old(d.pstack) + %s + %s - 1'
                             ' and d.pstack <= d.narena - d.parena)' % (S, S, AL, S, S, AL),
        'frame': 'unchanged_static and d.pbase == old(d.pbase)',
        'raw_unchanged': 'rawmem() == old(rawmem())',
    }


def stack_error(size, alignment):
    return ('(not tl and %s != 0 and not fits(%s, %s)) or (tl and %s != 0 and old(d.pstack) + %s + %s - 1 > d.narena - d.parena)'
            % (size, size, alignment, size, size, alignment))


STACK_ASSIGNS = ['d.pstack', 'd.maxuse_stack', 'd.maxuse_arena']

CONTRACTS = {
    '__defs__': DEFS,
    'fastmod': {'inline': True},
    'get_stack_info_from_data': {'inline': True},
    'stackallocinternal': {'inline': True},
    'markstackinternal': {'inline': True},
    'freestackinternal': {'inline': True},

    'mj_arenaAllocByte': {
        'requires': {'wf': 'WF', 'al': 'is_pow2(alignment) and alignment <= 64'},
        'concretize': {'alignment': [1 << k for k in range(7)]},
        'assigns': ['d.parena', 'd.maxuse_arena'],
        'ensures': {
            'null_unchanged': 'implies(result == NULL, d.parena == old(d.parena))',
            'null_iff_full': 'iff(result == NULL, old(d.parena) + pad + bytes > old(d.narena) - old(d.pstack))',
            'aligned': 'implies(result != NULL, pmod(u64(result), alignment) == 0)',
            'above_live_arena': 'implies(result != NULL, A + old(d.parena) <= u64(result))',
            'first_fit': 'implies(result != NULL, u64(result) == A + old(d.parena) + pad)',
            'below_stack': 'implies(result != NULL, u64(result) + bytes <= top)',
            'bump': 'implies(result != NULL, d.parena == u64(result) - A + bytes)',
            'frame': 'd.pstack == old(d.pstack) and d.narena == old(d.narena) and u64(d.arena) == old(u64(d.arena)) and d.pbase == old(d.pbase)',
            'wf': 'WF',
        },
        'no_error': True,
    },

    'stackalloc': {
        'requires': STACKALLOC_REQ,
        'concretize': {'alignment': [1 << k for k in range(64)]},
        'assigns': STACK_ASSIGNS,
        'ensures': stack_ensures('size', 'alignment'),
        'error_only_if': stack_error('size', 'alignment'),
        'result': _raw_result('stackalloc'),
    },
    'mj_stackAllocByte': {
        'requires': STACKALLOC_REQ,
        'concretize': {'alignment': [1 << k for k in range(64)]},
        'assigns': STACK_ASSIGNS,
        'ensures': stack_ensures('bytes', 'alignment'),
        'error_only_if': stack_error('bytes', 'alignment'),
        'result': _raw_result('mj_stackAllocByte'),
    },
    'mj_stackAllocInfo': {
        'requires': STACKALLOC_REQ,
        'concretize': {'alignment': [1 << k for k in range(64)]},
        'params': {'caller': {'nullable': True}},
        'assigns': STACK_ASSIGNS,
        'ensures': stack_ensures('bytes', 'alignment'),
        'error_only_if': stack_error('bytes', 'alignment'),
        'result': _raw_result('mj_stackAllocInfo'),
    },
    'mj_stackAllocNum': {
        'requires': {'wf': 'WFT and implies(not tl, WF)'},
        'assigns': STACK_ASSIGNS,
        'ensures': stack_ensures('(size * 8)', '8'),
        'error_only_if': 'size * 8 >= 2**64 - 8 or ' + stack_error('(size * 8)', '8'),
        'result': _raw_result('mj_stackAllocNum'),
    },
    'mj_stackAllocInt': {
        'requires': {'wf': 'WFT and implies(not tl, WF)'},
        'assigns': STACK_ASSIGNS,
        'ensures': stack_ensures('(size * 4)', '4'),
        'error_only_if': 'size * 4 >= 2**64 - 4 or ' + stack_error('(size * 4)', '4'),
        'result': _raw_result('mj_stackAllocInt'),
    },

    'mj_markStack': {
        'requires': {'wf': 'WFT and implies(not tl, WF)'},
        'assigns': ['d.pstack', 'd.pbase', 'd.maxuse_stack', 'd.maxuse_arena', 'RAW'],
        'ensures': {
            'threadlock_noop': 'implies(tl, d.pstack == old(d.pstack) and d.pbase == old(d.pbase) and rawmem() == old(rawmem()))',
            'frame_aligned': 'implies(not tl, pmod(d.pbase, 8) == 0 and d.pbase != 0)',
            'frame_inside': 'implies(not tl, old(limit) <= d.pbase and d.pbase + 24 <= old(top))',
            'top_is_frame': 'implies(not tl, top == d.pbase)',
            'saves_base': 'implies(not tl, raw64(d.pbase) == old(d.pbase))',
            'saves_top': 'implies(not tl, raw64(d.pbase + 8) == old(top))',
            'writes_only_frame': 'implies(not tl, raw_same_outside(d.pbase, d.pbase + 16))',
            'frame': 'unchanged_static',
            'wf': 'implies(not tl, WF)',
        },
        'error_only_if': 'not tl and not fits(24, 8)',
    },
    'mj_freeStack': {
        # a live frame: pbase was set by mj_markStack, its saved top lies between the current top and the bottom
        'requires': {'wf': 'WFT and implies(not tl, WF)',
                     'live_frame': 'implies(not tl and d.pbase != 0, pmod(d.pbase, 8) == 0 and top <= raw64(d.pbase + 8) and raw64(d.pbase + 8) <= bottom)'},
        'assigns': ['d.pstack', 'd.pbase'],
        'ensures': {
            'threadlock_noop': 'implies(tl, d.pstack == old(d.pstack) and d.pbase == old(d.pbase))',
            'no_frame_noop': 'implies(not tl and old(d.pbase) == 0, d.pstack == old(d.pstack) and d.pbase == 0)',
            'restores_base': 'implies(not tl and old(d.pbase) != 0, d.pbase == old(raw64(d.pbase)))',
            'restores_top': 'implies(not tl and old(d.pbase) != 0, top == old(raw64(d.pbase + 8)))',
            'frame': 'unchanged_static and rawmem() == old(rawmem())',
            'wf': 'implies(not tl, WF)',
        },
        'no_error': True,
    },

    # ---- client lemmas (shims/c19_client.c): verified against the contracts above -------------
    'c19_client': {
        'requires': {'wf': 'WF and not tl', 'al': 'is_pow2(al)'},
        'assigns': ['d.pstack', 'd.pbase', 'd.maxuse_stack', 'd.maxuse_arena', 'RAW'],
        'ensures': {
            'restores_stack_pointer': 'd.pstack == old(d.pstack)',
            'restores_stack_base': 'd.pbase == old(d.pbase)',
            'live_blocks_untouched': 'raw_same_from(old(top))',
            'frame': 'unchanged_static',
            'wf': 'WF',
        },
        'loops': {0: {'invariant': {
            'wf': 'WF and not tl and unchanged_static',
            'i': '0 <= i',
            'frame_is_mine': 'd.pbase != 0 and pmod(d.pbase, 8) == 0 and top <= d.pbase and d.pbase + 24 <= old(top)',
            'saved_base': 'raw64(d.pbase) == old(d.pbase)',
            'saved_top': 'raw64(d.pbase + 8) == old(top)',
            'above_untouched': 'raw_same_from(old(top))',
        }}},
    },
    'c19_nested': {
        'requires': {'wf': 'WF and not tl', 'al': 'is_pow2(al) and is_pow2(a1)'},
        'assigns': ['d.pstack', 'd.pbase', 'd.maxuse_stack', 'd.maxuse_arena', 'RAW'],
        'ensures': {
            'restores_stack_pointer': 'd.pstack == old(d.pstack)',
            'restores_stack_base': 'd.pbase == old(d.pbase)',
            'live_blocks_untouched': 'raw_same_from(old(top))',
            'wf': 'WF',
        },
    },
}
