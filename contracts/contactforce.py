"""C11: mj_contactForce (engine_core_util.c) - what the user reads back for one contact.  Math ints, reals."""
from contracts.state import CONTRACTS as STATE
from contracts.sleep import ZERO

DEFS = {
    'VALID': '0 <= id and id < d.ncon and d.contact[id].efc_address >= 0',
    'ADR': 'd.contact[id].efc_address', 'DIM': 'd.contact[id].dim',
}
IS_PYR = {'assumed': True, 'ghost_params': {'PYR': 'int'}, 'requires': {}, 'assigns': [], 'pure': True, 'ensures': {'cone_type_named_by_the_ghost': 'result == PYR'}}
DECODE = {'assumed': True, 'requires': {}, 'assigns': ['force[*]'], 'ensures': {}}      # proved for dims 1, 3, 4, 6 through its clients in this check; used by frame here
CONTACT_FORCE = {
    'ghost_params': {'PYR': 'int', 'NEFC': 'int'},
    'params': {'m': {'n': 1}, 'd': {'n': 1, 'ptrfields': {'contact': {'len': 'd.ncon'}, 'efc_force': {'len': 'NEFC'}}}, 'result': {'n': 6}},
    'defs': DEFS,
    'requires': {'sizes': '0 <= d.ncon and d.ncon < 2**28 and 0 <= NEFC and NEFC < 2**28',
                 'valid_contacts_have_their_rows': 'forall(lambda c: implies(0 <= c and c < d.ncon and d.contact[c].efc_address >= 0, 1 <= d.contact[c].dim and d.contact[c].dim <= 6 and '
                                                   'd.contact[c].efc_address + 2 * d.contact[c].dim <= NEFC))'},
    'assigns': ['result[*]'],
    'ensures': {
        'a_contact_outside_the_solver_reports_zero_force': 'implies(not (VALID), And(*[result[k] == 0 for k in (0, 1, 2, 3, 4, 5)]))',
        'elliptic_normal_force_is_the_solver_force_minus_the_adhesive_pull': 'implies(VALID and PYR == 0, result[0] == d.efc_force[ADR] - d.contact[id].adhesion)',
        'elliptic_friction_components_are_the_solver_forces': 'implies(VALID and PYR == 0, And(*[implies(k < DIM, result[k] == d.efc_force[ADR + k]) for k in (1, 2, 3, 4, 5)]))',
        'components_beyond_the_contact_dimension_are_zero': 'implies(VALID and PYR == 0, And(*[implies(k >= DIM, result[k] == 0) for k in (1, 2, 3, 4, 5)]))',
    },
    'ghost_args': {'mj_isPyramidal': {'PYR': 'PYR'}},
    'no_error': True,
}


def contracts():
    return {'__defs__': {}, 'mj_contactForce': CONTACT_FORCE, 'mj_isPyramidal': IS_PYR, 'mju_decodePyramid': DECODE, 'mju_copy': STATE['mju_copy'], 'mju_zero': ZERO}
