"""C22 contracts: the repository's sort macros instantiated in shims/c22_sort.c (math ints).

Elements are {key, id}; id is a ghost label (position at entry) that no macro reads.
  lex(a,p,b,q)  :  a[p] sorts strictly before b[q] in (key, id) order
  "sorted and stable"   ==  every pair p<q of the result is in lex order (ids are entry positions)
  "permutation"         ==  ids stay in range, every element still carries the key its id had at entry
                            (intact); lex order is strict, so ids are pairwise distinct, and an injective map of
                            [0,n) into [0,n) is a bijection (pigeonhole - the one mathematical fact used outside the solver)
"""

DEFS = {
    'K': 'lambda a, p: a[p].key',
    'I': 'lambda a, p: a[p].id',
    'lex': 'lambda a, p, b, q: K(a, p) < K(b, q) or (K(a, p) == K(b, q) and I(a, p) < I(b, q))',
    'same': 'lambda a, p, b, q: K(a, p) == K(b, q) and I(a, p) == I(b, q)',
    # ghost parameters of the sub-macro contracts (uninterpreted, so the contracts hold for every choice):
    # KEYOF(id) = the key the element labelled id carries; [IDLO, IDHI) = the set of labels in play
    'KEYOF': "z3.Function('KEYOF', z3.IntSort(), z3.IntSort())",
    'IDLO': "z3.Int('IDLO')", 'IDHI': "z3.Int('IDHI')",
    'KEYOFI': "z3.Function('KEYOFI', z3.IntSort(), z3.IntSort())",
    'KEYOFN': "z3.Function('KEYOFN', z3.IntSort(), z3.Float64())",
}

CMP = {
    'assumed': True,       # the comparator is a parameter of the macros: any pure total preorder through an int key
    'requires': {}, 'assigns': [],
    'ensures': {'lt': '(result < 0) == (a.key < b.key)', 'gt': '(result > 0) == (a.key > b.key)'},
}

INS_OUTER = {'invariant': {
    'j': 'start < j and (j <= end or j == start + 1)',
    'sorted': 'forall(lambda p, q: implies(start <= p and p < q and q < j and q < end, lex(arr, p, arr, q)))',
    'ids': 'forall(lambda p: implies(start <= p and p < j and p < end, start <= I(arr, p) and I(arr, p) < j))',
    'intact': 'forall(lambda p: implies(start <= p and p < end, K(arr, p) == KEYOF(I(arr, p))))',
    'suffix': 'forall(lambda p: implies(j <= p and p < end, same(arr, p, entry(arr), p)))',
    'frame': 'forall(lambda p: implies(p < start or p >= end, same(arr, p, entry(arr), p)))',
}}
INS_INNER = {'invariant': {
    'k': 'start - 1 <= k and k <= j - 1',
    'low': 'forall(lambda p: implies(p <= k + 1, same(arr, p, entry(arr), p)))',
    'shifted': 'forall(lambda p: implies(k + 2 <= p and p <= j, same(arr, p, entry(arr), p - 1)))',
    'high': 'forall(lambda p: implies(p > j, same(arr, p, entry(arr), p)))',
    'greater': 'forall(lambda p: implies(k + 2 <= p and p <= j, K(arr, p) > tmp.key))',
}}

MERGE_LOOP = {'invariant': {
    'ijk': 'start <= i and i <= mid and mid <= j and j <= end and k == start + (i - start) + (j - mid)',
    'out_sorted': 'forall(lambda p, q: implies(start <= p and p < q and q < k, lex(dest, p, dest, q)))',
    'out_below_left': 'forall(lambda p, q: implies(start <= p and p < k and i <= q and q < mid, lex(dest, p, src, q)))',
    'out_below_right': 'forall(lambda p, q: implies(start <= p and p < k and j <= q and q < end, lex(dest, p, src, q)))',
    'out_intact': 'forall(lambda p: implies(start <= p and p < k, K(dest, p) == KEYOF(I(dest, p))))',
    'out_ids': 'forall(lambda p: implies(start <= p and p < k, IDLO <= I(dest, p) and I(dest, p) < IDHI))',
    'frame': 'forall(lambda p: implies(p < start or p >= end, same(dest, p, entry(dest), p)))',
}}



def merge_loop_in_sort():
    inv = dict(MERGE_LOOP['invariant'])
    return {'invariant': inv}


def sort_run_loop():
    return {'invariant': {
        'start': 'start >= 0 and start % 32 == 0',
        'done_sorted': 'forall(lambda p, q: implies(0 <= p and p < q and q < start and q < n and p / 32 == q / 32, lex(arr, p, arr, q)))',
        'done_ids': 'forall(lambda p: implies(0 <= p and p < start and p < n, (p / 32) * 32 <= I(arr, p) and I(arr, p) < (p / 32) * 32 + 32 and I(arr, p) < n))',
        'intact': 'forall(lambda p: implies(0 <= p and p < n, K(arr, p) == KEYOF(I(arr, p))))',
        'todo': 'forall(lambda p: implies(start <= p and p < n, same(arr, p, old(arr), p)))',
        'frame': 'forall(lambda p: implies(p < 0 or p >= n, same(arr, p, old(arr), p)))',
    }}


def pass_inv(t):
    L = 32 << t
    return {
        'len': 'len == %d' % L,
        'sorted': 'forall(lambda p, q: implies(0 <= p and p < q and q < n and p / %d == q / %d, lex(src, p, src, q)))' % (L, L),
        'ids': 'forall(lambda p: implies(0 <= p and p < n, (p / %d) * %d <= I(src, p) and I(src, p) < (p / %d) * %d + %d and I(src, p) < n))' % (L, L, L, L, L),
        'intact': 'forall(lambda p: implies(0 <= p and p < n, K(src, p) == KEYOF(I(src, p))))',
        'frame': 'forall(lambda p: implies(p < 0 or p >= n, same(arr, p, old(arr), p)))',
    }


def block_loop():
    return {'invariant': {
        'start': 'start >= 0 and start % (2 * len) == 0',
        'done_sorted': 'forall(lambda p, q: implies(0 <= p and p < q and q < start and q < n and p / (2 * len) == q / (2 * len), lex(dest, p, dest, q)))',
        'done_ids': 'forall(lambda p: implies(0 <= p and p < start and p < n, (p / (2 * len)) * (2 * len) <= I(dest, p)'
                    ' and I(dest, p) < (p / (2 * len)) * (2 * len) + 2 * len and I(dest, p) < n))',
        'done_intact': 'forall(lambda p: implies(0 <= p and p < start and p < n, K(dest, p) == KEYOF(I(dest, p))))',
        'frame': 'forall(lambda p: implies(p < 0 or p >= n, same(dest, p, entry(dest), p)))',
    }}


SORT = {
    # n <= 2^30: above that `start + 2*len` / `len *= 2` overflow int (recorded finding F5); the elements carry entry positions as ids
    'requires': {'n': '0 <= n and n <= 2**30',
                 'labeled': 'forall(lambda p: implies(0 <= p and p < n, I(arr, p) == p))',
                 # ghost: KEYOF names the key each label carries at entry (exists for every input)
                 'keyof': 'forall(lambda p: implies(0 <= p and p < n, KEYOF(p) == K(arr, p)))'},
    'params': {'arr': {'n': None}, 'buf': {'n': None}, 'context': {'nullable': True}},
    'defs': {'IDLO': 'start', 'IDHI': 'imin(start + 2 * len, n)'},
    'assigns': ['arr[*]', 'buf[*]'],
    'ensures': {
        'sorted_stable': 'forall(lambda p, q: implies(0 <= p and p < q and q < n, lex(arr, p, arr, q)))',
        'ids_in_range': 'forall(lambda p: implies(0 <= p and p < n, 0 <= I(arr, p) and I(arr, p) < n))',
        'intact': 'forall(lambda p: implies(0 <= p and p < n, K(arr, p) == old(arr)[I(arr, p)].key))',
        'frame': 'forall(lambda p: implies(p < 0 or p >= n, same(arr, p, old(arr), p)))',
    },
    'loops': {0: sort_run_loop(), 1: INS_OUTER, 2: INS_INNER,
              3: {'cut_unroll': True, 'symbolic_exit': True, 'keep': ['len', 'src', 'dest', 'tmp'], 'unroll': 27, 'invariant_at': pass_inv},
              4: block_loop(), 5: merge_loop_in_sort()},
    'no_error': True,
}



def scalar_insertion(kind):
    """mju_insertionSort / mju_insertionSortInt (engine_util_misc.c): elements are scalars, so the ghost label is the
    executor's element tag (tagat): it travels with every direct copy list[a] = list[b], x = list[i], list[j+1] = x."""
    if kind == 'int':
        lt, eq = (lambda a, b: '%s < %s' % (a, b)), (lambda a, b: '%s == %s' % (a, b))
        gt = lambda a, b: '%s > %s' % (a, b)
        extra_req = {}
    else:
        lt, eq = (lambda a, b: 'fpLT(%s, %s)' % (a, b)), (lambda a, b: 'fpEQ(%s, %s)' % (a, b))
        gt = lambda a, b: 'fpGT(%s, %s)' % (a, b)
        extra_req = {'no_nan': 'forall(lambda p: implies(0 <= p and p < n, not isnan(list[p])))'}
    V, T = (lambda p: 'list[%s]' % p), (lambda p: 'tagat(list, %s)' % p)
    lex = lambda p, q: '(%s or (%s and %s < %s))' % (lt(V(p), V(q)), eq(V(p), V(q)), T(p), T(q))
    KEY = 'KEYOFI' if kind == 'int' else 'KEYOFN'
    same_e = lambda p: '(list[%s] == entry(list)[%s] and tagat(list, %s) == tagat(entry(list), %s))' % (p, p, p, p)
    same_o = lambda p: '(list[%s] == old(list)[%s] and tagat(list, %s) == tagat(old(list), %s))' % (p, p, p, p)
    con = {
        'ghost_tags': True,
        'requires': dict(extra_req, n='n <= 2**30',
                         labeled='forall(lambda p: implies(0 <= p and p < n, %s == p))' % T('p'),
                         keyof='forall(lambda p: implies(0 <= p and p < n, %s(p) == %s))' % (KEY, V('p'))),
        'params': {'list': {'n': None}},
        'assigns': ['list[*]'],
        'ensures': {
            'sorted_stable': 'forall(lambda p, q: implies(0 <= p and p < q and q < n, %s))' % lex('p', 'q'),
            'labels_in_range': 'forall(lambda p: implies(0 <= p and p < n, 0 <= %s and %s < n))' % (T('p'), T('p')),
            'intact': 'forall(lambda p: implies(0 <= p and p < n, %s == %s(%s)))' % (V('p'), KEY, T('p')),
            'frame': 'forall(lambda p: implies(p < 0 or p >= n, %s))' % same_o('p'),
        },
        'loops': {
            0: {'invariant': {
                'i': '1 <= i and (i <= n or i == 1)',
                'sorted': 'forall(lambda p, q: implies(0 <= p and p < q and q < i and q < n, %s))' % lex('p', 'q'),
                'labels': 'forall(lambda p: implies(0 <= p and p < i and p < n, 0 <= %s and %s < i))' % (T('p'), T('p')),
                'intact': 'forall(lambda p: implies(0 <= p and p < n, %s == %s(%s)))' % (V('p'), KEY, T('p')),
                'suffix': 'forall(lambda p: implies(i <= p and p < n, %s))' % same_e('p'),
                'frame': 'forall(lambda p: implies(p < 0 or p >= n, %s))' % same_e('p'),
            }},
            1: {'invariant': {
                'j': '-1 <= j and j <= i - 1',
                'low': 'forall(lambda p: implies(p <= j + 1, %s))' % same_e('p'),
                'shifted': 'forall(lambda p: implies(j + 2 <= p and p <= i, list[p] == entry(list)[p - 1] and tagat(list, p) == tagat(entry(list), p - 1)))',
                'high': 'forall(lambda p: implies(p > i, %s))' % same_e('p'),
                'greater': 'forall(lambda p: implies(j + 2 <= p and p <= i, %s))' % gt(V('p'), 'x'),
            }},
        },
        'no_error': True,
    }
    return con


CONTRACTS = {
    '__defs__': DEFS,
    'vf_cmp': CMP,
    'vf_insertion': {
        'requires': {'range': '0 <= start and start < 2**31 - 1',
                     'labeled': 'forall(lambda p: implies(start <= p and p < end, I(arr, p) == p))',
                     'keyof': 'forall(lambda p: implies(start <= p and p < end, KEYOF(p) == K(arr, p)))'},
        'params': {'arr': {'n': None}},
        'assigns': ['arr[*]'],
        'ensures': {
            'sorted_stable': 'forall(lambda p, q: implies(start <= p and p < q and q < end, lex(arr, p, arr, q)))',
            'ids_in_range': 'forall(lambda p: implies(start <= p and p < end, start <= I(arr, p) and I(arr, p) < end))',
            'intact': 'forall(lambda p: implies(start <= p and p < end, K(arr, p) == old(arr)[I(arr, p)].key))',
            'intact_ghost': 'forall(lambda p: implies(start <= p and p < end, K(arr, p) == KEYOF(I(arr, p))))',
            'frame': 'forall(lambda p: implies(p < start or p >= end, same(arr, p, old(arr), p)))',
        },
        'loops': {0: INS_OUTER, 1: INS_INNER},
        'no_error': True,
    },

    'vf_merge': {
        # two adjacent runs of one array, each in strict (key,id) order, ids of the left run below ids of the right run
        'requires': {
            'range': '0 <= start and start <= mid and mid <= end',
            'intact': 'forall(lambda p: implies(start <= p and p < end, K(src, p) == KEYOF(I(src, p))))',
            'ids': 'forall(lambda p: implies(start <= p and p < end, IDLO <= I(src, p) and I(src, p) < IDHI))',
            'left_sorted': 'forall(lambda p, q: implies(start <= p and p < q and q < mid, lex(src, p, src, q)))',
            'right_sorted': 'forall(lambda p, q: implies(mid <= p and p < q and q < end, lex(src, p, src, q)))',
            'left_ids_below_right': 'forall(lambda p, q: implies(start <= p and p < mid and mid <= q and q < end, I(src, p) < I(src, q)))',
        },
        'params': {'src': {'n': None}, 'dest': {'n': None}},
        'assigns': ['dest[*]'],
        'ensures': {
            'sorted_stable': 'forall(lambda p, q: implies(start <= p and p < q and q < end, lex(dest, p, dest, q)))',
            'intact': 'forall(lambda p: implies(start <= p and p < end, K(dest, p) == KEYOF(I(dest, p))))',
            'ids': 'forall(lambda p: implies(start <= p and p < end, IDLO <= I(dest, p) and I(dest, p) < IDHI))',
            'frame': 'forall(lambda p: implies(p < start or p >= end, same(dest, p, old(dest), p)))',
        },
        'loops': {0: MERGE_LOOP},
        'no_error': True,
    },

    'vf_sort': SORT,

    # _mjSIFT_DOWN on the max-heap buf[0,end): all nodes below `start` already satisfy the heap property
    'vf_sift': {
        'requires': {
            'range': '0 <= start and start < end and end <= 2**30',
            'heap_below': 'forall(lambda r, c: implies(start < r and r < end and (c == 2 * r + 1 or c == 2 * r + 2) and c < end, K(buf, r) >= K(buf, c)))',
            'intact': 'forall(lambda p: implies(0 <= p and p < end, K(buf, p) == KEYOF(I(buf, p))))',
            'distinct': 'forall(lambda p, q: implies(0 <= p and p < q and q < end, I(buf, p) != I(buf, q)))',
            'ids': 'forall(lambda p: implies(0 <= p and p < end, IDLO <= I(buf, p) and I(buf, p) < IDHI))',
        },
        'params': {'buf': {'n': None}},
        'assigns': ['buf[*]'],
        'ensures': {
            'heap': 'forall(lambda r, c: implies(start <= r and r < end and (c == 2 * r + 1 or c == 2 * r + 2) and c < end, K(buf, r) >= K(buf, c)))',
            'intact': 'forall(lambda p: implies(0 <= p and p < end, K(buf, p) == KEYOF(I(buf, p))))',
            'distinct': 'forall(lambda p, q: implies(0 <= p and p < q and q < end, I(buf, p) != I(buf, q)))',
            'ids': 'forall(lambda p: implies(0 <= p and p < end, IDLO <= I(buf, p) and I(buf, p) < IDHI))',
            'frame': 'forall(lambda p: implies(p < start or p >= end, same(buf, p, old(buf), p)))',
        },
        'loops': {0: {'invariant': {
            'root': 'start <= root and root < end and (root == start or (root - 1) / 2 >= start)',
            'heap_except_root': 'forall(lambda r, c: implies(start <= r and r < end and r != root and (c == 2 * r + 1 or c == 2 * r + 2) and c < end, K(buf, r) >= K(buf, c)))',
            'grand': 'implies(root > start, forall(lambda c: implies((c == 2 * root + 1 or c == 2 * root + 2) and c < end, K(buf, (root - 1) / 2) >= K(buf, c))))',
            'intact': 'forall(lambda p: implies(0 <= p and p < end, K(buf, p) == KEYOF(I(buf, p))))',
            'distinct': 'forall(lambda p, q: implies(0 <= p and p < q and q < end, I(buf, p) != I(buf, q)))',
            'ids': 'forall(lambda p: implies(0 <= p and p < end, IDLO <= I(buf, p) and I(buf, p) < IDHI))',
            'frame': 'forall(lambda p: implies(p < start or p >= end, same(buf, p, entry(buf), p)))',
        }}},
        'no_error': True,
    },

    'mju_insertionSortInt': scalar_insertion('int'),
    'mju_insertionSort': scalar_insertion('num'),
}
