"""Array shapes of mjModel, extracted mechanically on every run from include/mujoco/mjxmacro.h
(the X-macro table mj_makeModel allocates from): name -> (C type, row-count field, columns expression).
Used as the model invariant 'every array has the length the X-macro table gives it'."""
import os
import re

REPO = os.environ.get('VERIF_REPO', '/repo')
_ROW = re.compile(r'^\s*X(?:NV|MJV)?\s*\(\s*([A-Za-z_][\w ]*?\*?)\s*,\s*(\w+)\s*,\s*(\w+)\s*,\s*([^)]*?(?:\([^)]*\))?[^)]*?)\s*\)\s*\\?\s*$')


def _macros(path):
    txt = open(path).read().replace('\\\n', '\x00')
    out = {}
    for m in re.finditer(r'^#define\s+(\w+)(\([^)]*\))?\s*(.*)$', txt, re.M):
        out[m.group(1)] = m.group(3).split('\x00')
    return out


def _expand(name, macros, seen=()):
    rows = []
    for line in macros[name]:
        s = line.strip()
        if not s:
            continue
        if s in macros and s not in seen:
            rows += _expand(s, macros, seen + (name,))
            continue
        m = _ROW.match(line)
        if m:
            rows.append((m.group(1).strip(), m.group(2), m.group(3), m.group(4).strip()))
    return rows


def model_pointers():
    macros = _macros(os.path.join(REPO, 'include/mujoco/mjxmacro.h'))
    rows = _expand('MJMODEL_POINTERS', macros)
    return {name: (typ, nr, nc) for typ, name, nr, nc in rows}


def model_sizes():
    macros = _macros(os.path.join(REPO, 'include/mujoco/mjxmacro.h'))
    out = []
    for line in macros['MJMODEL_SIZES']:
        m = re.match(r'^\s*X\s*\(\s*(\w+)\s*\)', line)
        if m:
            out.append(m.group(1))
    return out


def length_expr(nr, nc, mname='m'):
    """element count of an array as a contract expression over the model's size fields."""
    nc = re.sub(r'MJ_M\((\w+)\)', r'%s.\1' % mname, nc)
    nc = re.sub(r'\b(mj[A-Z]\w*)\b', r'\1', nc)
    return '%s.%s * (%s)' % (mname, nr, nc) if nc != '1' else '%s.%s' % (mname, nr)


if __name__ == '__main__':
    p = model_pointers()
    print(len(p), 'pointers;', len(model_sizes()), 'sizes')
    for k in list(p)[:5] + ['sensor_user', 'flex_edge', 'actuator_trnid', 'tendon_treeid']:
        print(k, p[k], length_expr(p[k][1], p[k][2]))


def int_macros():
    """integer #define constants of the public headers (array column counts such as mjNREF), read from the headers."""
    out = {}
    for h in ('mjmodel.h', 'mjdata.h', 'mjtype.h', 'mjvisualize.h', 'mjtnum.h'):
        p = os.path.join(REPO, 'include/mujoco', h)
        if not os.path.exists(p):
            continue
        for m in re.finditer(r'^#define\s+(mj[A-Z_0-9a-z]+)\s+(-?\d+)\s*(?://.*)?$', open(p).read(), re.M):
            out[m.group(1)] = int(m.group(2))
    return out


def make_model_params():
    """names of the size parameters of mj_makeModel, read from its definition in engine_io.c (the sizes it validates)."""
    src = open(os.path.join(REPO, 'src/engine/engine_io.c')).read()
    sig = src[src.index('void mj_makeModel('):]
    sig = sig[:sig.index('{')]
    return re.findall(r'mjtSize\s+(\w+)', sig)


def model_flags():
    """scalar mjtBool members of mjModel (derived flags), in declaration order, read from mjmodel.h."""
    src = open(os.path.join(REPO, 'include/mujoco/mjmodel.h')).read()
    body = src[src.index('struct mjModel_ {'):]
    body = body[:body.index('} mjModel;')]
    return re.findall(r'^\s*mjtBool\s+(\w+)\s*;', body, re.M)
