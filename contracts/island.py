"""C17 contracts: union-find core of island discovery (src/engine/engine_island.c), math ints.

Logical parameters (ghost, not C parameters): N = number of trees, rep = an array naming the canonical root of every
active tree.  Valid(R) is the representation invariant of the forest `parent` with witness R."""

VALID = ('lambda R: forall(lambda x: implies(0 <= x and x < N, '
         '(implies(parent[x] == -1, R[x] == -1)) and parent[x] >= -1 and '
         '(implies(parent[x] != -1, 0 <= R[x] and R[x] <= parent[x] and parent[x] <= x and R[parent[x]] == R[x] and parent[R[x]] == R[x])) and '
         '(implies(parent[x] == x, R[x] == x))))')
SAME_ACTIVE = 'forall(lambda x: implies(0 <= x and x < N, (parent[x] == -1) == (old(parent[x]) == -1)))'

DEFS = {'Valid': VALID}

ROOT = {
    'ghost_params': {'rep': 'array', 'N': 'int'},
    'params': {'parent': {'len': 'N'}},
    'requires': {'size': '0 <= N and N < 2**31', 'forest': 'Valid(rep)', 'active_tree': '0 <= tree and tree < N and parent[tree] != -1'},
    'assigns': ['parent[*]'],
    'ensures': {'returns_canonical_root': 'result == rep[tree]',
                'forest_kept_with_same_classes': 'Valid(rep)',
                'active_set_unchanged': SAME_ACTIVE},
    'loops': {
        0: {'invariant': {'walk': '0 <= root and root <= tree and parent[root] != -1 and rep[root] == rep[tree]'},
            'variant': 'root'},
        1: {'invariant': {'forest': 'Valid(rep)', 'root_fixed': 'rep[tree] == root and parent[root] == root and 0 <= root',
                          'walk': '0 <= tree and tree < N and parent[tree] != -1',
                          'active': 'forall(lambda x: implies(0 <= x and x < N, (parent[x] == -1) == (old(parent[x]) == -1)))'},
            'variant': 'tree'},
    },
    'no_error': True,
}


MERGE_DEFS = {
    # endpoints with the static tree (-1) replaced by the other endpoint
    'T1': 'old(tree2) if old(tree1) == -1 else old(tree1)',
    'T2': 'old(tree1) if old(tree2) == -1 else old(tree2)',
    # witness after activating the endpoints: a newly activated tree is its own class
    'R0': 'ite(old(parent[T1]) == -1, Store(rep, T1, T1), rep)',
    'R1': 'ite(old(parent[T2]) == -1 and T2 != T1, Store(R0, T2, T2), R0)',
    'RA': 'R1[T1]', 'RB': 'R1[T2]', 'MN': 'imin(RA, RB)',
    # witness after the union: exactly the two classes are united under the smaller root, every other class is untouched
    'W': "z3.Lambda([z3.Int('wx')], z3.If(z3.Or(R1[z3.Int('wx')] == RA, R1[z3.Int('wx')] == RB), MN, R1[z3.Int('wx')]))",
}

MERGE = {
    'ghost_params': {'rep': 'array', 'N': 'int'},
    'params': {'parent': {'len': 'N'}},
    'defs': MERGE_DEFS,
    'requires': {'size': '0 <= N and N < 2**31', 'forest': 'Valid(rep)',
                 'endpoints': '-1 <= tree1 and tree1 < N and -1 <= tree2 and tree2 < N'},
    'assigns': ['parent[*]'],
    'error_only_if': 'old(tree1) == -1 and old(tree2) == -1',
    'ensures': {'forest_with_the_two_classes_united': 'Valid(W)',
                'endpoints_active': 'parent[T1] != -1 and parent[T2] != -1',
                'others_keep_activity': 'forall(lambda x: implies(0 <= x and x < N and x != T1 and x != T2, (parent[x] == -1) == (old(parent[x]) == -1)))'},
    'ghost_args': {'mj_dsuRoot': [{'rep': 'R1', 'N': 'N'}, {'rep': 'R1', 'N': 'N'}]},
}


# cnt[t] = number of canonical roots among trees [0, t)   (ghost counting function, defined by recursion)
CNT_DEF = 'cnt[0] == 0 and forall(lambda t: implies(0 <= t and t < N, cnt[t + 1] == cnt[t] + (1 if rep[t] == t else 0)))'
CNT_MONO = 'forall(lambda a, b: implies(0 <= a and a <= b and b <= N, cnt[a] <= cnt[b]))'      # proved by induction (props/C17.py)
CNT_BOUND = 'forall(lambda t: implies(0 <= t and t <= N, 0 <= cnt[t] and cnt[t] <= t))'          # proved by induction (props/C17.py)
CUM_DEF = 'cum[0] == 0 and forall(lambda t: implies(0 <= t and t < N, cum[t + 1] == cum[t] + tree_dofnum[t] * (0 if rep[t] == -1 else 1)))'

ASSIGN = {
    'ghost_params': {'rep': 'array', 'N': 'int', 'cnt': 'array', 'cum': 'array'},
    'params': {'parent': {'len': 'N'}, 'island': {'len': 'N'}, 'tree_dofnum': {'len': 'N'}, 'nidof': {'len': '1'}},
    'requires': {'size': '0 <= N and N < 2**31 and ntree == N', 'forest': 'Valid(rep)',
                 'counting_function': CNT_DEF, 'counting_function_monotone': CNT_MONO, 'counting_function_bounded': CNT_BOUND,
                 'dof_prefix_sums': CUM_DEF + ' and forall(lambda t: implies(0 <= t and t <= N, 0 <= cum[t] and cum[t] < 2**31))'
                                    ' and forall(lambda t: implies(0 <= t and t < N, tree_dofnum[t] >= 0))'},
    'assigns': ['parent[*]', 'island[*]', 'nidof[*]'],
    'ensures': {
        'inactive_trees_get_minus_one': 'forall(lambda t: implies(0 <= t and t < N, (island[t] == -1) == (rep[t] == -1)))',
        'same_island_iff_same_class': 'forall(lambda t, u: implies(0 <= t and t < N and 0 <= u and u < N and rep[t] != -1 and rep[u] != -1,'
                                      ' (island[t] == island[u]) == (rep[t] == rep[u])))',
        'ids_ascend_with_smallest_tree': 'forall(lambda r, s: implies(0 <= r and r < s and s < N and rep[r] == r and rep[s] == s, island[r] < island[s]))',
        'ids_are_0_to_count': 'forall(lambda t: implies(0 <= t and t < N and rep[t] != -1, 0 <= island[t] and island[t] < result))',
        'count_is_number_of_classes': 'result == cnt[N]',
        'island_of_root_is_its_rank': 'forall(lambda r: implies(0 <= r and r < N and rep[r] == r, island[r] == cnt[r]))',
        'fully_compressed': 'forall(lambda t: implies(0 <= t and t < N, parent[t] == rep[t]))',
        'dof_count': 'nidof[0] == cum[N]',
    },
    'loops': {0: {'invariant': {
        'range': '0 <= tree and tree <= N',
        'counters': 'nisland == cnt[tree] and nidof[0] == cum[tree]',
        'forest': 'Valid(rep)',
        'done': 'forall(lambda t: implies(0 <= t and t < tree, (implies(rep[t] == -1, island[t] == -1)) and '
                '(implies(rep[t] != -1, island[t] == cnt[rep[t]] and parent[t] == rep[t]))))',
    }}},
    'no_error': True,
}


# treeNext(m, d, i, iter): the generic scan over row i of the constraint Jacobian returns the tree of the first entry (from the
# iterator position on) whose tree differs from the previous one, or -2 when every remaining entry belongs to the previous tree.
# Model invariant used by the dense branch: the dofs of a tree are one contiguous block.
TREE_BLOCKS = ('forall(lambda q: implies(0 <= q and q < m.nv, 0 <= m.dof_treeid[q] and m.dof_treeid[q] < m.ntree and '
               'm.tree_dofadr[m.dof_treeid[q]] <= q and q < m.tree_dofadr[m.dof_treeid[q]] + m.tree_dofnum[m.dof_treeid[q]])) and '
               'forall(lambda t, q: implies(0 <= t and t < m.ntree and m.tree_dofadr[t] <= q and q < m.tree_dofadr[t] + m.tree_dofnum[t], 0 <= q and q < m.nv and m.dof_treeid[q] == t))')
NEXT_DEFS = {
    'IDX0': 'old(iter.jac_idx)', 'PREV': 'old(iter.tree_prev)',
    'NNZ': 'd.efc_J_rownnz[i]', 'COL': 'lambda k: d.efc_J_colind[d.efc_J_rowadr[i] + k]',
    'TS': 'lambda k: m.dof_treeid[COL(k)]',                       # tree of the k-th stored entry of the sparse row
    'NZ': 'lambda k: not fpEQ(d.efc_J[m.nv * i + k], fp(0.0))',   # dense row entry k is non-zero
}


def tree_next(sparse):
    req = {'sizes': '0 <= m.nv and m.nv < 2**15 and 0 <= m.ntree and m.ntree < 2**15 and 0 <= i and i < NEFC and NEFC < 2**15',
           'generic_scan_mode': 'iter.trees[0] == -2 and iter.jac_idx >= 0', 'jacobian_layout': 'SPARSE == %d' % (1 if sparse else 0),
           'tree_blocks': TREE_BLOCKS}
    if sparse:
        req['row'] = ('iter.jac_idx <= NNZ and 0 <= NNZ and 0 <= d.efc_J_rowadr[i] and d.efc_J_rowadr[i] + NNZ <= NJ and NJ < 2**30 and '
                      'forall(lambda k: implies(0 <= k and k < NNZ, 0 <= COL(k) and COL(k) < m.nv))')
        ens = {'exhausted_means_only_the_previous_tree_remains': 'implies(result == -2, forall(lambda k: implies(IDX0 <= k and k < NNZ, TS(k) == PREV)))',
               'found_the_first_entry_of_another_tree': 'implies(result != -2, IDX0 <= iter.jac_idx and iter.jac_idx < NNZ and result == TS(iter.jac_idx) and result != PREV and '
                                                        'iter.tree_prev == result and forall(lambda k: implies(IDX0 <= k and k < iter.jac_idx, TS(k) == PREV)))'}
        loops = {0: {'invariant': {'scan': 'IDX0 <= j and j <= NNZ and tree_next == -2 and rownnz == NNZ', 'skipped': 'forall(lambda k: implies(IDX0 <= k and k < j, TS(k) == PREV))'}}}
    else:
        req['row'] = 'iter.jac_idx <= m.nv and m.nv * NEFC <= NJ and NJ < 2**30'
        ens = {'exhausted_means_only_the_previous_tree_remains': 'implies(result == -2, forall(lambda k: implies(IDX0 <= k and k < m.nv and NZ(k), m.dof_treeid[k] == PREV)))',
               'found_the_first_entry_of_another_tree': 'implies(result != -2, IDX0 <= iter.jac_idx and iter.jac_idx < m.nv and NZ(iter.jac_idx) and result == m.dof_treeid[iter.jac_idx] and '
                                                        'result != PREV and iter.tree_prev == result and forall(lambda k: implies(IDX0 <= k and k < iter.jac_idx and NZ(k), m.dof_treeid[k] == PREV)))'}
        loops = {1: {'invariant': {'scan': 'IDX0 <= j and j <= m.nv and tree_next == -2 and nv == m.nv', 'skipped': 'forall(lambda k: implies(IDX0 <= k and k < j and NZ(k), m.dof_treeid[k] == PREV))'}}}
    return {
        'ghost_params': {'NEFC': 'int', 'NJ': 'int', 'SPARSE': 'int'},
        'params': {'m': {'n': 1, 'ptrfields': {'dof_treeid': {'len': 'm.nv'}, 'tree_dofadr': {'len': 'm.ntree'}, 'tree_dofnum': {'len': 'm.ntree'}}},
                   'd': {'n': 1, 'ptrfields': {'efc_J_rownnz': {'len': 'NEFC'}, 'efc_J_rowadr': {'len': 'NEFC'}, 'efc_J_colind': {'len': 'NJ'}, 'efc_J': {'len': 'NJ'}}},
                   'iter': {'n': 1}},
        'defs': NEXT_DEFS, 'requires': req, 'assigns': ['iter.*nonptr'], 'ensures': ens, 'loops': loops, 'no_error': True, 'prune_ms': 500,
        'ghost_args': {'mj_isSparse': {'SPARSE': 'SPARSE'}},
    }


IS_SPARSE = {'assumed': True, 'ghost_params': {'SPARSE': 'int'}, 'requires': {}, 'assigns': [], 'pure': True,
             'ensures': {'the_layout_in_use': 'result == SPARSE'}}      # mj_isSparse(m): the Jacobian layout of this model (named by a ghost)


# treeIterInit(m, d, i, iter): which trees a constraint row touches directly (the documented incidence table), or the generic Jacobian scan
ITER_DEFS = {
    'TY': 'd.efc_type[i]', 'ID': 'd.efc_id[i]',
    'CONTACT': 'TY == mjCNSTR_CONTACT_FRICTIONLESS or TY == mjCNSTR_CONTACT_PYRAMIDAL or TY == mjCNSTR_CONTACT_ELLIPTIC',
    'G': 'lambda s: d.contact[ID].geom[s]',
    'GEOMS': 'G(0) >= 0 and G(1) >= 0',
    'CW': 'TY == mjCNSTR_EQUALITY and (m.eq_type[ID] == mjEQ_CONNECT or m.eq_type[ID] == mjEQ_WELD)',
    'EB': 'lambda o: (m.site_bodyid[o] if m.eq_objtype[ID] == mjOBJ_SITE else o)',
    'SPECIAL': 'lambda t0, t1: iter.trees[0] == t0 and iter.trees[1] == t1 and iter.jac_idx == -1 and iter.tree_prev == -1',
    'BODY_OK': 'lambda b: 0 <= b and b < m.nbody',
}
ITER_INIT = {
    'ghost_params': {'NEFC': 'int'},
    'params': {'m': {'n': 1, 'ptrfields': {'dof_treeid': {'len': 'm.nv'}, 'jnt_dofadr': {'len': 'm.njnt'}, 'body_treeid': {'len': 'm.nbody'}, 'geom_bodyid': {'len': 'm.ngeom'},
                                           'eq_type': {'len': 'm.neq'}, 'eq_obj1id': {'len': 'm.neq'}, 'eq_obj2id': {'len': 'm.neq'}, 'eq_objtype': {'len': 'm.neq'},
                                           'site_bodyid': {'len': 'm.nsite'}}},
               'd': {'n': 1, 'ptrfields': {'efc_type': {'len': 'NEFC'}, 'efc_id': {'len': 'NEFC'}, 'contact': {'len': 'd.ncon'}}},
               'iter': {'n': 1}},
    'defs': ITER_DEFS,
    'requires': {
        'sizes': '0 <= i and i < NEFC and NEFC < 2**30 and ' + ' and '.join('0 <= m.%s and m.%s < 2**30' % (k, k) for k in ('nv', 'njnt', 'nbody', 'ngeom', 'neq', 'nsite')) + ' and 0 <= d.ncon and d.ncon < 2**30',
        'row_object_in_range': 'implies(TY == mjCNSTR_FRICTION_DOF, 0 <= ID and ID < m.nv) and implies(TY == mjCNSTR_LIMIT_JOINT, 0 <= ID and ID < m.njnt) and '
                               'implies(CONTACT, 0 <= ID and ID < d.ncon and G(0) < m.ngeom and G(1) < m.ngeom) and implies(TY == mjCNSTR_EQUALITY, 0 <= ID and ID < m.neq)',
        'model_ids': 'forall(lambda j: implies(0 <= j and j < m.njnt, 0 <= m.jnt_dofadr[j] and m.jnt_dofadr[j] < m.nv)) and '
                     'forall(lambda g: implies(0 <= g and g < m.ngeom, BODY_OK(m.geom_bodyid[g]))) and forall(lambda s: implies(0 <= s and s < m.nsite, BODY_OK(m.site_bodyid[s]))) and '
                     'forall(lambda k: implies(0 <= k and k < m.neq and (m.eq_type[k] == mjEQ_CONNECT or m.eq_type[k] == mjEQ_WELD), '
                     '(BODY_OK(m.eq_obj1id[k]) and BODY_OK(m.eq_obj2id[k])) if m.eq_objtype[k] != mjOBJ_SITE else '
                     '(0 <= m.eq_obj1id[k] and m.eq_obj1id[k] < m.nsite and 0 <= m.eq_obj2id[k] and m.eq_obj2id[k] < m.nsite)))',
    },
    'assigns': ['iter.*nonptr'],
    'ensures': {
        'dof_friction_touches_the_tree_of_its_dof': 'implies(TY == mjCNSTR_FRICTION_DOF, SPECIAL(m.dof_treeid[ID], -2))',
        'joint_limit_touches_the_tree_of_the_joints_first_dof': 'implies(TY == mjCNSTR_LIMIT_JOINT, SPECIAL(m.dof_treeid[m.jnt_dofadr[ID]], -2))',
        'geom_contact_touches_the_trees_of_both_geoms': 'implies(CONTACT and GEOMS, SPECIAL(m.body_treeid[m.geom_bodyid[G(0)]], m.body_treeid[m.geom_bodyid[G(1)]]))',
        'connect_or_weld_touches_the_trees_of_both_bodies': 'implies(CW, SPECIAL(m.body_treeid[EB(m.eq_obj1id[ID])], m.body_treeid[EB(m.eq_obj2id[ID])]))',
        'two_static_sides_never_returned': 'implies((CONTACT and GEOMS) or CW, iter.trees[0] >= 0 or iter.trees[1] >= 0)',
        'everything_else_scans_the_jacobian_row_from_its_start': 'implies(not (TY == mjCNSTR_FRICTION_DOF or TY == mjCNSTR_LIMIT_JOINT or (CONTACT and GEOMS) or CW), '
                                                                 'iter.trees[0] == -2 and iter.trees[1] == -2 and iter.jac_idx == 0 and iter.tree_prev == -1)',
    },
}


def contracts():
    return {'__defs__': DEFS, 'mj_dsuRoot': ROOT, 'mj_dsuMerge': MERGE, 'mj_dsuAssign': ASSIGN}


def iter_contracts():
    return {'__defs__': {}, 'treeIterInit': ITER_INIT}


def next_contracts(sparse):
    return {'__defs__': {}, 'treeNext': tree_next(sparse), 'mj_isSparse': IS_SPARSE}


CONTRACTS = contracts()
