#!/bin/bash
# usage: tools/keep_seed.sh <PID> <i> <worktree>   -- confirms a sub-agent's seeded change and stores it under seeded/
PID=$1; I=$2; WT=$3; SRC=$WT/seeded_out/$I; DST=/verif/seeded/$PID-${4:-$I}    # optional 4th argument: index under seeded/ (second rounds)
set -u
cd $WT && git checkout -q -- . && git apply --check $SRC/patch.diff || { echo "patch does not apply"; exit 1; }
bash $SRC/run.sh $WT > /tmp/seed_clean.log 2>&1; clean=$?
git apply $SRC/patch.diff
bash $SRC/run.sh $WT > /tmp/seed_patched.log 2>&1; patched=$?
tests=$(/venv/bin/python -m pytest -q -p no:cacheprovider --timeout=900 --continue-on-collection-errors 2>&1 | tail -1)
git checkout -q -- .
echo "clean=$clean patched=$patched tests: $tests"
if [ $clean -eq 0 ] && [ $patched -ne 0 ] && echo "$tests" | grep -q "86 passed"; then
  mkdir -p $DST && cp -r $SRC/* $DST/
  # run my check against the change
  # the check reads the tree named by VERIF_REPO: the sub-agent's worktree with the patch applied (equivalent to
  # git -C /repo apply; run; git -C /repo checkout -- . but leaves /repo alone while other checks are being developed)
  git -C $WT apply $SRC/patch.diff
  out=$(cd /verif && VERIF_REPO=$WT VERIF_EVIDENCE_DIR=$(mktemp -d /dev/shm/seed_ev.XXXX) ./check $PID 2>&1); code=$?
  git -C $WT checkout -q -- .
  echo "$out" | tail -5
  caught=$(echo "$out" | grep -E "^VIOLATION" | sed -E 's/.*obligation=([^ ]+).*/\1/' | head -5 | tr '\n' ' ')
  python3 - "$DST/meta.json" "$code" "$caught" "$tests" <<'PY'
import json,sys
p,code,caught,tests=sys.argv[1:5]
m=json.load(open(p))
m['confirmed']={'demo_exit_clean_tree':0,'demo_fails_with_patch':True,'pytest_with_patch':tests.strip(),
  'ran':'tools/keep_seed.sh: git apply; run.sh (fails); git checkout; run.sh (passes); pytest baseline; VERIF_REPO=<worktree with the patch applied> ./check <pid>, then git checkout'}
m['check_exit_code_with_patch']=int(code); m['obligations_reporting_it']=caught.split()
json.dump(m,open(p,'w'),indent=1)
PY
  echo "kept $DST check_exit=$code caught: $caught"
else
  echo "NOT kept"
fi
