#!/bin/bash
# usage: tools/mutants.sh <property> <file-relative-to-repo> <<< lines of "name|sed-expression"
# applies each sed expression to a scratch copy of /repo (in /dev/shm), runs the check, prints the exit code.
PID=$1; FILE=$2
S=/dev/shm/vrepo_$$
mkdir -p $S && rsync -a --exclude .git /repo/src /repo/include /repo/python /repo/doc $S/ 2>/dev/null
cd /verif
while IFS='|' read -r name expr; do
  [ -z "$name" ] && continue
  cp /repo/$FILE $S/$FILE
  sed -i -E "$expr" $S/$FILE
  if cmp -s /repo/$FILE $S/$FILE; then echo "$name: SED DID NOT CHANGE ANYTHING"; continue; fi
  out=$(VERIF_REPO=$S VERIF_EVIDENCE_DIR=$S/evidence ./check $PID 2>&1); code=$?
  echo "$name: exit $code | $(echo "$out" | grep -E 'VIOLATION|UNDECIDED' | head -2 | cut -c1-230 | tr '\n' ' ')"
  cp /repo/$FILE $S/$FILE
done
rm -rf $S
