#!/usr/bin/env python3
"""regenerates /verif/MANIFEST.json from the tables below (run after adding a check)."""
import json
import os

HERE = os.path.dirname(os.path.dirname(os.path.abspath(__file__)))

CHECKS = {
    # pid: (design_ref, level text, level_note, technique)
    'C19': ('DESIGN.md section 4 / C19',
            'Deductive proof, function by function, of the allocator contracts on the real engine_memory.c: every obligation '
            '(alignment, inside-arena, non-overlap with live blocks, NULL/error exactly on exhaustion, mark/free restore) is '
            'regenerated from the source on every run and discharged by z3/cvc5 for all 64-bit sizes, all arena states and every '
            'power-of-two alignment. Loop-free code, so the proof is complete for the functions under contract.',
            'Trusted: the self-built VC generator (clang JSON AST -> SMT), clang front end, z3/cvc5; mju_error does not return; '
            '__atomic_fetch_add is a linearizable read-modify-write; default build flags (no ASAN red zones); LP64.',
            'contracts + self-built weakest-precondition/symbolic VC generation over the clang AST, z3 LIA (exact mod 2^64) + cvc5'),
    'C20': ('DESIGN.md section 4 / C20',
            'Deductive, per call site: (1) a path-sensitive typestate VC over the real AST of every function that calls '
            'mj_arenaAllocByte proves that no path dereferences, offsets or passes on a result that may be NULL and that every '
            'NULL path reports (mj_warning / error) before returning - loops by fixpoint, so for all iteration counts; (2) the '
            'allocation wrappers (pushPairArena, mj_addContact, arenaAllocEfc, arenaAllocIsland, effAlloc, mj_clearEfc, mj_warning) '
            'are verified against contracts stating the failure shape: warning counted, arena pointer restored, counters cleared, '
            'every arena pointer NULL after mj_clearEfc; the callee is used through its proved C19 contract only.',
            'Trusted: the VC generator and typestate analysis, clang, z3/cvc5; mju_error does not return; typed regions of the arena '
            'do not overlap (C19); warning counters below INT_MAX; fewer than INT_MAX contacts. Not decided: physical consistency '
            'of the truncated constraint set; writes into arena blocks performed by other functions.',
            'contracts + typestate/ghost-state VCs over the clang AST; symbolic VC generation + z3 LIA'),
    'C26': ('DESIGN.md section 4 / C26',
            'Deductive proof of the state API of engine_support.c against a component table written from the documentation: '
            'mj_stateSize == sum of selected sizes; mj_getState writes exactly [0,stateSize) with segment b == component b in bit '
            'order; mj_setState loads the selected components and leaves all others untouched; mj_copyState == get;set; '
            'mj_extractState layout/bounds/frame/error-iff; keyframe set/load; the get;set round trip as a client lemma over the '
            'contracts. All 2^14 signatures and all model sizes are symbolic; the 14-step loops are unrolled with a cut-point '
            'invariant per iteration, inner loops by inductive invariants.',
            'Trusted: VC generator, clang, z3/cvc5, libc memcpy contract. Assumed: _resetData frame (body not verified), model '
            'sizes in [0,2^24], component arrays distinct with documented lengths. Bounded stand-in (not counted as proved): '
            'content clause of mj_extractState, exhaustive over all 4.78M sub-signature pairs on one model natively. Not decided: '
            'mj_resetData == fresh mjData.',
            'contracts + symbolic VC generation (cut-point invariants, quantified array facts), z3 LIA+arrays+quantifiers'),
    'C22': ('DESIGN.md section 4 / C22',
            'Deductive proof (inductive loop invariants, all lengths) that mju_insertionSort / mju_insertionSortInt (real functions; '
            'IEEE compare, no NaN) and the repository macros _mjINSERTION_SORT, _mjMERGE, _mjSIFT_DOWN and the run phase of mjSORT '
            '(instantiated from engine_sort.h at a generic element type) produce a sorted, stable permutation / a merged stable run / '
            'a restored max-heap: elements carry ghost labels, so permutation and stability are first-order. The pass/block '
            'composition of mjSORT and the heap build/scan of mjPARTIAL_SORT are covered by a bounded stand-in only (not proof).',
            'Trusted: VC generator, clang, z3/cvc5, libc memcpy contract, comparator contract (total preorder via int key), '
            'pigeonhole. n <= 2^30. Bounded stand-in: every n <= 300 (3000 thorough) x 6 key distributions; partial sort exhaustive '
            'for n <= 7 over 3 keys and all k, on the compiled macro text.',
            'contracts + inductive loop invariants with ghost element labels, z3 LIA/FP + arrays + quantifiers; bounded native stand-in for the composition'),
    'C49': ('DESIGN.md section 4 / C49',
            'Exhaustive over a finite domain: every struct field (existence, type, array extent, order), every enum constant and '
            'every function (return and parameter types) of the introspection metadata becomes one _Static_assert compiled by clang '
            'against the real public headers; completeness (no header field / enum constant missing) is checked against clang\'s AST; '
            'parse_type(s).decl() is proved type-compatible with s for every type string of the metadata.',
            'Trusted: clang\'s type checker and constant evaluator, LP64. Doc strings are not checked; "..." of the three variadic '
            'functions cannot be represented by the metadata model (listed in evidence).',
            'compile-time assertions generated from the real metadata, discharged by the C compiler on the real headers'),
    'C24': ('DESIGN.md section 4 / C24',
            'Deductive proof over the reals that the real bodies of mju_mulQuat, mju_negQuat, mju_rotVecQuat (all branches), '
            'mju_quat2Mat, mju_mulQuatAxis, mju_derivQuat, mju_cross, mju_mulPose/negPose/trnVecPose, mju_axisAngle2Quat, '
            'mju_euler2Quat (all 216 axis sequences) and their mji_ inline twins satisfy the group laws: associativity, '
            'multiplicative norm, inverse, M(q)^T M(q) = |q|^4 I, det = |q|^6, M(ab) = M(a)M(b), rotation = matrix action and '
            'isometry for unit q, pose inverse, Euler composition. Each law is the postcondition of a client that only calls the '
            'utilities; the bodies are executed symbolically from the source on every run; obligations are polynomial identities '
            'discharged by z3/cvc5 nonlinear real arithmetic.',
            'Trusted: VC generator, clang, z3/cvc5. Machine doubles are treated as mathematical reals (the algebra is proved, not the '
            'rounding); sin/cos abstracted by s^2+c^2=1, sqrt by t>=0,t^2=x. Out of reach (listed): mat2Quat round trip (bounded '
            'native stand-in), subQuat/quatIntegrate/quat2Vel inverse laws.',
            'client-lemma contracts + symbolic execution of the real bodies, z3/cvc5 NRA'),
    'C12': ('DESIGN.md section 4 / C12',
            'Deductive proof over the reals, per constraint block (equality, friction loss, inequality, elliptic contact of dim 3/4/6) '
            'and per zone, on the symbolically executed real mj_constraintUpdate_impl: efc_force equals minus the gradient of the '
            'cost (derivative computed symbolically from the executed code\'s own cost expression), the cone Hessian equals the '
            'derivative of the force and is symmetric, cost and force are continuous across every pair of zones (C1), every piece '
            'has non-negative second derivatives, state codes are replicated and SATISFIED means zero force and cost.',
            'Trusted: VC generator, vlib/diff.py, clang, z3/cvc5. Doubles as reals. Preconditions D,R>0, floss>=0, mu,friction>0, '
            'D*R=1 on friction rows, R[j]*friction^2 = R[0]*mu^2 (mj_makeImpedance). Block independence of the main loop is an assumed '
            'frame fact. Not proved: PSD of the full elliptic Hessian, qfrc_constraint = J^T force.',
            'symbolic execution of the real body per block + symbolic differentiation, z3/cvc5 NRA'),
    'C11': ('DESIGN.md section 4 / C11',
            'Deductive proof over the reals on the same symbolic paths of mj_constraintUpdate_impl (the force Newton and CG return): '
            'friction-loss forces within +-frictionloss, unilateral forces non-negative, elliptic contact forces have non-negative '
            'normal component and lie inside the friction cone; pyramid decode(encode(f)) == f inside the pyramid, decoded normal force '
            'is the sum of the edges, tangential components within mu times normal (dims 3,4,6). mj_contactForce: a contact outside the solver reports zero force; for elliptic cones the normal component is the solver force minus the adhesive pull, the friction components are the solver forces and components beyond the contact dimension are zero.',
            'Trusted: as C12. Not decided: PGS/noslip projection loops, qfrc_constraint product, island re-assembly.',
            'symbolic execution of the real bodies, z3/cvc5 NRA'),
    'C30': ('DESIGN.md section 4 / C30',
            'Deductive proof: mju_isBad flags exactly NaN and |x| > 1e10 for EVERY IEEE double (Float64 theory, exact); '
            'mj_checkPos / mj_checkVel / mj_checkAcc (inductive search-loop invariants, all array lengths, with and without the sleep '
            'filter): if no checked entry is bad nothing changes; otherwise the corresponding warning is raised for the first bad index, '
            'its counter ends >= 1 and strictly larger than before when autoreset is disabled, and with autoreset the data is reset '
            '(all other counters cleared). mj_warning itself is verified against its contract. The bad-control check of mj_fwdActuation (PREFIX contract, entry to the exit of the control-check loop; stack allocator by its C19 contract): a bad control zeroes every control, is counted once under mjWARN_BADCTRL and the warning names a bad index; good controls pass unchanged and uncounted. The rest of mj_fwdActuation is not part of the verified text.',
            'Trusted: VC generator, clang, z3/cvc5. Assumed contracts: mj_resetData (clears warning counters, may rewrite mjData), '
            'mj_forward (keeps warning statistics). Sizes fit int. mj_fwdActuation prefix: stack allocator by its C19 contract, delayed controls arbitrary, clampVec by its any-input view, timer callback effect-free. '
            'Not decided: finiteness of the state after a whole mj_step; mj_fwdActuation after its control check.',
            'contracts + inductive loop invariants (one unit as a prefix contract), z3 QF_FP / LIA + arrays + quantifiers'),
    'C50': ('DESIGN.md section 4 / C50',
            'Deductive proof of the capacity half of the property: acquireGeom returns NULL exactly when ngeom >= maxgeom and then sets '
            'the status flag, otherwise it returns the slot geoms+ngeom and every write it makes lies inside the geoms buffer (bounds '
            'obligations), earlier geoms untouched; releaseGeom increments by one only for the most recently acquired slot and keeps '
            'ngeom <= maxgeom; a typestate VC over all 40 call sites proves the result is NULL-checked before any use; an AST frame '
            'scan proves nothing else writes the geom counter. Together: the scene never holds more than maxgeom geoms. Faithfulness, in part: '
            'acquireGeom stamps the slot with the object it was acquired for; mjv_initGeom (nullable inputs) sets type, size by geom type, the given pose, the integer '
            'defaults, writes only through its geom and leaves objid / objtype / category / segid alone; addGeomGeoms adds only model geoms whose category passes the mask '
            'and whose clamped group is enabled, in index order, with their slot numbers, never beyond the capacity, and leaves earlier scene geoms alone; bodycategory: static iff welded to the world.',
            'Trusted: VC generator, typestate analysis, clang, z3/cvc5. Assumed: decorating callees of addGeomGeoms (setMaterial, islandColor, markselected, makeLabel, vector helpers) '
            'write only the fields of the geom they are handed; conversions to float are value-preserving (opaque floats); plugin callbacks respect the discipline. Not decided '
            '(listed): completeness of addGeomGeoms and the pose / size of the added geoms at scene level, the other add*Geoms functions, determinism.',
            'contracts + typestate VC + frame scan over the clang AST, z3 LIA+arrays'),
    'C13': ('DESIGN.md section 4 / C13',
            'Deductive proof over the reals on the real bodies of the sphere-plane and sphere-sphere colliders: a contact is reported '
            'exactly when the signed surface distance is within the margin, dist is that distance, the normal is the unit plane normal / '
            'points from geom 1 to geom 2, pos is the midpoint of the two surface points; and mju_makeFrame builds an orthonormal frame whose '
            'first row is the normalised normal when the tangent is left undefined (as all primitive colliders do); sphere-capsule: the point of the capsule axis '
            'segment the collider uses is the nearest one to the sphere centre (quadratic along the unit axis, minimised by the clamped projection), the contact '
            'is reported exactly when that distance is within reach and dist is the gap between the two surfaces; plane-capsule (mjc_PlaneCapsule, on the model / data arrays): '
            'one contact per end sphere within margin, upper end first, each with the plane-sphere distance, normal, midpoint position and the capsule axis as tangent; '
            'sphere-cylinder (mjc_SphereCylinder): the contact is reported exactly when, and reports, the gap to the nearest feature of the solid cylinder - cap plane, '
            'round side, rim point, or (centre inside) the nearer of cap and side; getMargin / getGap select the pair or geom values.',
            'Trusted: VC generator, clang, z3/cvc5; doubles as reals, sqrt abstraction. Bounded stand-in (not counted): the compiled mjc_SphereCylinder on 4000 seeded poses. Not covered (listed): capsule-capsule and cylinder/box colliders, '
            'mj_geomDistance, GJK/EPA; mju_makeFrame with a supplied tangent.',
            'contracts + symbolic execution of the real bodies, z3/cvc5 NRA; bounded native stand-in'),
    'C14': ('DESIGN.md section 4 / C14',
            'Deductive proof of the filter predicates: filterBitmask (bit-vectors: filtered iff no shared contype/conaffinity bit, symmetric), '
            'filterBodyPair (the documented rules as a truth table, symmetric in the two bodies), canCollide2, and soundness of the geometric '
            'filters over the reals: filterBox / filterSphereBox discard a pair only if every two points of the margin-inflated volumes are '
            'farther apart than the margin (so a pair within margin is never dropped), filterBox keeps only boxes that really touch within '
            'margin, filterSphere discards iff centres are farther than the bound; all symmetric. The per-pair filter of the narrow phase, '
            'filterCollisionPair (callees mj_filterSphere, getMargin, getGap, mju_sub3, mju_dot3 each under their own contract): a pair listed '
            'explicitly is not generated twice, an explicit pair between two bodies that are not awake is dropped when sleeping is on, dynamic pairs '
            'are dropped exactly on excluding contype/conaffinity masks (no user filter installed), explicit pairs ignore the masks, the bounding '
            'test uses margin + gap of the right source, kept pairs pass every filter. Contact order: contactcompare is the lexicographic order on the (un-swapped) object pair, antisymmetric and transitive '
            '(lemmas), and the merge / insertion / sift-down blocks of the engine_sort.h macros (as in C22).',
            'Trusted: VC generator, clang, z3/cvc5; geometric filters over the reals; user callback mjcb_contactfilter arbitrary and effect-free. '
            'Not covered: SAP broad phase, BVH mid phase, completeness of the whole pair enumeration; the pass composition of mjSORT is a bounded stand-in.',
            'contracts (+ symmetry client lemmas), z3 QF_BV / LIA / LRA / NRA with quantified geometric soundness clauses; bounded native stand-in (sort composition)'),
    'C16': ('DESIGN.md section 4 / C16',
            'Deductive proof of the selection logic of mj_ray (inductive loop invariant over all geoms, IEEE comparisons, per-geom distance a '
            'ghost function): the result is -1 with geomid -1 exactly when no non-eliminated geom is hit, otherwise it is the distance of the '
            'returned geom, that geom is hit and not eliminated, no hit geom is nearer, ties go to the lowest index, NaN distances are never '
            'selected; ray_quad returns the smallest non-negative real root or -1 iff none exists; ray_sphere hit points lie on the sphere; ray_plane hit '
            'points lie in the plane, inside the rendered rectangle, only for rays facing the front side, and an unbounded plane is always hit from above; '
            'ray_eliminate applies the documented filter; ray_quad stores both roots and every real root is one of them; ray_capsule (normal == NULL): '
            'the reported point lies on the capsule surface (side between the caps or the proper half of a cap sphere), per path; likewise ray_ellipsoid (on the '
            'ellipsoid), ray_cylinder (round side between the caps, or a flat cap within the radius) and ray_box (on a face, inside its rectangle; 5000 paths); '
            'for the sphere and the ellipsoid also: no nearer point of the ray lies on the surface, and -1 is returned only when the ray misses (direction not degenerate); '
            'for the box: no nearer point lies on a face the ray is not parallel to; ray_map is the frame change mat\'(pnt-pos), mat\'vec; mju_rayGeom dispatches each geom type to its own routine with the right arguments (all six '
            'surface clauses carried through, unknown types are an error).',
            'Trusted: VC generator, clang, z3/cvc5. Assumed: per-geom ray routines are pure functions of the geom index; ngeom < 2^27; '
            'normal == NULL in mj_ray and the shape routines; all geometry over the reals. Not covered (listed): nearest / no-hit for capsule and cylinder, no-hit for the box, '
            ' mesh / hfield / SDF rays, mj_multiRay, BVH rays.',
            'contracts + inductive loop invariant with ghost functions, z3 QF_FP/LIA+quantifiers, NRA'),
    'C31': ('DESIGN.md section 4 / C31',
            'Deductive proof on the real engine_io.c (all sizes, all buffer contents symbolic): (1) mj_validateReferences returning NULL '
            'implies every cross-reference of a table written from the mjModel documentation is in bounds (130 clauses), with every read '
            'the validator itself makes in bounds and no integer overflow - inductive invariants of its 110 loops are generated from '
            'the loop bodies; (2) mj_loadModelBuffer never reaches bufread\'s internal error, every read lies inside the buffer and '
            'every write inside the model array it targets (lengths from mjxmacro.h), the preconditions of the validator hold at '
            'its call, a non-NULL result has all references in bounds; (3) mj_sizeModel equals the documented layout sum and '
            'mj_saveModel writes gap-free up to exactly that total; (4) mirror: item order, item lengths and slots of save and load '
            'agree, and every member of mjModel is serialized.',
            'Trusted: VC generator, clang, z3/cvc5, memcpy as exact byte copy (contents not modelled). Assumed: contract of mj_makeModel '
            '(body not verified), plugin callbacks effect-free, nonlinear products abstracted by an uninterpreted function (sound). '
            'Five genuine defects found and repaired (known_findings.json). Not decided: file wrappers, bit-exact array contents beyond '
            'the byte-copy argument.',
            'contracts + symbolic VC generation with generated search-loop invariants and sequence cut points; relational lock-step '
            'obligations over two executions; z3 LIA+arrays+quantifiers'),
    'C17': ('DESIGN.md section 4 / C17',
            'Deductive proof of the union-find core of island discovery on the real engine_island.c, with a ghost witness array rep (canonical '
            'root of every active tree) and the forest invariant Valid(parent, rep): mj_dsuRoot returns rep[tree], keeps Valid with the same '
            'classes and terminates (variants); mj_dsuMerge ends in Valid(parent, W) for the explicitly given witness W = exactly the two '
            'classes united under the smaller root, everything else unchanged, error exactly for two static endpoints; mj_dsuAssign gives -1 '
            'to inactive trees, equal ids exactly to trees of one class, ids 0..count-1 ascending with the smallest tree of the class '
            '(ghost counting function with two induction lemmas), full path compression and the dof count; treeNext (generic scan of a Jacobian '
            'row, dense and sparse): yields the tree of the first remaining entry whose tree differs from the previous one, -2 only when none is left; '
            'treeIterInit: the direct incidence table (dof friction -> tree of the dof, joint limit -> tree of the joint\'s first dof, geom contact and '
            'connect/weld -> the trees of both bodies, everything else -> generic scan from the start of the row).',
            'Trusted: VC generator, clang, z3/cvc5; induction schema for the two counting lemmas. Not under contract (listed): '
            'unionConstraintTrees (which rows are scanned, how their trees are merged), mj_island map construction, mj_floodFill. Bounded stand-in '
            '(not counted): the compiled union-find vs brute-force connected components on all short merge sequences over small forests.',
            'contracts with ghost (logical) parameters + inductive loop invariants and variants, z3 LIA+arrays+quantifiers; bounded native stand-in'),
    'C34': ('DESIGN.md section 4 / C34',
            'Deductive proof on the real engine_name.c, per object type of the mjtObj enumeration: _getnumadr returns the count, the name-address '
            'array and the start of the type\'s region of names_map for the region order extracted from the construction side '
            '(mjCModel::CopyNames); mj_id2name returns NULL exactly for out-of-range ids and empty names and otherwise points at the stored '
            'name; mj_name2id terminates within the region, returns -1 or an id whose stored name compares equal to the query (so -1 for '
            'a string that names nothing), and - under the probing-table invariant the compiler establishes - returns exactly the object '
            'whose name was queried (the inverse law).',
            'Trusted: VC generator, clang, z3/cvc5; strncmp as a pure function; mj_hashString as a pure function. Assumed: the table '
            'invariant built by namelist() in user_model.cc (C++, not verified), name addresses inside names, map entries ids or -1.',
            'contracts with ghost parameters + inductive loop invariant and variant over the probing loop, z3 LIA+arrays+quantifiers'),
    'C05': ('DESIGN.md section 4 / C05',
            'The decidable pieces of time integration. (1) The Runge-Kutta tableau constants RK4_A / RK4_B, read from the clang AST on every '
            'run and evaluated exactly over the rationals, are the classical tableau and satisfy all eight order conditions up to order 4 '
            'with C = row sums as mj_RungeKutta computes them (finite, exhaustive). (2) Deductive proof over the reals on the real '
            'mj_nextActivation: for every dynamics type integrated by the Euler rule the result is act + act_dot*h, clamped to actrange when '
            'the actuator is act-limited; for the exact filter the result lies in actrange when limited and otherwise moves strictly in the '
            'direction of act_dot (exp abstracted as a positive, monotone symbol).',
            'Trusted: VC generator, clang, z3/cvc5; doubles as reals; mju_clip / mju_max used through contracts proved under C27. Not decided '
            '(listed): the Euler / implicit / RK4 update rules as a whole, position integration on the manifold, DC-motor slots, convergence order.',
            'exact rational evaluation of constants from the AST; contracts + symbolic VC generation, z3 NRA'),
    'C23': ('DESIGN.md section 4 / C23',
            'Deductive proof (inductive loop invariants, all lengths, mjtNum opaque) of the data-movement routines of the real '
            'engine_util_misc.c: mju_gather / mju_gatherInt / mju_gatherMasked write res[i] = vec[ind[i]] (0 at negative indices for the '
            'masked form), mju_scatter / mju_scatterInt write res[ind[i]] = vec[i] and leave every non-indexed position untouched '
            '(injective index list given with a ghost inverse), the NULL-index forms are copies, and - client lemma over the contracts only - '
            'gather inverts scatter; mju_copySparse / mju_zeroSparse copy / clear exactly the stored entries of the listed rows of a CSR matrix.',
            'Trusted: VC generator, clang, z3/cvc5, mju_copy contract (proved under C26), mju_zero contract (proved under C18). Not decided (listed): factorisations, solves, '
            'rank-one updates, eigen-decomposition, box QP, dense/sparse conversion round trip, AVX paths.',
            'contracts with ghost parameters + inductive loop invariants, z3 LIA+arrays+quantifiers'),
    'C27': ('DESIGN.md section 4 / C27',
            'Deductive proof, exact over IEEE doubles, of the clamping primitives of actuation on the real code: mju_clip returns a value '
            'inside [min,max] whenever min <= max and x is not NaN, is the identity inside the range, saturates outside, passes NaN through; '
            'mju_min / mju_max return one of their arguments and bound both; clampVec (with and without an index list, inductive invariant) '
            'leaves every limited entry inside its range, unchanged if it already was, and never touches an unlimited entry; '
            'mj_actuatorDisabled is exactly the bit of the actuator group in the disable mask for groups 0..30 and 0 otherwise. mju_muscleDynamics (reals): the activation moves toward the clamped control. At the real call site (mj_fwdActuation, PREFIX contract: entry to the exit of the control-check loop) limited controls end inside ctrlrange unless clamping is disabled or every control was zeroed because one was bad - through an any-input view of clampVec (a NaN stays a NaN, everything else ends in range) proved on its body.',
            'Trusted: VC generator, clang, z3/cvc5. Assumed: index lists distinct and in range; ranges ordered, no NaN in the clamped vector. '
            'mj_fwdActuation prefix: stack allocator by its C19 contract, delayed controls arbitrary, timer callback effect-free, limited control ranges ordered. '
            'Not decided (listed): mj_fwdActuation after its control check, transmissions, muscle curves.',
            'contracts + symbolic VC generation, z3 QF_FP (exact Float64) + LIA+arrays+quantifiers'),
    'C46': ('DESIGN.md section 4 / C46',
            'Deductive, exact over IEEE Float64, on statements sliced from the real python/mujoco/minimize.py (re-parsed every run) and '
            'read per component: the candidate that least_squares passes to the residual inside the Armijo loop lies inside the bounds for '
            'every start point, bounds, scale D in [1e-6,1e6] and every step the box QP may return; the start point is clipped into the bounds; '
            'an accepted step (Armijo test not negative, model gradient along the step not positive) never increases the objective; and '
            '(ast structure) x is only ever replaced by an evaluated candidate after the Armijo loop succeeded. Hence every residual '
            'evaluation of the main loop and the returned point are inside the bounds and the trace objective is non-increasing.',
            'Trusted: the ast slicer / scalar reading (vlib/pyfp.py), z3. Assumed: contract of mujoco.mju_boxQP (step inside its box, descent '
            'direction), elementwise numpy semantics. jacobian_fd staying inside the bounds is covered by a Float32 stand-in in the quick tier '
            '(not counted) and attempted exactly in Float64 in the thorough tier. Not decided: reaching the bounded global minimum.',
            'verification conditions generated from the Python ast, z3 QF_FP (Float64 exact); ast structure scan'),
    'C47': ('DESIGN.md section 4 / C47',
            'Deductive proof over the reals by tracing: the real function objects pi_from_theta, pseudoinertia_from_pi and '
            'theta_from_pseudoinertia are executed once on numpy object arrays of symbolic scalars (after a syntactic check that they are '
            'value-independent straight-line code), and the resulting expressions are proved to satisfy: mass = exp(2 alpha) > 0; the '
            'pseudo-inertia equals U U^T entrywise for the documented upper-triangular U, is positive definite (kernel of U^T trivial, '
            'quadratic form a sum of squares); the rotational inertia is symmetric with positive diagonal and strict triangle '
            'inequalities; the upper Cholesky factor is unique, and with it theta_from_pseudoinertia returns theta.',
            'Trusted: the tracer (vlib/pytrace.py), numpy object-array semantics, z3 NRA. Assumed: doubles as reals, exp positive with log '
            'its inverse, np.linalg.cholesky returns the positive-diagonal factor. Not decided: applying the parameters to a spec and '
            'compiling (C++ compiler).',
            'symbolic tracing of the real Python functions + z3 NRA'),
    'C41': ('DESIGN.md section 4 / C41 and section 12',
            'Bounded exploration with the property as a contract used as oracle (nothing counted as proved): generated valid schemas must '
            'parse to a schema that passes an independent re-check of every documented rule; each of 12 rule-breaking mutations of them must '
            'raise SchemaError; random token streams, spliced streams and very deep `use` chains / cycles must return a schema or raise '
            'SchemaError with a line inside the text - no other exception. One structural obligation decided from the ast: the module has '
            'no recursive function, so its own recursion cannot exhaust the interpreter stack (this found the RecursionError defect).',
            'No deductive verifier for Python is available and the parser (regex lexing, dataclasses, dynamic typing) is outside what the '
            'self-built VC generators read; the level is exploration and the evidence says so. Seeded, VERIF_SEED.',
            'runtime contract (oracle) + grammar-based generation and mutation; ast call-graph scan', 'exploration'),
    'C18': ('DESIGN.md section 4 / C18 and section 12',
            'Deductive proof on the real engine_sleep.c of the cycle discipline of tree_asleep, with ghost labels describing the cycle a tree '
            'belongs to: mj_wakeIsland on a sleeping tree sets exactly the trees of its cycle to the wake value, changes nothing else, '
            'returns the cycle length and never takes an error path (inductive invariant + variant), on an awake tree only lowers that '
            'tree\'s counter; mj_sleepTrees turns a list of distinct ready trees into one new cycle in list order, zeroes exactly their '
            'dof velocities/accelerations and touches no other tree; mj_sleepCycle terminates, returns -1 for bad / awake indices and a '
            'member of the cycle not above i otherwise; mj_updateSleepInit: tree_awake is the sign of tree_asleep, body states follow the '
            'documented rule, the three index lists are strictly increasing, in range and contain only selected bodies / dofs. Wake events: mj_wake '
            '(flagged qpos change, any applied force / generalized force / velocity on the tree), mj_wakeCollision (geom contact with an awake tree or an '
            'awake dof-less body), mj_wakeTendon (limited two-tree tendon), mj_wakeEquality (active connect / weld / joint equality) each leave the '
            'sleeping tree awake and never put an awake tree to sleep - proved against a weak view of mj_wakeIsland / mj_sleepCycle that is itself '
            'proved on the same bodies; treeCanSleep (exact form); mj_sleep countdown sweep (prefix contract: sleeping trees untouched, an awake tree that may sleep counts up to -1, '
            'one that may not restarts at -(1+mjMINAWAKE), none falls asleep there); the per-pair sleep filter of the collision driver (filterCollisionPair).',
            'Trusted: VC generator, clang, z3/cvc5. The debug-log blocks are compiled out with the repository switch '
            'MJ_DISABLE_DEBUG_TRACING. Wake sweeps: derived flags current at entry (the proved postcondition of mj_updateSleepInit), normal returns only, '
            'calls * ntree < 2^31, geom-geom contacts. Not decided (listed): bit-identical qpos of sleeping trees across steps, mj_sleep, '
            'completeness of the index lists and the minimum property of mj_sleepCycle (bounded stand-in only).',
            'contracts with ghost parameters + inductive loop invariants and variants, z3 LIA+arrays+quantifiers; bounded native stand-in'),
}

NA = {
    'C01': 'bit-identical trajectories from equal integration state is a 2-safety property of the whole engine (60 kLOC); it needs a proved frame for every function - the proof would consist of its assumptions (the copy/set-state half is decided under C26)',
    'C02': 'quantifies over OS schedules and asks for absence of data races; the VC generator is sequential and the sandbox has no concurrent program logic',
    'C03': 'lost wake-ups/termination of the thread-pool protocol are liveness + interleaving properties of C++ std::atomic code; no thread model, and C++ is outside the front end',
    'C04': 'equality of staged vs monolithic pipelines is relational over ~40 float-heavy callees; no postcondition short of the code itself',
    'C06': 'mass-matrix identities are inductive matrix identities over tree recursions in nonlinear real arithmetic; no inductive invariant the solvers discharge',
    'C07': 'Jacobian = derivative of position differentiates loop nests over arbitrary trees; symbolic differentiation only works on straight-line code',
    'C08': 'energy/momentum conservation and convergence order are numerical-analysis statements about trajectories, not pre/postconditions',
    'C09': 'holds only when the solver has converged - a premise about an iterative method no contract here can establish',
    'C10': 'optimality of Newton/CG/PGS iterates is convergence of iterative optimisation in floating point',
    'C15': 'GJK/EPA correctness is termination + geometric invariants of an iterative float algorithm; libccd sources are absent as well',
    'C21': 'the substance (leaks/double frees under longjmp handlers, all C++ allocation sites) is ownership reasoning over STL code, out of reach; the C half reduces to the nullable discipline run under C20',
    'C25': 'analytic vs finite-difference derivatives of the full smooth dynamics: derivative of loop nests and FD accuracy (numerical analysis)',
    'C28': "each sensor's documented quantity computed independently would be a second implementation of engine_sensor.c; as a contract it restates the code",
    'C29': 'spring/damper/gravcomp laws: the postcondition is the loop body; energy monotonicity needs the pipeline',
    'C32': 'XML writer/reader round trip is C++ (tinyxml2, STL) and cannot even be compiled offline',
    'C33': 'compile determinism / thread-pool asset compile: C++, schedules',
    'C35': 'mass properties from geoms/meshes: C++ (mjCGeom, mjCMesh, qhull)',
    'C36': 'equivalence of model spellings: whole C++ compiler plus trajectories',
    'C37': 'parser never crashes / enforces schema: C++ reader, tinyxml2, generated tables consumed by C++',
    'C38': 'asset cache: C++ unordered_map/set/mutex, concurrent histories',
    'C39': 'VFS: C++ containers and strings',
    'C40': 'registries under concurrency: C++ templates, std::mutex, std::atomic, interleavings',
    'C42': 'generators emit text in five target languages; a postcondition needs a parser for each emitted language - a model of the consumers, not a contract on the code',
    'C43': 'MJX vs C engine: JAX-traced programs against C floats, tolerance-based',
    'C44': 'jit/vmap transparency and device transfer are properties of JAX',
    'C45': 'autodiff gradients vs finite differences: JAX + numerical analysis',
    'C48': 'never-modifies-the-input is an aliasing/frame property of numpy views and dataclass copies; no Python heap model in the sandbox',
    'C51': 'PID/cable plugins are C++ classes outside the C front end',
}
PENDING = 'contracts designed (DESIGN.md section 4) but obligations not yet discharged by the built machinery; not claimed until they are'


def main():
    props = [json.loads(l) for l in open(os.path.join(HERE, 'properties.jsonl'))]
    checks, na = [], []
    for p in props:
        pid = p['id']
        if pid in CHECKS:
            ref, text, note, tech = CHECKS[pid][:4]
            category = CHECKS[pid][4] if len(CHECKS[pid]) > 4 else 'proof'
            checks.append({
                'property_id': pid,
                'quick_cmd': './check %s --tier quick' % pid,
                'thorough_cmd': './check %s --tier thorough' % pid,
                'evidence_file': 'evidence/%s.json' % pid,
                'replay_cmd_template': './check %s --replay {path}' % pid,
                'engine': 'cvc',
                'level_claimed': {'category': category, 'text': text, 'design_ref': ref},
                'level_note': note,
                'technique': tech,
            })
        else:
            na.append({'property_id': pid, 'reason': NA.get(pid, PENDING)})
    m = {
        'version': 1,
        'setup_cmd': 'true',
        'hooks': {'guard': 'MUJOCO_VERIF',
                  'enable': 'none needed: contracts are sidecar files under /verif/contracts, the AST is read from the unmodified source',
                  'baseline_off_cmd': 'cd /repo && /venv/bin/python -m pytest -ra -q -p no:cacheprovider --timeout=900 --continue-on-collection-errors',
                  'source_commits': [], 'add_only': True},
        'engines': [{'name': 'cvc', 'path': 'vlib/', 'serves_properties': sorted(CHECKS),
                     'kind_free_text': 'self-built contract verifier: clang JSON AST of the real C -> symbolic execution with loop invariants and modular calls -> SMT obligations -> z3/cvc5 portfolio; native replay of counterexamples'}],
        'checks': checks,
        'notes': 'contract-based deductive verification with a self-built VC generator; see DESIGN.md. fix: commits in /repo are listed in known_findings.json',
        'not_applicable': na,
    }
    json.dump(m, open(os.path.join(HERE, 'MANIFEST.json'), 'w'), indent=1)
    print('checks:', [c['property_id'] for c in checks], 'na:', len(na))


if __name__ == '__main__':
    main()
