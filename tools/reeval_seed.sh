#!/bin/bash
# usage: tools/reeval_seed.sh <PID>-<k> [<PID to check>]   -- re-run a check against a kept seeded change (scratch worktree, /repo untouched)
ID=$1; PID=${2:-${ID%%-*}}; DST=/verif/seeded/$ID
set -u
D=$(mktemp -d /tmp/reeval.XXXX)
git -C /repo worktree add --detach $D/wt HEAD >/dev/null 2>&1 || { echo "worktree failed"; exit 3; }
git -C $D/wt apply $DST/patch.diff || { echo "patch does not apply"; git -C /repo worktree remove --force $D/wt; rm -r $D; exit 3; }
out=$(cd /verif && VERIF_REPO=$D/wt VERIF_EVIDENCE_DIR=$D/ev ./check $PID 2>&1); code=$?
git -C /repo worktree remove --force $D/wt; rm -r $D
echo "$out" | tail -4
caught=$(echo "$out" | grep -E "^VIOLATION" | sed -E 's/.*obligation=([^ ]+).*/\1/' | head -5 | tr '\n' ' ')
python3 - "$DST/meta.json" "$code" "$caught" "$PID" <<'PY'
import json,sys
p,code,caught,pid=sys.argv[1:5]
m=json.load(open(p))
if pid == m.get('property', pid):
    m['check_exit_code_with_patch']=int(code); m['obligations_reporting_it']=caught.split()
else:
    m.setdefault('other_checks', {})[pid]={'exit': int(code), 'obligations_reporting_it': caught.split()}
m.setdefault('confirmed', {})['reevaluated']='tools/reeval_seed.sh: fresh scratch worktree of /repo HEAD with the patch applied, VERIF_REPO=<worktree> ./check ' + pid
json.dump(m,open(p,'w'),indent=1)
PY
echo "$ID check=$PID exit=$code caught: $caught"
