#!/usr/bin/env python3
"""regenerates the table of DESIGN.md section 15 (and its two counts) from seeded/*/meta.json"""
import glob, json, os, re
V = '/verif'
MISS = {
    'C05-1': 'mj_RungeKutta stage loop not under contract',
    'C13-1': 'capsule-capsule collider not under contract',
    'C13-3': 'mj_geomDistance not under contract',
    'C14-2': 'mj_collideTree margin: the BVH mid phase is not under contract',
    'C14-3': 'SAP broad-phase filtering not under contract',
    'C16-1': 'ray_capsule: only "the reported point lies on the surface" is proved; the changed root choice still reports surface points (nearest / no-hit not claimed)',
    'C16-2': 'mj_rayHfield not under contract',
    'C16-3': 'mju_multiRayPrepare (atan2) not under contract',
    'C16-5': 'mju_raySlab (BVH slab test with IEEE infinities) not under contract',
    'C16-6': 'mju_singleRay / mj_multiRay not under contract',
    'C13-5': 'mjc_BoxBox not under contract',
    'C13-6': 'mj_narrowphase contact assembly not under contract',
    'C14-5': 'mj_collideOBB not under contract',
    'C50-6': 'mjv_addGeoms (the caller of the add*Geoms functions) not under contract',
    'C17-3': 'unionConstraintTrees (row grouping) not under contract',
    'C17-5': 'mj_floodFill not under contract',
    'C17-6': 'mj_island map construction not under contract',
    'C23-1': 'mju_factorLU not under contract (stated out of reach)',
    'C23-2': 'mju_transposeSparse not under contract',
    'C23-3': 'mju_boxQP not under contract (stated out of reach)',
    'C24-2': 'mjd_quatIntegrate (derivative, Taylor branch) out of scope',
    'C26-2': '_resetData is an assumed contract',
    'C27-2': 'mj_fwdActuation not under contract',
    'C27-3': 'mj_transmission not under contract',
    'C30-3': 'bad-ctrl check inside mj_fwdActuation not under contract',
    'C34-3': 'namelist (C++ construction side) is an assumption',
    'C34-6': 'mjCModel::CopyNames (C++ construction side) is an assumption; only its region ORDER is extracted',
    'C46-3': 'active-set sign: affects reaching the minimum, which is not claimed',
    'C47-3': 'apply_body_theta_inertia needs MjSpec (C++ compiler)',
    'C50-2': 'group clamp refactor in addGeom* not under contract',
    'C50-3': 'addGeomGeoms plane branch contents not under contract',
}
rows, n, caught = [], 0, 0
for d in sorted(glob.glob(V + '/seeded/C*-*'), key=lambda p: (p.split('/')[-1].split('-')[0], int(p.split('-')[-1]))):
    sid = os.path.basename(d)
    m = json.load(open(d + '/meta.json'))
    n += 1
    obs = m.get('obligations_reporting_it') or []
    others = m.get('other_checks', {})
    if m.get('check_exit_code_with_patch') == 1 and obs:
        caught += 1
        rows.append('| %s | caught | `%s` |' % (sid, obs[0]))
    elif any(v.get('exit') == 1 and v.get('obligations_reporting_it') for v in others.values()):
        caught += 1
        k, v = [(k, v) for k, v in others.items() if v.get('exit') == 1][0]
        rows.append('| %s | caught (by %s) | `%s` |' % (sid, k, v['obligations_reporting_it'][0]))
    else:
        rows.append('| %s | missed | %s |' % (sid, MISS.get(sid, 'function not under contract')))
p = V + '/DESIGN.md'
s = open(p).read()
i = s.index('| seed | result | obligation reporting it / why it is missed |')
j = s.index('## Appendix A.')
s = s[:i] + '| seed | result | obligation reporting it / why it is missed |\n|---|---|---|\n' + '\n'.join(rows) + '\n\n' + s[j:]
s = re.sub(r'\d+ seeded changes kept, \*\*\d+ caught\*\*', '%d seeded changes kept, **%d caught**' % (n, caught), s)
open(p, 'w').write(s)
print(n, 'kept', caught, 'caught')
