#!/usr/bin/env python3
"""writes seeded/SUMMARY.md from seeded/*/meta.json (which check catches which seeded change)"""
import glob, json, os
HERE = os.path.dirname(os.path.dirname(os.path.abspath(__file__)))
rows = []
for d in sorted(glob.glob(os.path.join(HERE, 'seeded', '*-*'))):
    try:
        m = json.load(open(os.path.join(d, 'meta.json')))
    except Exception:
        continue
    code = m.get('check_exit_code_with_patch')
    obl = (m.get('obligations_reporting_it') or [])
    res = {1: 'caught', 0: 'missed', 2: 'undecided (exit 2)'}.get(code, 'not run')
    rows.append('| %s | %s | %s | %s |' % (os.path.basename(d), res, (obl[0] if obl else '-').replace('|', '/')[:90], m.get('summary', '').replace('|', '/').replace('\n', ' ')[:160]))
caught = sum(1 for r in rows if '| caught |' in r)
open(os.path.join(HERE, 'seeded', 'SUMMARY.md'), 'w').write(
    '# Seeded changes and what the checks report on them\n\n%d seeded changes, %d caught (exit 1 with a VIOLATION naming the obligation). '
    'A missed change lies in code the property\'s check does not put under contract; DESIGN.md section 15 says which.\n\n'
    '| seed | result | first obligation reporting it | change |\n|---|---|---|---|\n' % (len(rows), caught) + '\n'.join(rows) + '\n')
print(len(rows), 'seeds,', caught, 'caught')
