#!/bin/bash
# runs every registered thorough check on the current /repo tree; evidence goes to a scratch directory (committed evidence is the quick tier's)
cd /verif
EV=$(mktemp -d /dev/shm/thorough_ev.XXXX)
for pid in ${@:-$(python3 -c "import json;print(' '.join(c['property_id'] for c in json.load(open('MANIFEST.json'))['checks']))")}; do
  t0=$(date +%s)
  out=$(VERIF_EVIDENCE_DIR=$EV ./check $pid --tier thorough 2>&1); code=$?
  echo "$pid exit=$code wall=$(( $(date +%s) - t0 ))s $(echo "$out" | tail -1 | cut -c1-160)"
  [ $code -ne 0 ] && echo "$out" | grep -E "^(VIOLATION|UNDECIDED|VACUOUS)" | head -5
done
rm -r $EV
