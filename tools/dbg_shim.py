#!/usr/bin/env python3
"""python3-vt tools/dbg_shim.py <contracts-module> <shim.c> <function> <int_mode> <num_mode> [timeout_s] [filter]"""
import importlib, sys, time
sys.path.insert(0, '/verif')
from vlib.cast import load_tu
from vlib.verify import verify_function
from vlib.solve import discharge
mod, shim, fn, im, nm = sys.argv[1:6]
C = importlib.import_module('contracts.' + mod).CONTRACTS
tu = load_tu('verif:' + shim, abspath='/verif/shims/' + shim)
t = time.time()
r = verify_function(tu, fn, C, im, nm)
print(len(r.obligations), 'obligations; vcgen %.1fs' % (time.time() - t), 'paths', r.n_return_paths, r.n_error_paths)
if len(sys.argv) > 6:
    flt = sys.argv[7] if len(sys.argv) > 7 else ''
    obs = [o for o in r.obligations if flt in o.name]
    t = time.time()
    vs = discharge(obs, int(sys.argv[6]))
    print('solve %.1fs' % (time.time() - t))
    for v in vs:
        if v.status != 'unsat' and v.ob.kind != 'cover':
            print(v.name, v.status, v.backend, round(v.time_s, 1), str(v.reason)[:100], str(v.model)[:300] if v.status == 'sat' else '')
