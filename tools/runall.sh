#!/bin/bash
# runs every registered quick check on the current /repo tree, validates evidence; use before committing evidence
cd /verif
git -C /repo status --short | grep -q . && { echo "WARNING: /repo working tree is not clean"; git -C /repo status --short | head; }
for pid in $(python3 -c "import json;print(' '.join(c['property_id'] for c in json.load(open('MANIFEST.json'))['checks']))"); do
  out=$(./check $pid 2>&1); code=$?
  echo "$pid exit=$code $(echo "$out" | tail -1 | cut -c1-160)"
done
python3-vt - <<'PY'
import json,jsonschema,glob
m=json.load(open('/verif/MANIFEST.json')); jsonschema.validate(m, json.load(open('/root/.vp/MANIFEST.schema.json')))
sch=json.load(open('/root/.vp/EVIDENCE.schema.json'))
for c in m['checks']:
    e=json.load(open('/verif/'+c['evidence_file'])); jsonschema.validate(e, sch)
    cov=e['coverage']
    if e['level']=='proof' and cov['obligations'] != cov['discharged']: print('EVIDENCE MISMATCH', c['property_id'], cov['obligations'], cov['discharged'])
print('manifest+evidence valid')
PY
