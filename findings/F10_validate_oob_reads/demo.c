// mj_validateReferences must not itself index outside the model while checking a corrupt model
#include "common.h"
int main(int argc, char** argv) {
  int which = argc > 1 ? atoi(argv[1]) : 0;
  mjModel* m;
  const char* e;
  switch (which) {
  case 0:   // tactile sensor whose reference is not a geom: sensor_refid is never range-checked, then used as an index
    m = tiny_model(1, 1, 0, 0);
    m->sensor_type[0] = mjSENS_TACTILE; m->sensor_dim[0] = 1; m->sensor_reftype[0] = mjOBJ_UNKNOWN; m->sensor_refid[0] = 100000000;
    e = mj_validateReferences(m); break;
  case 1:   // plugin sensor with sensor_plugin == -1 (allowed by the table): m->plugin[-1]
    m = tiny_model(0, 1, 0, 0);
    m->sensor_type[0] = mjSENS_PLUGIN; m->sensor_plugin[0] = -1;
    { int* p = m->plugin; (void)p; }
    e = mj_validateReferences(m); break;
  default:  // tuple_adr == -1 with tuple_size 1: tuple_objtype[-1]
    m = tiny_model(0, 0, 0, 1);
    m->tuple_adr[0] = -1;
    e = mj_validateReferences(m); break;
  }
  printf("case %d -> %s\n", which, e ? e : "ACCEPTED");
  return e ? 0 : 1;
}
