#!/bin/sh
# usage: run.sh <repo root>; exit 0 = every corrupt model is rejected without an out-of-bounds read
HERE=$(cd "$(dirname "$0")" && pwd); B=$(mktemp -d); trap 'rm -rf "$B"' EXIT
sh "$HERE/../build.sh" "$1" "$HERE/demo.c" "$B" || exit 2
rc=0; export ASAN_OPTIONS=detect_leaks=0
for c in 0 1 2; do "$B/demo" $c > "$B/out" 2>&1 || rc=1; grep -E "^case|ERROR: AddressSanitizer|SUMMARY" "$B/out" | head -3; done
[ $rc -eq 0 ] && echo PASS || echo FAIL
exit $rc
