#!/bin/sh
# usage: run.sh <repo root>   (exit 1 = the finding is present)
HERE=$(cd "$(dirname "$0")" && pwd); B=$(mktemp -d); trap 'rm -rf "$B"' EXIT
sh "$HERE/../build.sh" "$1" "$HERE/demo.c" "$B" || exit 2
ASAN_OPTIONS=detect_leaks=0 "$B/demo"
