// KNOWN FINDING (not repaired): several documented reference arrays are not looked at by mj_validateReferences.
// body_treeid is one: engine code indexes tree_* arrays with it (e.g. m->tree_dofadr[m->body_treeid[b]]).
#include "common.h"
int main(void) {
  mjModel* m = tiny_model(1, 0, 0, 0);
  m->body_treeid[0] = 1000000000;            // ntree == 0
  const char* e = mj_validateReferences(m);
  printf("body_treeid[0] = 1e9 with ntree = %lld -> %s\n", (long long)m->ntree, e ? e : "ACCEPTED");
  return e ? 0 : 1;
}
