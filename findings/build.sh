#!/bin/sh
# usage: build.sh <repo root> <demo.c> <out dir>   -- compiles the real engine sources of <repo root> with clang + ASan and links the demo
ROOT=$(cd "$1" && pwd); DEMO=$2; B=$3
HERE=$(cd "$(dirname "$0")" && pwd)
SAN=${SAN:-address}
CF="-g -O0 -w -I$ROOT/include -I$ROOT/src -I$HERE -I$HERE/../stubs -fsanitize=$SAN"
ls $ROOT/src/engine/*.c | grep -v engine_collision_convex.c | xargs -P8 -I{} sh -c 'clang '"$CF"' -c {} -o '"$B"'/$(basename {} .c).o' || exit 2
clang $CF -c "$DEMO" -o "$B/demo.o" || exit 2
clang -fsanitize=$SAN -no-pie -o "$B/demo" "$B"/*.o -Wl,--unresolved-symbols=ignore-all -lm -lpthread || exit 2
