#!/bin/sh
# usage: run.sh <repo root>
HERE=$(cd "$(dirname "$0")" && pwd); B=$(mktemp -d); trap 'rm -rf "$B"' EXIT
SAN=address,signed-integer-overflow sh "$HERE/../build.sh" "$1" "$HERE/demo.c" "$B" || exit 2
ASAN_OPTIONS=detect_leaks=0 UBSAN_OPTIONS=halt_on_error=1 "$B/demo" > "$B/out" 2>&1; rc=$?
grep -E "runtime error|corrupt nmocap" "$B/out" | head -3
[ $rc -eq 0 ] && echo PASS || echo FAIL
exit $rc
