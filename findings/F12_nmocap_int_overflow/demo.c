// a corrupt nmocap must not make the serialisation macros overflow `int nmocap * 3` (undefined behaviour)
#include "common.h"
int main(void) {
  mjModel* m = tiny_model(1, 0, 0, 0);
  mjtSize sz = mj_sizeModel(m);
  char* buf = malloc(sz);
  mj_saveModel(m, NULL, buf, (int)sz);
  // nkey == 0, so no array length depends on nmocap and the file stays the same size
  mjtSize big = 1 << 30;
  memcpy(buf + 5*sizeof(int) + sizeof(mjtSize)*size_index("nmocap"), &big, sizeof(big));
  mjModel* m2 = mj_loadModelBuffer(buf, (int)sz);     // UBSan: signed integer overflow in nmocap*3 on the unrepaired tree
  printf("corrupt nmocap: %s\n", m2 ? "LOADED" : "rejected");
  return m2 ? 1 : 0;
}
