// mj_validateReferences must reject out-of-range references even when the range sum overflows
#include "common.h"
int main(void) {
  int bad = 0;
  { mjModel* m = tiny_model(1, 0, 0, 0);
    m->geom_bodyid[0] = INT_MAX;                         // INT_MAX + 1 wraps in int arithmetic
    const char* e = mj_validateReferences(m);
    printf("geom_bodyid = INT_MAX            -> %s\n", e ? e : "ACCEPTED"); bad += !e; }
  { mjModel* m = tiny_model(0, 1, 0, 0);
    m->sensor_type[0] = mjSENS_USER; m->sensor_dim[0] = INT_MAX; m->sensor_adr[0] = 1;
    const char* e = mj_validateReferences(m);
    printf("sensor_adr 1 + dim INT_MAX       -> %s\n", e ? e : "ACCEPTED"); bad += !e; }
  { mjModel* m = tiny_model(0, 0, 1, 0);
    m->tex_height[0] = INT_MAX; m->tex_width[0] = INT_MAX; m->tex_nchannel[0] = 4;   // 4*(2^31-1)^2 > 2^63
    const char* e = mj_validateReferences(m);
    printf("tex 4 x INT_MAX x INT_MAX bytes  -> %s\n", e ? e : "ACCEPTED"); bad += !e; }
  { mjModel* m = tiny_model(0, 0, 1, 0);
    m->tex_adr[0] = INT64_MAX;                           // tex_adr + nbytes wraps
    const char* e = mj_validateReferences(m);
    printf("tex_adr = INT64_MAX              -> %s\n", e ? e : "ACCEPTED"); bad += !e; }
  printf(bad ? "FAIL (%d corrupt models accepted)\n" : "PASS\n", bad);
  return bad ? 1 : 0;
}
