#!/bin/sh
# usage: run.sh <repo root>
HERE=$(cd "$(dirname "$0")" && pwd); B=$(mktemp -d); trap 'rm -rf "$B"' EXIT
sh "$HERE/../build.sh" "$1" "$HERE/demo.c" "$B" || exit 2
ASAN_OPTIONS=detect_leaks=0 "$B/demo" > "$B/out" 2>&1; rc=$?
grep -E "name_pluginadr|ERROR: AddressSanitizer|SUMMARY|invalid" "$B/out" | head -4
[ $rc -eq 0 ] && echo PASS || echo FAIL
exit $rc
