// every name_*adr array must be validated: mj_id2name indexes `names` with it
#include "common.h"
#include "engine/engine_name.h"
int main(void) {
  // a model with one flex is laborious to build by hand; one plugin instance is enough for the same gap
  mjModel* m = NULL;
  mjtSize s[84] = {0};
  int k = 0, i_nbody=-1, i_nplugin=-1, i_nnames=-1;
#define X(name) if (k < 84) { if (!strcmp(#name,"nbody")) i_nbody=k; if (!strcmp(#name,"nplugin")) i_nplugin=k; if (!strcmp(#name,"nnames")) i_nnames=k; } k++;
  MJMODEL_SIZES
#undef X
  s[i_nbody]=1; s[i_nplugin]=1; s[i_nnames]=2;
  mj_makeModel(&m,
   s[0],s[1],s[2],s[3],s[4],s[5],s[6],s[7],s[8],s[9],s[10],s[11],s[12],s[13],s[14],s[15],s[16],s[17],s[18],s[19],s[20],
   s[21],s[22],s[23],s[24],s[25],s[26],s[27],s[28],s[29],s[30],s[31],s[32],s[33],s[34],s[35],s[36],s[37],s[38],s[39],s[40],
   s[41],s[42],s[43],s[44],s[45],s[46],s[47],s[48],s[49],s[50],s[51],s[52],s[53],s[54],s[55],s[56],s[57],s[58],s[59],s[60],
   s[61],s[62],s[63],s[64],s[65],s[66],s[67],s[68],s[69],s[70],s[71],s[72],s[73],s[74],s[75],s[76],s[77],s[78],s[79],s[80],
   s[81],s[82],s[83]);
  if (!m) return 2;
  m->body_mocapid[0] = -1; m->body_plugin[0] = -1; m->body_jntadr[0] = -1; m->body_dofadr[0] = -1; m->body_geomadr[0] = -1; m->body_bvhadr[0] = -1;
  m->plugin_stateadr[0] = -1; m->plugin_attradr[0] = -1;
  const char* e = mj_validateReferences(m);
  if (e) { printf("harness model invalid: %s\n", e); return 2; }
  m->name_pluginadr[0] = 100000000;                      // far outside `names` (2 bytes)
  e = mj_validateReferences(m);
  printf("name_pluginadr = 1e8 -> %s\n", e ? e : "ACCEPTED");
  if (!e) { const char* nm = mj_id2name(m, mjOBJ_PLUGIN, 0); printf("mj_id2name read %p\n", (void*)nm); }   // ASan: wild read
  return e ? 0 : 1;
}
