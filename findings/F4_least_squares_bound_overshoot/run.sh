#!/bin/sh
# usage: run.sh <repo root>
HERE=$(cd "$(dirname "$0")" && pwd)
/venv/bin/python "$HERE/demo.py" "$1"
