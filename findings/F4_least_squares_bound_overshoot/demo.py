"""least_squares must evaluate the residual only inside the bounds and return a point inside the bounds.
usage: demo.py <repo root>   (run with /venv/bin/python: needs the installed mujoco binding for mju_boxQP)"""
import importlib.util
import random
import sys
import numpy as np

root = sys.argv[1] if len(sys.argv) > 1 else '/repo'
spec = importlib.util.spec_from_file_location('vf_minimize', root + '/python/mujoco/minimize.py')
minimize = importlib.util.module_from_spec(spec)
spec.loader.exec_module(minimize)

rnd = random.Random(1)
worst = None
for trial in range(400):
    lo, hi = np.array([-1.0 - rnd.random()]), np.array([1.0 + rnd.random()])
    D = 10 ** rnd.uniform(-2, 2)
    x0 = np.array([rnd.uniform(lo[0], hi[0])])
    target = hi[0] + 5.0                    # minimiser beyond the upper bound: the step is clamped at dupper
    outside = []

    def residual(x):
        x = np.atleast_2d(x)
        for v in x.flatten():
            if v < lo[0] or v > hi[0]:
                outside.append(float(v))
        return x - target
    try:
        x, trace = minimize.least_squares(x0, residual, bounds=[lo, hi], x_scale=D, verbose=0, max_iter=20)
    except Exception as e:   # noqa
        print('exception', repr(e)); continue
    x = float(np.asarray(x).flatten()[0])
    if outside or x > hi[0] or x < lo[0]:
        worst = dict(lo=float(lo[0]), hi=float(hi[0]), D=D, x0=float(x0[0]), evaluated_outside=outside[:3], returned=x,
                     returned_minus_hi=x - hi[0])
        break
if worst:
    print('FAIL', worst)
    sys.exit(1)
print('PASS (400 problems: every residual evaluation and every returned point inside the bounds)')
