// a corrupt nnames_map size field must not make mj_loadModelBuffer write past the model buffer
#include "common.h"
int main(void) {
  mjModel* m = tiny_model(1, 0, 0, 0);
  mjtSize sz = mj_sizeModel(m);
  char* buf = malloc(sz);
  mj_saveModel(m, NULL, buf, (int)sz);
  mjModel* m2 = mj_loadModelBuffer(buf, (int)sz);
  printf("round trip of the valid model: %s\n", m2 ? "loaded" : "REJECTED");
  if (!m2) return 2;
  // the file claims EXTRA more hash slots than mj_makeModel allocates and carries the bytes for them
  // (names_map is followed only by `paths`, empty here, so the extra ints go at the end of the file)
  int EXTRA = 100000, idx = size_index("nnames_map");
  char* buf2 = calloc(1, sz + 4*(size_t)EXTRA);
  memcpy(buf2, buf, sz);
  mjtSize v; memcpy(&v, buf2 + 5*sizeof(int) + sizeof(mjtSize)*idx, sizeof(v)); v += EXTRA;
  memcpy(buf2 + 5*sizeof(int) + sizeof(mjtSize)*idx, &v, sizeof(v));
  for (int i=0; i<EXTRA; i++) ((int*)(buf2+sz))[i] = 0x41414141;
  mjModel* m3 = mj_loadModelBuffer(buf2, (int)(sz + 4*EXTRA));    // ASan reports the overrun here on the unrepaired tree
  printf("corrupt nnames_map: %s\n", m3 ? "LOADED" : "rejected");
  printf(m3 ? "FAIL\n" : "PASS\n");
  return m3 ? 1 : 0;
}
