// shared by the finding demos: a minimal valid mjModel built through the real mj_makeModel
#include <stdio.h>
#include <stdlib.h>
#include <string.h>
#include <limits.h>
#include <mujoco/mujoco.h>
#include "engine/engine_io.h"

static int size_index(const char* which) {
  int idx = -1, k = 0;
#define X(name) if (!strcmp(#name, which)) idx = k; k++;
  MJMODEL_SIZES
#undef X
  return idx;
}

// world body + `ngeom` geoms, `nsensor` sensors, `ntex` textures, `ntuple` tuples (one entry each)
static mjModel* tiny_model(int ngeom, int nsensor, int ntex, int ntuple) {
  mjModel* m = NULL;
  mjtSize s[84] = {0};
  int k = 0, i_nbody = -1, i_ngeom = -1, i_nsensor = -1, i_ntex = -1, i_ntexdata = -1, i_ntuple = -1, i_ntupledata = -1, i_nnames = -1;
#define X(name) if (k < 84) { if (!strcmp(#name,"nbody")) i_nbody=k; if (!strcmp(#name,"ngeom")) i_ngeom=k; \
    if (!strcmp(#name,"nsensor")) i_nsensor=k; if (!strcmp(#name,"ntex")) i_ntex=k; if (!strcmp(#name,"ntexdata")) i_ntexdata=k; \
    if (!strcmp(#name,"ntuple")) i_ntuple=k; if (!strcmp(#name,"ntupledata")) i_ntupledata=k; if (!strcmp(#name,"nnames")) i_nnames=k; } k++;
  MJMODEL_SIZES
#undef X
  s[i_nbody] = 1; s[i_ngeom] = ngeom; s[i_nsensor] = nsensor; s[i_ntex] = ntex; s[i_ntexdata] = 16*ntex;
  s[i_ntuple] = ntuple; s[i_ntupledata] = ntuple; s[i_nnames] = 2;
  mj_makeModel(&m,
   s[0],s[1],s[2],s[3],s[4],s[5],s[6],s[7],s[8],s[9],s[10],s[11],s[12],s[13],s[14],s[15],s[16],s[17],s[18],s[19],s[20],
   s[21],s[22],s[23],s[24],s[25],s[26],s[27],s[28],s[29],s[30],s[31],s[32],s[33],s[34],s[35],s[36],s[37],s[38],s[39],s[40],
   s[41],s[42],s[43],s[44],s[45],s[46],s[47],s[48],s[49],s[50],s[51],s[52],s[53],s[54],s[55],s[56],s[57],s[58],s[59],s[60],
   s[61],s[62],s[63],s[64],s[65],s[66],s[67],s[68],s[69],s[70],s[71],s[72],s[73],s[74],s[75],s[76],s[77],s[78],s[79],s[80],
   s[81],s[82],s[83]);
  if (!m) { printf("mj_makeModel failed\n"); exit(2); }
  m->body_mocapid[0] = -1; m->body_plugin[0] = -1; m->body_jntadr[0] = -1; m->body_dofadr[0] = -1;
  m->body_geomadr[0] = ngeom ? 0 : -1; m->body_geomnum[0] = ngeom; m->body_bvhadr[0] = -1;
  for (int i=0; i<ngeom; i++) { m->geom_matid[i] = -1; m->geom_dataid[i] = -1; m->geom_condim[i] = 3; m->geom_contype[i] = 1; }
  for (int i=0; i<nsensor; i++) { m->sensor_plugin[i] = -1; m->sensor_type[i] = mjSENS_CLOCK; m->sensor_objtype[i] = mjOBJ_UNKNOWN;
                                  m->sensor_reftype[i] = mjOBJ_UNKNOWN; m->sensor_objid[i] = -1; m->sensor_refid[i] = -1; m->sensor_dim[i] = 1; }
  m->nsensordata = nsensor;
  for (int i=0; i<nsensor; i++) m->sensor_adr[i] = i;
  for (int i=0; i<ntex; i++) { m->tex_pathadr[i] = -1; m->tex_adr[i] = 16*i; m->tex_height[i] = 2; m->tex_width[i] = 2; m->tex_nchannel[i] = 4; }
  for (int i=0; i<ntuple; i++) { m->tuple_adr[i] = i; m->tuple_size[i] = 1; m->tuple_objtype[i] = mjOBJ_BODY; m->tuple_objid[i] = 0; }
  for (int i=0; i<m->nnames_map; i++) m->names_map[i] = -1;
  const char* err = mj_validateReferences(m);
  if (err) { printf("harness model is not valid: %s\n", err); exit(2); }
  return m;
}
