// every scalar flag of mjModel must survive mj_saveModel / mj_loadModelBuffer
#include "common.h"
int main(void) {
  mjModel* m = tiny_model(1, 0, 0, 0);
  m->geom_adhesion[0] = 0.5;           // what mj_setConst derives flg_adhesion from
  m->flg_gravcomp = 1; m->flg_surfacevel = 1; m->flg_adhesion = 1;
  mjtSize sz = mj_sizeModel(m);
  char* buf = malloc(sz);
  mj_saveModel(m, NULL, buf, (int)sz);
  mjModel* m2 = mj_loadModelBuffer(buf, (int)sz);
  if (!m2) { printf("load failed\n"); return 2; }
  printf("saved : gravcomp=%d surfacevel=%d adhesion=%d (geom_adhesion[0]=%g)\n", m->flg_gravcomp, m->flg_surfacevel, m->flg_adhesion, m->geom_adhesion[0]);
  printf("loaded: gravcomp=%d surfacevel=%d adhesion=%d (geom_adhesion[0]=%g)\n", m2->flg_gravcomp, m2->flg_surfacevel, m2->flg_adhesion, m2->geom_adhesion[0]);
  int ok = m2->flg_gravcomp == m->flg_gravcomp && m2->flg_surfacevel == m->flg_surfacevel && m2->flg_adhesion == m->flg_adhesion;
  printf(ok ? "PASS\n" : "FAIL: the loaded model skips adhesion (engine_passive.c / engine_core_constraint.c test m->flg_adhesion)\n");
  return ok ? 0 : 1;
}
