"""parse_string must raise SchemaError or return a schema - no other exception may escape.
usage: demo.py <repo root>"""
import sys
root = sys.argv[1] if len(sys.argv) > 1 else '/repo'
sys.path.insert(0, root + '/doc/generate')
import mjcf_schema as ms

N = 1200
text = ''.join('group g%d { use g%d }\n' % (i, i + 1) for i in range(N)) + 'group g%d { x: int }\nelement e { use g0 }\n' % N
try:
    schema = ms.parse_string(text)
    attrs = schema.expanded_attrs(schema.elements['e'])
    print('parsed; element e has attributes', [a.name for a in attrs])
    ok = [a.name for a in attrs] == ['x']
except ms.SchemaError as e:
    print('SchemaError:', e); ok = True
except BaseException as e:      # noqa
    print('ESCAPED:', type(e).__name__); ok = False
# cycles must still be found, including long ones
cyc = ''.join('group c%d { use c%d }\n' % (i, (i + 1) % 1500) for i in range(1500))
try:
    ms.parse_string(cyc); print('cycle accepted'); ok = False
except ms.SchemaError as e:
    print('cycle rejected:', str(e)[:60])
except BaseException as e:      # noqa
    print('ESCAPED:', type(e).__name__); ok = False
print('PASS' if ok else 'FAIL')
sys.exit(0 if ok else 1)
